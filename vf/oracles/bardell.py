"""E5 oracle: Bardell's hierarchical polynomials from their defining formula (Bardell 1991; the formula is the
one quoted in theory/func/bardell/bardell.py:17-22, re-implemented here with exact rationals), and exact
integrals of products of functions / derivatives."""
from fractions import Fraction
from functools import lru_cache
from math import factorial
from ..poly import Poly

NMAX = 30


def _fact2(n):
    if n <= 0:
        return 1  # (-1)!! = 0!! = 1
    r = 1
    while n > 1:
        r *= n
        n -= 2
    return r


@lru_cache(maxsize=None)
def f_raw(i, var='xi'):
    """i-th function WITHOUT the edge flag factor"""
    xi = Poly.var(var)
    H = Fraction
    if i == 0:
        return Poly.const(H(1, 2)) - xi.scale(H(3, 4)) + (xi ** 3).scale(H(1, 4))
    if i == 1:
        return Poly.const(H(1, 8)) - xi.scale(H(1, 8)) - (xi ** 2).scale(H(1, 8)) + (xi ** 3).scale(H(1, 8))
    if i == 2:
        return Poly.const(H(1, 2)) + xi.scale(H(3, 4)) - (xi ** 3).scale(H(1, 4))
    if i == 3:
        return Poly.const(H(-1, 8)) - xi.scale(H(1, 8)) + (xi ** 2).scale(H(1, 8)) + (xi ** 3).scale(H(1, 8))
    r = i + 1
    p = Poly()
    for n in range(0, r // 2 + 1):
        e = r - 2 * n - 1
        if e < 0:
            continue
        den = 2 ** n * factorial(n) * factorial(e)
        p = p + (xi ** e).scale(Fraction((-1) ** n * _fact2(2 * r - 2 * n - 7), den))
    return p


FLAGNAMES = ('1t', '1r', '2t', '2r')


def f(i, var='xi', flags=('x1t', 'x1r', 'x2t', 'x2r'), d=0):
    """d-th derivative of the i-th function, first four scaled by their edge flag (a variable name or a number)"""
    p = f_raw(i, var)
    for _ in range(d):
        p = p.diff(var)
    if i < 4:
        fl = flags[i]
        p = p * (Poly.var(fl) if isinstance(fl, str) else Poly.const(fl))
    return p


XF = ('x1t', 'x1r', 'x2t', 'x2r')
YF = ('y1t', 'y1r', 'y2t', 'y2r')


def integral(i, j, d1, d2, lo=-1, hi=1, xf=XF, yf=YF):
    """exact  int_lo^hi f_i^(d1)[xf](xi) f_j^(d2)[yf](xi) dxi   (lo/hi numbers or variable names)"""
    p = f(i, 'xi', xf, d1) * f(j, 'xi', yf, d2)
    lo = Poly.var(lo) if isinstance(lo, str) else Poly.const(lo)
    hi = Poly.var(hi) if isinstance(hi, str) else Poly.const(hi)
    return p.integrate('xi', lo, hi)


def integral_c0c1(i, j, d1, d2, xf=XF, yf=YF):
    """exact  int_-1^1 f_i^(d1)[xf](xi) * (d^d2 f_j/d eta^d2)[yf](eta = c0 + c1*xi) dxi"""
    g = f(j, 'eta', yf, d2).subs('eta', Poly.var('c0') + Poly.var('c1') * Poly.var('xi'))
    p = f(i, 'xi', xf, d1) * g
    return p.integrate('xi', Poly.const(-1), Poly.const(1))
