"""C08 -- Internal force = energy gradient; tangent stiffness = its exact Jacobian.

Real Panel.calc_fint / calc_kT / calc_k0(c) / calc_kG0(c) (E4) over de-Cythonised calc_fint, fkL_num, fkG_num (E1) with
symbolic quadrature points and weights.  Three independent routes:
  (a) fint(c) == gradient of 1/2 int eps^T F eps built by the oracle's own von-Karman strain operators (E5);
  (b) kT(c)  == (d eps)^T F (d eps) + (d^2 eps)^T sigma of the same oracle;
  (c) oracle-free: fint is a polynomial of degree <= 3 in c, so the five-point stencil is exact:
      12 kT(c) d == -fint(c+2d) + 8 fint(c+d) - 8 fint(c-d) + fint(c-2d)   as an identity in c and d."""
import json
import numpy as np
from fractions import Fraction
from ..harness import Run, pmap
from .. import kprop
from ..sym import Sym
from ..panelsym import (PanelCtx, symmetric_completion, positivity, series_of)
from ..oracles import energy as E, pointwise as PW

NUM = {'plate': 'compmech/panel/models/plate_clt_donnell_bardell_num.pyx',
       'cpanel': 'compmech/panel/models/cpanel_clt_donnell_bardell_num.pyx'}


def state(ctx, size, kind, name='c'):
    c = np.zeros(size, dtype=object)
    for k in range(size):
        comp = k % 3
        if kind == 'zero' or (kind == 'membrane' and comp == 2) or (kind == 'bending' and comp != 2):
            c[k] = 0
        else:
            c[k] = ctx.V('%s%d' % (name, k))
    return c


def build_assembly(cfg, values=None):
    """assembly of non-linear panels joined by penalty connections: the real PanelAssembly.calc_kT / calc_fint / calc_k0 at a symbolic
    state; tangent = Jacobian of the internal force by the exact five-point stencil (the internal force is cubic in the amplitudes),
    symmetric; internal force of the undeformed assembly zero; tangent at the undeformed state = linear stiffness"""
    from . import c12
    ctx = PanelCtx(values=values, seed=cfg.get('seed', 0))
    obs = []
    with ctx.shadow(extra_stubs=c12.conn_stubs(ctx)):
        from compmech.panel.assembly import PanelAssembly
        panels = []
        for q, (model, m, n) in enumerate(cfg['panels']):
            p = ctx.new_panel(model, m, n, prefix='p%d_' % q)
            lam = p._verif_lam
            lam.A, lam.D = lam.ABD[0:3, 0:3], lam.ABD[3:6, 3:6]
            p.lam = lam
            p._rebuild()
            if panels:
                p.a = panels[0].a
            p.nx = p.ny = 1
            panels.append(p)
        conn = [dict(p1=panels[k], p2=panels[k + 1], func='SSycte', ycte1=panels[k].b, ycte2=0) for k in range(len(panels) - 1)]
        asm = PanelAssembly(panels, conn)
        size = asm.get_size()
        for p in panels:
            p.calc_k0(silent=True)
        c = np.array([ctx.V('c%d' % k) for k in range(size)], dtype=object)
        if cfg.get('membrane_panel') is not None:
            # one panel of the assembly is still flat (in-plane amplitudes only, as in a pre-buckling state)
            pq = panels[cfg['membrane_panel']]
            for k in range(pq.col_start + 2, pq.col_end, 3):
                c[k] = Sym.lift(0)
        d = np.array([ctx.V('d%d' % k) for k in range(size)], dtype=object)
        c0 = c.copy()
        kT = asm.calc_kT(c, silent=True)
        fs = {}
        for t in (-2, -1, 1, 2):
            ct = np.array([c0[k] + t * d[k] for k in range(size)], dtype=object)
            fs[t] = asm.calc_fint(ct, silent=True)
        lhs = kT.dot(d)
        for k in range(size):
            obs.append(('assembly-stencil[%d]' % k, 12 * lhs[k], -fs[2][k] + 8 * fs[1][k] - 8 * fs[-1][k] + fs[-2][k]))
        kd = kT.todict()
        for (r, cc), v in kd.items():
            if r < cc:
                obs.append(('assembly-kT-symmetric[%d,%d]' % (r, cc), v, kd.get((cc, r), 0)))
        z = np.array([Sym.lift(0)] * size, dtype=object)
        f0 = asm.calc_fint(z, silent=True)
        for k in range(size):
            obs.append(('assembly-fint-of-undeformed-state[%d]' % k, f0[k], 0))
        kT0 = asm.calc_kT(z, silent=True).todict()
        # (the linear stiffness by the SAME numerical rule: agreement of the numerical and the analytical k0 needs an exact rule, C14 d)
        k0m = asm.calc_k0(c=z, silent=True)
        k0 = k0m.todict()
        for k in sorted(set(kT0) | set(k0)):
            obs.append(('assembly-kT-at-undeformed-state-vs-k0[%d,%d]' % k, kT0.get(k, 0), k0.get(k, 0)))
        # infinitesimal states: the part of fint that is linear in the amplitudes is k0 c  (fint is a cubic polynomial in c:
        # its linear part is (8 (f(c) - f(-c)) - (f(2c) - f(-2c))) / 12)
        fl = {t: asm.calc_fint(np.array([t * c0[k] for k in range(size)], dtype=object), silent=True) for t in (-2, -1, 1, 2)}
        kc = k0m.dot(c0)
        for k in range(size):
            obs.append(('assembly-fint-linear-part-vs-k0c[%d]' % k, 8 * (fl[1][k] - fl[-1][k]) - (fl[2][k] - fl[-2][k]), 12 * kc[k]))
        for k in range(size):
            if c[k] is not c0[k]:
                obs.append(('caller-array-c[%d]-unchanged' % k, Sym.lift(1), Sym.lift(0)))
    assumptions = []
    if values is None:
        for q, p in enumerate(panels):
            assumptions += positivity(ctx, p, cfg['panels'][q][0])
    info = {'atoms': len(ctx.atoms.table), 'stats': {k: v.stats.as_dict() for k, v in ctx.kernels.mods.items()},
            'values': {k: str(v) for k, v in ctx.used_values.items()}}
    return obs, assumptions, info


def build(cfg, values=None):
    if cfg['variant'] == 'assembly':
        return build_assembly(cfg, values)
    if cfg['variant'] == 'kT0-analytic':
        # tangent at the undeformed state = the ANALYTICAL linear stiffness (exact Gauss rule; harness shared with C14 relation d)
        from . import c14
        return c14.build(dict(cfg, rel='d', which='k0', kT=True), values)
    model, m, n, variant = cfg['model'], cfg['m'], cfg['n'], cfg['variant']
    nx, ny = cfg['nx'], cfg['ny']
    ctx = PanelCtx(values=values, seed=cfg.get('seed', 0))
    obs = []
    with ctx.shadow():
        p = ctx.new_panel(model, m, n)
        size = 3 * m * n
        if cfg.get('laminate_offset'):
            p.offset = ctx.V('d')    # laminate with an offset reference surface (A, B + d A, D + 2 d B + d^2 A)
        p.calc_k0(silent=True)      # public sequence: the laminate F used by calc_fint is set here
        p.nx, p.ny = ny + 2, nx + 1   # the numbers of integration points passed as ARGUMENTS must win over the attributes
        kw = dict(nx=nx, ny=ny)
        if cfg.get('by_attributes'):
            p.nx, p.ny = nx, ny          # ... and when they are not passed, the attributes nx, ny (in that order) are used
            kw = {}
        c = state(ctx, size, cfg.get('state', 'generic'))
        S = series_of(p, model)
        ops = E.donnell_ops('cpanel' if model == 'cpanel' else 'plate', r=p.r)
        F = p._verif_lam.ABD
        if cfg.get('laminate_offset'):
            base, d_ = F, p.offset
            F = base.copy()
            for i in range(3):
                for j in range(3):
                    F[i, 3 + j] = F[3 + j, i] = base[i, 3 + j] + d_ * base[i, j]
                    F[3 + i, 3 + j] = base[3 + i, 3 + j] + 2 * d_ * base[i, 3 + j] + d_ * d_ * base[i, j]
        Fl = [[F[i, j] for j in range(6)] for i in range(6)]
        Ffun = lambda ix, iy: Fl
        Fn = None
        if cfg.get('table'):
            # a laminate that differs from point to point AND from the panel's own (tapered / steered laminate)
            Fn = np.zeros((nx, ny, 6, 6), dtype=object)
            tabs = {}
            for ix in range(nx):
                for iy in range(ny):
                    for i in range(6):
                        for j in range(i, 6):
                            Fn[ix, iy, i, j] = Fn[ix, iy, j, i] = ctx.V('T%d_%d_%d%d' % (ix, iy, i, j))
                    for (i, j) in ((0, 1), (0, 2), (1, 2)):      # a laminate: the B block is itself symmetric
                        Fn[ix, iy, j, 3 + i] = Fn[ix, iy, 3 + i, j] = Fn[ix, iy, i, 3 + j]
                    tabs[(ix, iy)] = [[Fn[ix, iy, i, j] for j in range(6)] for i in range(6)]
            Ffun = lambda ix, iy: tabs[(ix, iy)]
        if variant == 'fint':
            f = p.calc_fint(c, Fnxny=Fn, silent=True, **kw)
            G = PW.fint_state(ctx.atoms, S, ops, Ffun, c, ctx.rule(nx), ctx.rule(ny), NL=1)
            if len(f) != size:
                obs.append(('fint-length', Sym.lift(len(f)), Sym.lift(size)))
            for k in range(size):
                obs.append(('fint[%d]' % k, f[k], G.get(k, 0)))
        elif variant == 'kT':
            kT = p.calc_kT(c=c, Fnxny=Fn, silent=True, **kw).todict()
            HL = PW.kL_state(ctx.atoms, S, ops, Ffun, c, ctx.rule(nx), ctx.rule(ny), NL=1)
            HG = PW.kG_state(ctx.atoms, S, ops, Ffun, c, ctx.rule(nx), ctx.rule(ny), NL=1)
            for k, v in HG.items():
                HL[k] = HL[k] + v if k in HL else v
            H = symmetric_completion(HL)
            for k in sorted(set(H) | set(kT)):
                obs.append(('kT[%d,%d]' % k, kT.get(k, 0), H.get(k, 0)))
        elif variant == 'kT0':
            # tangent at the undeformed state is the linear stiffness matrix (analytic kernel) -- needs quadrature
            # exactness, so here only: kT(0) has no contribution from kG and equals kL(0)
            c0 = state(ctx, size, 'zero')
            kT = p.calc_kT(c=c0, nx=nx, ny=ny, silent=True).todict()
            kL = p.calc_k0(c=c0, nx=nx, ny=ny, NLgeom=True, silent=True).todict()
            for k in sorted(set(kL) | set(kT)):
                obs.append(('kT0[%d,%d]' % k, kT.get(k, 0), kL.get(k, 0)))
            f0 = p.calc_fint(c0, nx=nx, ny=ny, silent=True)
            for k in range(size):
                obs.append(('fint0[%d]' % k, f0[k], 0))
        elif variant == 'stencil':
            d = state(ctx, size, cfg.get('dstate', 'generic'), name='d')
            kT = p.calc_kT(c=c, nx=nx, ny=ny, silent=True)
            fs = {}
            for t in (-2, -1, 1, 2):
                ct = np.array([c[k] + t * d[k] for k in range(size)], dtype=object)
                fs[t] = p.calc_fint(ct, nx=nx, ny=ny, silent=True)
            lhs = kT.dot(d)
            for k in range(size):
                obs.append(('stencil[%d]' % k, 12 * lhs[k], -fs[2][k] + 8 * fs[1][k] - 8 * fs[-1][k] + fs[-2][k]))
            kd = kT.todict()
            for (r, cc), v in kd.items():
                if r < cc:
                    obs.append(('kT-symmetric[%d,%d]' % (r, cc), v, kd.get((cc, r), 0)))
        else:
            raise ValueError(variant)
    assumptions = positivity(ctx, p, model) if values is None else []
    info = {'atoms': len(ctx.atoms.table), 'stats': {k: v.stats.as_dict() for k, v in ctx.kernels.mods.items()},
            'values': {k: str(v) for k, v in ctx.used_values.items()}}
    return obs, assumptions, info


def real_exception(cfg):
    """the same call on the compiled build with floats: does it raise?"""
    from compmech.panel import Panel
    model = {'plate': 'plate_clt_donnell_bardell', 'cpanel': 'cpanel_clt_donnell_bardell'}[cfg['model']]
    p = Panel(a=2., b=1., stack=[0, 45], plyt=1e-3, laminaprop=(142.5e9, 8.7e9, 0.28, 5.1e9, 5.1e9, 5.1e9), m=cfg['m'] + 2, n=cfg['n'] + 2)
    p.model = model
    if cfg['model'] == 'cpanel':
        p.r = 3.
    nx, ny = cfg['nx'], cfg['ny']
    try:
        p.calc_k0(silent=True)
        c = np.linspace(1e-4, 2e-4, p.get_size())
        Fn = None
        if cfg.get('table'):
            Fn = np.zeros((nx, ny, 6, 6))
            for ix in range(nx):
                for iy in range(ny):
                    Fn[ix, iy] = p.F * (1 + 0.1 * ix + 0.05 * iy)
        if cfg['variant'] == 'fint':
            p.calc_fint(c, nx=nx, ny=ny, Fnxny=Fn, silent=True)
        else:
            p.calc_kT(c=c, nx=nx, ny=ny, Fnxny=Fn, silent=True)
    except Exception as e:
        return '%s: %s' % (type(e).__name__, e)
    return None


def configs(tier, seed):
    out = []
    quick = tier == 'quick'
    for model in NUM:
        for st in ('generic', 'membrane', 'bending'):
            out.append({'model': model, 'm': 2, 'n': 2, 'nx': 1, 'ny': 1, 'variant': 'fint', 'state': st, 'group': 'fint-gradient:%s' % model})
            out.append({'model': model, 'm': 2, 'n': 2, 'nx': 1, 'ny': 1, 'variant': 'kT', 'state': st, 'group': 'kT-jacobian:%s' % model, 'timeout_ms': 120000})
        out.append({'model': model, 'm': 2, 'n': 1, 'nx': 2, 'ny': 2, 'variant': 'fint', 'group': 'fint-gradient-2x2:%s' % model})
        out.append({'model': model, 'm': 1, 'n': 2, 'nx': 2, 'ny': 2, 'variant': 'kT', 'group': 'kT-jacobian-2x2:%s' % model, 'timeout_ms': 120000})
        out.append({'model': model, 'm': 2, 'n': 1, 'nx': 2, 'ny': 1, 'variant': 'kT', 'table': True, 'group': 'kT-per-point-table:%s' % model, 'timeout_ms': 120000})
        out.append({'model': model, 'm': 1, 'n': 2, 'nx': 1, 'ny': 2, 'variant': 'kT', 'group': 'kT-jacobian-1x2:%s' % model, 'timeout_ms': 120000})
        # a per-point table on a SQUARE grid of integration points: the two point axes have the same length, only their order tells them apart
        out.append({'model': model, 'm': 1, 'n': 1, 'nx': 2, 'ny': 2, 'variant': 'kT', 'table': True, 'group': 'kT-per-point-table-square-grid:%s' % model, 'timeout_ms': 120000})
        out.append({'model': model, 'm': 2, 'n': 1, 'nx': 1, 'ny': 1, 'variant': 'kT', 'laminate_offset': True, 'group': 'kT-jacobian-offset-laminate:%s' % model, 'timeout_ms': 120000})
        out.append({'model': model, 'm': 1, 'n': 2, 'nx': 1, 'ny': 1, 'variant': 'fint', 'laminate_offset': True, 'group': 'fint-gradient-offset-laminate:%s' % model})
        out.append({'model': model, 'm': 2, 'n': 1, 'nx': 2, 'ny': 1, 'variant': 'fint', 'group': 'fint-gradient-2x1:%s' % model})
        out.append({'model': model, 'm': 1, 'n': 2, 'nx': 1, 'ny': 2, 'variant': 'fint', 'by_attributes': True, 'group': 'fint-gradient-1x2-by-attributes:%s' % model})
        out.append({'model': model, 'm': 2, 'n': 1, 'nx': 2, 'ny': 1, 'variant': 'kT', 'by_attributes': True, 'group': 'kT-jacobian-2x1-by-attributes:%s' % model, 'timeout_ms': 120000})
        out.append({'model': model, 'm': 1, 'n': 2, 'nx': 1, 'ny': 2, 'variant': 'fint', 'table': True, 'group': 'fint-per-point-table:%s' % model})
        out.append({'model': model, 'm': 2, 'n': 2, 'nx': 2, 'ny': 2, 'variant': 'kT0', 'group': 'undeformed:%s' % model})
        out.append({'model': model, 'm': 4, 'n': 1, 'nx': 1, 'ny': 1, 'variant': 'fint', 'group': 'fint-gradient-order-4-5:%s' % model})
        out.append({'model': model, 'm': 1, 'n': 5, 'nx': 1, 'ny': 1, 'variant': 'kT', 'group': 'kT-jacobian-order-4-5:%s' % model, 'timeout_ms': 180000})
        out.append({'model': model, 'm': 2, 'n': 1, 'nx': 1, 'ny': 1, 'variant': 'stencil', 'group': 'stencil:%s' % model, 'timeout_ms': 180000})
        out.append({'model': model, 'm': 2, 'n': 2, 'nx': 1, 'ny': 1, 'variant': 'stencil', 'state': 'membrane', 'group': 'stencil-membrane-state:%s' % model, 'timeout_ms': 180000})
        if not quick:
            out.append({'model': model, 'm': 3, 'n': 3, 'nx': 1, 'ny': 1, 'variant': 'fint', 'group': 'fint-gradient:%s' % model, 'timeout_ms': 300000})
            out.append({'model': model, 'm': 3, 'n': 2, 'nx': 1, 'ny': 1, 'variant': 'kT', 'group': 'kT-jacobian:%s' % model, 'timeout_ms': 300000})
            out.append({'model': model, 'm': 2, 'n': 2, 'nx': 3, 'ny': 3, 'variant': 'fint', 'group': 'fint-gradient-3x3:%s' % model, 'timeout_ms': 300000})
            out.append({'model': model, 'm': 2, 'n': 2, 'nx': 2, 'ny': 2, 'variant': 'stencil', 'group': 'stencil-2x2:%s' % model, 'timeout_ms': 600000})
            out.append({'model': model, 'm': 3, 'n': 3, 'nx': 2, 'ny': 2, 'variant': 'stencil', 'group': 'stencil-2x2:%s' % model, 'timeout_ms': 900000})
            out.append({'model': model, 'm': 4, 'n': 4, 'nx': 1, 'ny': 1, 'variant': 'fint', 'group': 'fint-gradient:%s' % model, 'timeout_ms': 600000})
            out.append({'model': model, 'm': 4, 'n': 3, 'nx': 2, 'ny': 2, 'variant': 'kT', 'group': 'kT-jacobian-2x2:%s' % model, 'timeout_ms': 900000})
            out.append({'model': model, 'm': 6, 'n': 1, 'nx': 3, 'ny': 1, 'variant': 'fint', 'state': 'bending', 'group': 'fint-gradient-3x1:%s' % model, 'timeout_ms': 600000})
    for model in ('plate', 'cpanel'):
        out.append({'variant': 'kT0-analytic', 'model': model, 'm': 2, 'n': 1, 'nx': 8, 'ny': 8, 'nq': 8, 'group': 'kT(0)=analytical-k0:%s' % model})
        out.append({'variant': 'kT0-analytic', 'model': model, 'm': 1, 'n': 2, 'nx': 8, 'ny': 8, 'nq': 8, 'ortho': True, 'group': 'kT(0)=analytical-k0:%s:force_orthotropic_laminate' % model})
    # assemblies of non-linear panels joined by penalty connections
    out.append({'variant': 'assembly', 'panels': [('plate', 2, 1), ('plate', 1, 2)], 'model': 'assembly', 'm': 2, 'n': 1, 'nx': 1, 'ny': 1,
                'group': 'assembly-tangent=jacobian', 'timeout_ms': 300000})
    out.append({'variant': 'assembly', 'panels': [('cpanel', 1, 2), ('plate', 1, 1), ('plate', 2, 1)], 'model': 'assembly', 'm': 1, 'n': 2, 'nx': 1, 'ny': 1,
                'group': 'assembly-tangent=jacobian', 'timeout_ms': 300000})
    out.append({'variant': 'assembly', 'panels': [('plate', 2, 1), ('plate', 1, 2)], 'membrane_panel': 1, 'model': 'assembly', 'm': 2, 'n': 1, 'nx': 1, 'ny': 1,
                'group': 'assembly-tangent=jacobian:one-panel-in-a-membrane-state', 'timeout_ms': 300000})
    out[0]['canary'] = True
    out[1]['canary'] = True
    out[-3]['canary'] = True
    return out


def main():
    run = Run('C08', 'other', explanation=(
        'Bounded symbolic verification of the non-linear panel kernels through the real Panel API: calc_fint is proved equal '
        'to the gradient, and calc_kT = calc_k0(c,NLgeom)+calc_kG0(c,NLgeom) to the Hessian, of the von-Karman strain energy '
        'evaluated at symbolic quadrature points/weights (hence for every rule) for ALL amplitudes (generic, membrane-only and '
        'bending-only states), B-coupled laminates, flags and geometry; additionally an oracle-free exact five-point-stencil '
        'identity ties kT to fint.  z3 qfnra-nlsat decides each polynomial identity; sat -> exact-rational replay.'))
    for model, rel in NUM.items():
        for fn in ('calc_fint', 'fkL_num', 'fkG_num'):
            run.encoded(rel, fn)
    run.encoded('compmech/panel/_panel.py', 'Panel.calc_fint, Panel.calc_kT, Panel.calc_k0, Panel.calc_kG0')
    run.encoded('compmech/panel/assembly/assembly.py', 'PanelAssembly.calc_kT, calc_fint, calc_k0, get_k0_conn')
    cf = configs(run.tier, run.seed)
    run.bounds = {'series_orders_(m,n)': sorted({(c['m'], c['n']) for c in cf}), 'quadrature_points': sorted({(c['nx'], c['ny']) for c in cf}),
                  'states': ['generic', 'membrane (w=0)', 'bending (u=v=0)', 'zero'], 'configurations': len(cf)}
    run.assume('a, b, r > 0', 'function tables = Bardell polynomials (C10)', 'ABD block-symmetric',
               'Gauss order integrating the quartic exactly is a C10 table fact; identities here hold per point and weight')
    run.stubs = ['leggauss_quad -> symbolic points/weights', 'laminate.read_stack -> symbolic ABD']
    run.outside = ['orders above the bound', 'assemblies of more than three panels', 'floating point']
    res = pmap(kprop.job, [(__name__, c) for c in cf])
    res = kprop.explore_loci(__name__, res, run)      # second pass: the equality loci the executed code branched on
    kprop.handle(run, res, build, 'entries violate the gradient/Jacobian identity')
    return run.finish()


def replay(path):
    d = json.load(open(path))
    cfg = d['replay']['cfg']
    bad, info = kprop.concrete_replay(build, cfg, d['replay'].get('inputs', {}))
    print('replay %s: %d differing entries' % (cfg, len(bad)))
    for b in bad[:10]:
        print('  %s impl=%r oracle=%r' % b)
    return 1 if bad else 0
