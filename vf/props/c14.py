"""C14 -- Equivalent descriptions of one structure give identical matrices (translation-validation style relational checks).

Two executions of the real Panel API over de-Cythonised kernels, one identity per matrix entry:
 (a) conical panel at zero semi-vertex angle == cylindrical panel        (k0, kG0, kM; sub-interval additivity lemma of C10)
 (b) cylindrical panel with curvature 1/r -> 0 == flat plate             (k0, kG0, kM, kAx, kAy, cA)
 (c) w-only plate model == out-of-plane block of the full plate model   (k0, kG0, kM, kAx, kAy, cA)
 (d) numerically integrated k0 at the undeformed state == analytic k0   (exact interpolatory rule with rational nodes;
     also with force_orthotropic_laminate)
 (e) exchanging the roles of x and y (laminate indices 1<->2, u<->v, Nxx<->Nyy) permutes the entries
 (f) similarity: lengths*s, moduli*e, density*q scale k0 by e*s, leave kG0, scale kM by q*s^3
Eigenvalue statements follow by congruence / scaling of the pencil (recorded argument, not solved)."""
import json
import numpy as np
import z3
from fractions import Fraction
from ..harness import Run, pmap
from .. import kprop
from ..sym import Sym, CSym
from ..panelsym import PanelCtx, positivity, sym_ABD
from ..poly import Poly


def mats(p, which, flow='x'):
    """dict of entries of the requested matrix of panel p (finalized)"""
    if which == 'k0':
        return p.calc_k0(silent=True).todict()
    if which == 'kG0':
        return p.calc_kG0(silent=True).todict()
    if which == 'kM':
        return p.calc_kM(silent=True).todict()
    if which in ('kAx', 'kAy'):
        p.flow = which[-1]
        return p.calc_kA(silent=True).todict()
    if which == 'cA':
        p.size = p.get_size()
        p.calc_cA(p._aeromu, silent=True)
        d = p.cA.todict()
        return {k: (v.im if isinstance(v, CSym) else v) for k, v in d.items()}
    raise ValueError(which)


def exact_rule(n):
    """interpolatory quadrature rule on [-1,1] with rational nodes, exact for degree <= n-1"""
    nodes = [Fraction(2 * k + 1, n) - 1 for k in range(n)]
    # weights: solve sum_k w_k x_k^j = int x^j
    A = [[x ** j for x in nodes] for j in range(n)]
    b = [Fraction(2, j + 1) if j % 2 == 0 else Fraction(0) for j in range(n)]
    # gaussian elimination over Q
    M = [row[:] + [bb] for row, bb in zip(A, b)]
    for c in range(n):
        piv = next(r for r in range(c, n) if M[r][c] != 0)
        M[c], M[piv] = M[piv], M[c]
        pv = M[c][c]
        M[c] = [x / pv for x in M[c]]
        for r in range(n):
            if r != c and M[r][c] != 0:
                f = M[r][c]
                M[r] = [x - f * y for x, y in zip(M[r], M[c])]
    return [(nodes[k], M[k][n]) for k in range(n)]


def build(cfg, values=None):
    rel, m, n, which = cfg['rel'], cfg['m'], cfg['n'], cfg['which']
    atom_mode = 'exact' if rel in ('d',) else 'atom'
    ctx = PanelCtx(atom_mode=atom_mode, values=values, seed=cfg.get('seed', 0))
    obs = []
    assumptions = []
    with ctx.shadow():
        def common(p):
            p._rebuild()
            p.Nxx, p.Nyy, p.Nxy = N
            p.offset = dd
            p.beta = beta
            p.gamma = None
            p._aeromu = aeromu
            return p
        N = (ctx.V('Nxx'), ctx.V('Nyy'), ctx.V('Nxy'))
        dd = ctx.V('d')
        beta, aeromu = ctx.V('beta'), ctx.V('aeromu')
        if rel == 'a':
            s = cfg.get('s', 2)
            ctx.sina, ctx.cosa = Sym.lift(0), Sym.lift(1)
            p1 = common(ctx.new_panel('kpanel', m, n))
            ctx.override_sections(s)
            K1 = mats(p1, which)
            p2 = common(ctx.new_panel('cpanel', m, n))
            for nm in list(p1.__dict__):
                if len(nm) == 4 and nm[0] in 'uvw' and nm[3] in 'xy':
                    setattr(p2, nm, getattr(p1, nm))
            K2 = mats(p2, which)
            for k in sorted(set(K1) | set(K2)):
                obs.append(('%s-cone0-vs-cyl[%d,%d]' % (which, k[0], k[1]), K1.get(k, 0), K2.get(k, 0)))
            if values is None:
                assumptions += ctx.atoms.additivity_constraints()
        elif rel == 'b':
            rho = ctx.V('curvature')
            p1 = ctx.new_panel('cpanel', m, n)
            p1.r = Sym.lift(1) / rho if values is None else Sym.lift(10 ** 9)
            common(p1)
            K1 = mats(p1, which)
            p2 = common(ctx.new_panel('plate', m, n))
            K2 = mats(p2, which)
            for k in sorted(set(K1) | set(K2)):
                obs.append(('%s-flat-limit[%d,%d]' % (which, k[0], k[1]), K1.get(k, 0), K2.get(k, 0)))
            if values is None:
                assumptions.append(rho.n == 0)
        elif rel == 'c':
            p1 = common(ctx.new_panel('plate_w', m, n))
            K1 = mats(p1, which)
            p2 = common(ctx.new_panel('plate', m, n))
            K2 = mats(p2, which)
            for (r, c), v in sorted(K2.items()):
                if r % 3 == 2 and c % 3 == 2:
                    obs.append(('%s-w-block[%d,%d]' % (which, r // 3, c // 3), K1.get((r // 3, c // 3), 0), v))
            for (r, c), v in sorted(K1.items()):
                if (3 * r + 2, 3 * c + 2) not in K2:
                    obs.append(('%s-w-block-extra[%d,%d]' % (which, r, c), v, 0))
        elif rel == 'd':
            model = cfg['model']
            nq = cfg['nq']
            rule = exact_rule(nq)
            ctx.gauss[nq] = [(Sym(x), Sym(w)) for x, w in rule]
            p1 = common(ctx.new_panel(model, m, n))
            p1.Nxx_cte = p1.Nyy_cte = p1.Nxy_cte = None
            if cfg.get('ortho'):
                p1.force_orthotropic_laminate = True
            Ka = p1.calc_k0(silent=True).todict()
            c0 = np.zeros(3 * m * n, dtype=object)
            Kn = p1.calc_k0(c=c0, nx=nq, ny=nq, NLgeom=False, silent=True).todict()
            for k in sorted(set(Ka) | set(Kn)):
                obs.append(('k0-numeric-vs-analytic[%d,%d]' % k, Kn.get(k, 0), Ka.get(k, 0)))
            if cfg.get('kT'):
                # the tangent at the undeformed state is the (analytical) linear stiffness matrix  (C08 clause; exact Gauss rule)
                KT = p1.calc_kT(c=c0, nx=nq, ny=nq, silent=True).todict()
                for k in sorted(set(Ka) | set(KT)):
                    obs.append(('kT-at-undeformed-state-vs-analytic-k0[%d,%d]' % k, KT.get(k, 0), Ka.get(k, 0)))
            if cfg.get('kG'):
                # state-based kG at a state of uniform membrane stress == constant-load kG0: with c=0 both vanish; here the
                # linear membrane state u = ex*x is not in the restrained basis in general, so only the zero state is compared
                KG = p1.calc_kG0(c=c0, nx=nq, ny=nq, silent=True).todict()
                for k, v in sorted(KG.items()):
                    obs.append(('kG-numeric-zero-state[%d,%d]' % k, v, 0))
        elif rel == 'i':
            # hierarchical (nested) trial spaces: the matrices of orders (m, n) are the principal sub-matrices of those of orders
            # (m+1, n) and (m, n+1) under the dof numbering  num*(j*m + i) + component  -- the mechanism behind the monotone
            # convergence of the Ritz eigenvalues (C15, which itself is not decided)
            model = cfg['model']
            num = 3
            pa = common(ctx.new_panel(model, m, n))
            if model == 'kpanel':
                ctx.override_sections(1)
            for (dm, dn) in ((1, 0), (0, 1)):
                pb = common(ctx.new_panel(model, m + dm, n + dn))
                for nm in list(pa.__dict__):
                    if len(nm) == 4 and nm[0] in 'uvw' and nm[3] in 'xy':
                        setattr(pb, nm, getattr(pa, nm))
                A, B = mats(pa, which), mats(pb, which)

                def up(idx):
                    comp, ij = idx % num, idx // num
                    j, i = divmod(ij, m)
                    return num * (j * (m + dm) + i) + comp
                for (r, c_), v in sorted(A.items()):
                    obs.append(('%s-nested-in-(%+d,%+d)[%d,%d]' % (which, dm, dn, r, c_), B.get((up(r), up(c_)), 0), v))
                small = {(up(r), up(c_)) for (r, c_) in A}
                size_a = num * m * n
                for (r, c_), v in sorted(B.items()):
                    # entries of the larger matrix between old amplitudes that the smaller one does not have must vanish
                    if (r, c_) not in small:
                        inv = {up(k): k for k in range(size_a)}
                        if r in inv and c_ in inv:
                            obs.append(('%s-nested-extra-entry-(%+d,%+d)[%d,%d]' % (which, dm, dn, r, c_), v, 0))
        elif rel == 'h':
            # explicit placement (size, row0, col0) describes the same matrix as the default placement, shifted -- with a constant
            # pre-load in k0
            from compmech.sparse import finalize_symmetric_matrix
            model = cfg['model']
            off = cfg.get('off', 2)
            p1 = common(ctx.new_panel(model, m, n))
            if model == 'kpanel':
                ctx.override_sections(1)
            p1.Nxx_cte, p1.Nyy_cte, p1.Nxy_cte = ctx.V('Nxx_cte'), ctx.V('Nyy_cte'), ctx.V('Nxy_cte')
            size0 = 3 * m * n
            for nm in ('k0', 'kG0', 'kM'):
                fn = getattr(p1, 'calc_' + nm)
                A = fn(silent=True).todict()
                B = finalize_symmetric_matrix(fn(size=size0 + off + 1, row0=off, col0=off, silent=True, finalize=False)).todict()
                for k in sorted(set(A) | {(r - off, c - off) for (r, c) in B}):
                    obs.append(('%s-placed-vs-default[%d,%d]' % (nm, k[0], k[1]), B.get((k[0] + off, k[1] + off), 0), A.get(k, 0)))
        elif rel == 'g':
            # the numbers of integration points given as ARGUMENTS describe the same computation as the same numbers stored in
            # the panel attributes nx, ny (state-based k0, kG0, internal force at a symbolic state)
            model = cfg['model']
            ax, ay = cfg['nxy']
            p1 = common(ctx.new_panel(model, m, n))
            p1.Nxx_cte = p1.Nyy_cte = p1.Nxy_cte = None
            size = 3 * m * n
            c = np.array([ctx.V('c%d' % k) for k in range(size)], dtype=object)
            p1.calc_k0(silent=True)
            p1.nx, p1.ny = ay + 1, ax + 2
            A = {'k0': p1.calc_k0(c=c, nx=ax, ny=ay, NLgeom=True, silent=True).todict(),
                 'kG0': p1.calc_kG0(c=c, nx=ax, ny=ay, NLgeom=True, silent=True).todict(),
                 'kT': p1.calc_kT(c=c, nx=ax, ny=ay, silent=True).todict()}
            fA = p1.calc_fint(c, nx=ax, ny=ay, silent=True)
            p1.nx, p1.ny = ax, ay
            B = {'k0': p1.calc_k0(c=c, NLgeom=True, silent=True).todict(),
                 'kG0': p1.calc_kG0(c=c, NLgeom=True, silent=True).todict(),
                 'kT': p1.calc_kT(c=c, silent=True).todict()}
            fB = p1.calc_fint(c, silent=True)
            for nm in ('k0', 'kG0', 'kT'):
                for k in sorted(set(A[nm]) | set(B[nm])):
                    obs.append(('%s-arguments-vs-attributes[%d,%d]' % (nm, k[0], k[1]), A[nm].get(k, 0), B[nm].get(k, 0)))
            for k in range(size):
                obs.append(('fint-arguments-vs-attributes[%d]' % k, fA[k], fB[k]))
        elif rel == 'e':
            model = 'plate'
            p1 = common(ctx.new_panel(model, m, n))
            K1 = mats(p1, which)
            p2 = ctx.new_panel(model, n, m)
            p2.a, p2.b = p1.b, p1.a
            F1 = p1._verif_lam.ABD
            perm = [1, 0, 2, 4, 3, 5]
            F2 = np.zeros((6, 6), dtype=object)
            for i in range(6):
                for j in range(6):
                    F2[i, j] = F1[perm[i], perm[j]]
            p2._verif_lam.ABD = F2
            p2.plyts = p1.plyts
            p2._verif_lam.t = p1._verif_lam.t
            p2.mu = p1.mu
            sw = {'u': 'v', 'v': 'u', 'w': 'w'}
            for c_ in 'uvw':
                for e in ('1t', '1r', '2t', '2r'):
                    setattr(p2, sw[c_] + e + 'x', getattr(p1, c_ + e + 'y'))
                    setattr(p2, sw[c_] + e + 'y', getattr(p1, c_ + e + 'x'))
            p2._rebuild()
            p2.Nxx, p2.Nyy, p2.Nxy = N[1], N[0], N[2]
            p2.offset = dd
            K2 = mats(p2, which)
            cs = {0: 1, 1: 0, 2: 2}

            def swap(idx):
                comp = idx % 3
                j, i = divmod(idx // 3, m)
                return 3 * (i * n + j) + cs[comp]
            for (r, c), v in sorted(K1.items()):
                obs.append(('%s-axis-exchange[%d,%d]' % (which, r, c), v, K2.get((swap(r), swap(c)), 0)))
            if len(K1) != len(K2):
                obs.append(('%s-axis-exchange-count' % which, Sym.lift(len(K1)), Sym.lift(len(K2))))
        elif rel == 'j':
            # axis exchange for a joint between two panels: the penalty constants of a joint along x = const equal those of the
            # joint along y = const between the same two laminates turned by 90 degrees (and likewise for the two 90-degree joints)
            from compmech.panel.connections import calc_kt_kr
            perm = [1, 0, 2, 4, 3, 5]

            def mk(prefix, like=None):
                p_ = ctx.new_panel('plate', 1, 1, prefix=prefix)
                lam = p_._verif_lam
                if like is not None:
                    F1 = like._verif_lam.ABD
                    F2 = np.zeros((6, 6), dtype=object)
                    for i in range(6):
                        for j in range(6):
                            F2[i, j] = F1[perm[i], perm[j]]
                    lam.ABD = F2
                    p_.plyts = like.plyts
                    lam.t = lam.h = like._verif_lam.t
                    p_.a, p_.b = like.b, like.a
                lam.A, lam.D = lam.ABD[0:3, 0:3], lam.ABD[3:6, 3:6]
                p_.lam = lam
                p_._rebuild()
                return p_
            p1, p2 = mk('p1_'), mk('p2_')
            q1, q2 = mk('q1_', p1), mk('q2_', p2)
            for k1, k2 in (('xcte', 'ycte'), ('ycte', 'xcte'), ('xcte-ycte', 'ycte-xcte'), ('ycte-xcte', 'xcte-ycte')):
                a_, b_ = calc_kt_kr(p1, p2, k1), calc_kt_kr(q1, q2, k2)
                obs.append(('joint-axis-exchange[%s,kt]' % k1, a_[0], b_[0]))
                obs.append(('joint-axis-exchange[%s,kr]' % k1, a_[1], b_[1]))
        elif rel == 'f':
            model = cfg['model']
            sc, e, q = ctx.V('s_len'), ctx.V('e_mod'), ctx.V('q_rho')
            p1 = common(ctx.new_panel(model, m, n))
            K1 = mats(p1, which)
            p2 = ctx.new_panel(model, m, n)
            p2.a, p2.b = p1.a * sc, p1.b * sc
            if p1.r is not None and isinstance(p1.r, Sym):
                p2.r = p1.r * sc
            F1 = p1._verif_lam.ABD
            F2 = np.zeros((6, 6), dtype=object)
            for i in range(6):
                for j in range(6):
                    pw = 1 + (i >= 3) + (j >= 3)
                    F2[i, j] = F1[i, j] * e * sc ** pw
            p2._verif_lam.ABD = F2
            p2.plyts = [t * sc for t in p1.plyts]
            p2._verif_lam.t = sum(p2.plyts)
            p2.mu = p1.mu * q
            for nm in list(p1.__dict__):
                if len(nm) == 4 and nm[0] in 'uvw' and nm[3] in 'xy':
                    setattr(p2, nm, getattr(p1, nm))
            p2._rebuild()
            p2.Nxx, p2.Nyy, p2.Nxy = N
            p2.offset = dd * sc
            K2 = mats(p2, which)
            fac = {'k0': e * sc, 'kG0': Sym.lift(1), 'kM': q * sc * sc * sc}[which]
            for k in sorted(set(K1) | set(K2)):
                obs.append(('%s-similarity[%d,%d]' % (which, k[0], k[1]), K2.get(k, 0), fac * K1.get(k, 0)))
            if values is None:
                assumptions.append(sc.n > 0)
        else:
            raise ValueError(rel)
    if values is None:
        for nm in ('a', 'b', 'r'):
            assumptions.append(z3.Real(nm) > 0)
    info = {'atoms': len(ctx.atoms.table), 'stats': {k: v.stats.as_dict() for k, v in ctx.kernels.mods.items()},
            'values': {k: str(v) for k, v in ctx.used_values.items()}}
    return obs, assumptions, info


def configs(tier, seed):
    out = []
    quick = tier == 'quick'
    mn = (2, 2)
    for which in ('k0', 'kG0', 'kM'):
        out.append({'rel': 'a', 'm': 2, 'n': 2 if which != 'k0' else 1, 'which': which, 's': 2, 'group': '(a) cone(0)=cylinder:%s' % which})
        if which == 'k0':
            # two terms along y: the terms with one y-derivative on either function (int g_A' g_B against int g_A g_B') differ only then
            out.append({'rel': 'a', 'm': 1, 'n': 2, 'which': which, 's': 1, 'group': '(a) cone(0)=cylinder:%s' % which, 'timeout_ms': 180000})
        if not quick:
            out.append({'rel': 'a', 'm': 2, 'n': 2, 'which': which, 's': 3, 'group': '(a) cone(0)=cylinder:%s' % which})
    for which in ('k0', 'kG0', 'kM', 'kAx', 'kAy', 'cA'):
        out.append({'rel': 'b', 'm': mn[0], 'n': mn[1], 'which': which, 'group': '(b) cylinder(1/r=0)=plate:%s' % which})
        out.append({'rel': 'c', 'm': 3, 'n': 2, 'which': which, 'group': '(c) w-only=block:%s' % which})
        out.append({'rel': 'c', 'm': 1, 'n': 5, 'which': which, 'group': '(c) w-only=block:%s' % which})
        out.append({'rel': 'b', 'm': 4, 'n': 1, 'which': which, 'group': '(b) cylinder(1/r=0)=plate:%s' % which})
        if not quick:
            out.append({'rel': 'b', 'm': 3, 'n': 3, 'which': which, 'group': '(b) cylinder(1/r=0)=plate:%s' % which})
            out.append({'rel': 'c', 'm': 4, 'n': 4, 'which': which, 'group': '(c) w-only=block:%s' % which})
            out.append({'rel': 'c', 'm': 7, 'n': 5, 'which': which, 'group': '(c) w-only=block:%s' % which})
            out.append({'rel': 'b', 'm': 5, 'n': 4, 'which': which, 'group': '(b) cylinder(1/r=0)=plate:%s' % which})
    for model in ('plate', 'cpanel'):
        out.append({'rel': 'd', 'm': 2, 'n': 2, 'which': 'k0', 'model': model, 'nq': 8, 'group': '(d) numeric=analytic:%s' % model, 'kG': True})
        for which in ('k0', 'kG0', 'kM'):
            out.append({'rel': 'i', 'm': 2, 'n': 2, 'which': which, 'model': model, 'group': '(i) nested trial spaces:%s:%s' % (which, model)})
        out.append({'rel': 'h', 'm': 2, 'n': 1, 'which': 'k0', 'model': model, 'off': 2, 'group': '(h) explicit placement = default placement:%s' % model})
        out.append({'rel': 'g', 'm': 1, 'n': 2, 'which': 'k0', 'model': model, 'nxy': (1, 2), 'group': '(g) integration points as arguments = as attributes:%s' % model})
        out.append({'rel': 'd', 'm': 2, 'n': 1, 'which': 'k0', 'model': model, 'nq': 8, 'ortho': True, 'group': '(d) numeric=analytic force_orthotropic:%s' % model})
        if not quick:
            out.append({'rel': 'd', 'm': 3, 'n': 3, 'which': 'k0', 'model': model, 'nq': 8, 'group': '(d) numeric=analytic:%s' % model, 'timeout_ms': 300000})
    for which in ('k0', 'kG0', 'kM'):
        out.append({'rel': 'e', 'm': 2, 'n': 3 if not quick else 2, 'which': which, 'group': '(e) axis exchange:%s' % which})
        if quick:
            out.append({'rel': 'e', 'm': 1, 'n': 2, 'which': which, 'group': '(e) axis exchange:%s' % which})
        for model in ('plate', 'cpanel'):
            out.append({'rel': 'f', 'm': 2, 'n': 2, 'which': which, 'model': model, 'group': '(f) similarity:%s:%s' % (which, model)})
    out.append({'rel': 'j', 'm': 1, 'n': 1, 'which': 'ktkr', 'group': '(j) axis exchange of a joint: penalty constants'})
    out[0]['canary'] = True
    out[-1]['canary'] = True
    out[len(out) // 2]['canary'] = True
    return out


def main():
    run = Run('C14', 'translation_validation', explanation=(
        'Relational (translation-validation style) checks: two descriptions of one structure are executed through the real Panel '
        'API over the de-Cythonised kernels with shared symbolic inputs; one polynomial identity per matrix entry is decided by z3 '
        '(qfnra-nlsat).  programs = kernel/description pairs compared; disagreements are replayed exactly.'))
    for rel in ('compmech/panel/models/kpanel_clt_donnell_bardell.pyx', 'compmech/panel/models/cpanel_clt_donnell_bardell.pyx',
                'compmech/panel/models/plate_clt_donnell_bardell.pyx', 'compmech/panel/models/plate_clt_donnell_bardell_w.pyx',
                'compmech/panel/models/plate_clt_donnell_bardell_num.pyx', 'compmech/panel/models/cpanel_clt_donnell_bardell_num.pyx'):
        run.encoded(rel, '*')
    run.encoded('compmech/panel/_panel.py', 'Panel.calc_k0, calc_kG0, calc_kM, calc_kA, calc_cA, _get_lam_F')
    run.encoded('compmech/panel/connections/penalty_constants.py', 'calc_kt_kr (relation j)')
    cf = configs(run.tier, run.seed)
    run.bounds = {'series_orders_(m,n)': sorted({(c['m'], c['n']) for c in cf}), 'pairs': sorted({c['group'].split(':')[0] for c in cf}), 'configurations': len(cf),
                  '(d) quadrature': 'interpolatory rule with 8 rational nodes per direction, exact to degree 7 (the shipped Gauss table is C10)'}
    run.assume('(a) sub-interval integrals additive over the cone sections and equal to the full table on [-1,1] (C10)',
               '(b) radius given as the reciprocal of an atom set to 0', '(d) tables interpreted exactly', 'a, b, r > 0, s > 0',
               'eigenvalue statements (unchanged spectra, scaling of buckling loads/frequencies) follow from the matrix relations by congruence and scaling of the pencil')
    run.outside = ['eigen-solver numerics', 'orders above the bound', 'uniform-membrane-state equals constant-load matrix for non-zero states (needs the state to be representable; integrand-level identity is C03)']
    res = pmap(kprop.job, [(__name__, c) for c in cf])
    res = kprop.explore_loci(__name__, res, run)      # second pass: the equality loci the executed code branched on
    kprop.handle(run, res, build, 'entries differ between the two equivalent descriptions')
    run.extra['programs'] = len({c['group'] for c in cf})
    run.extra['disagreements_checked'] = len(run.violations) + len(run.known_hits)
    return run.finish()


def replay(path):
    d = json.load(open(path))
    cfg = d['replay']['cfg']
    bad, info = kprop.concrete_replay(build, cfg, d['replay'].get('inputs', {}))
    print('replay %s: %d differing entries' % (cfg, len(bad)))
    for b in bad[:10]:
        print('  %s impl=%r oracle=%r' % b)
    return 1 if bad else 0
