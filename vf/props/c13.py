"""C13 -- Assembled matrices are sums of component matrices; the skin partition is irrelevant.

E4: the real StiffPanelBay (add_panel / add_bladestiff1d / add_bladestiff2d / add_tstiff2d, get_size, calc_k0/kG0/kM,
calc_fext, uvw_skin, uvw_stiffener) and PanelAssembly (calc_k0/kG0/kM/kT, calc_fint) with all their bookkeeping, over
de-Cythonised panel, connection and stiffener kernels.  Obligations are relational: the global object equals the sum of
each component's stand-alone result placed at that component's range (ranges computed independently by the harness
from the component sizes in the documented order), sizes add up, a uniformly laminated skin cut at symbolic positions
gives the same matrices (sub-interval additivity lemma of C10), field recovery uses the component's own slice."""
import json
import numpy as np
import z3
from fractions import Fraction
from ..harness import Run, pmap
from .. import kprop
from ..sym import Sym, SymBranch
from ..shadow import LazyNS
from ..panelsym import PanelCtx, series_of, sym_ABD, FakeLam
from ..oracles import pointwise as PW

STIFF = {'bladestiff1d_clt_donnell_bardell': 'compmech/stiffener/models/bladestiff1d_clt_donnell_bardell.pyx',
         'bladestiff2d_clt_donnell_bardell': 'compmech/stiffener/models/bladestiff2d_clt_donnell_bardell.pyx',
         'tstiff2d_clt_donnell_bardell': 'compmech/stiffener/models/tstiff2d_clt_donnell_bardell.pyx'}
CONN = {'SSycte': 'compmech/panel/connections/kCSSycte.pyx', 'SSxcte': 'compmech/panel/connections/kCSSxcte.pyx',
        'BFycte': 'compmech/panel/connections/kCBFycte.pyx', 'BFxcte': 'compmech/panel/connections/kCBFxcte.pyx',
        'SB': 'compmech/panel/connections/kCSB.pyx'}


class BayPolicy:
    """generic symbolic values; ordering only for the penalty cap min(1e7, kt): the computed constant is below the cap"""

    def __init__(self):
        self.log = []

    def __call__(self, kind, lhs, rhs):
        if kind == 'ne':
            return True
        if kind == 'eq':
            return False
        for a, b, k in ((lhs, rhs, kind), (rhs, lhs, {'lt': 'gt', 'gt': 'lt', 'le': 'ge', 'ge': 'le'}[kind])):
            if b.is_numeric() and b.n == 10 ** 7:
                self.log.append('penalty constant below the 1e7 cap')
                return k in ('lt', 'le')
        raise SymBranch('ordering comparison %s on symbolic values' % kind)


def stiff_stubs(ctx):
    import compmech.stiffener.modelDB as sdb
    newdb = {}
    for model, entry in sdb.db.items():
        e = dict(entry)
        ns = LazyNS(ctx.kernels, STIFF[model])
        if 'matrices' in e:
            e['matrices'] = ns
        if 'connections' in e:
            e['connections'] = ns
        newdb[model] = e
    stubs = {'compmech.stiffener.modelDB.db': newdb, 'compmech.stiffener.bladestiff2d.db': newdb}
    for k, rel in CONN.items():
        stubs['compmech.panel.connections.kC' + k] = LazyNS(ctx.kernels, rel)
    bf = LazyNS(ctx.kernels, CONN['BFycte'])
    for nm in ('fkCBFycte11', 'fkCBFycte12', 'fkCBFycte22'):
        stubs[nm] = (lambda nm: (lambda *a, **k: getattr(bf, nm)(*a, **k)))(nm)
    return stubs


def make_bay(ctx, cfg, stacks=None):
    """stacks: {stiffener index: (bstack, fstack)} list objects to re-use (the laminate stub is keyed by the stack object, so a
    twin bay gets the same symbolic laminates)"""
    from compmech.stiffpanelbay import StiffPanelBay
    bay = StiffPanelBay()
    bay.a, bay.b = Sym(Fraction(cfg.get('a', '3/2'))), Sym(Fraction(cfg.get('b', '4/5')))
    bay.m, bay.n = cfg['m'], cfg['n']
    bay.stack = [0, 90]
    bay.plyt = ctx.V('skin_plyt')
    bay.laminaprop = (1., 1., 0.3)
    bay.mu = ctx.V('mu')
    for nm in [c + e + d for c in 'uvw' for e in ('1t', '1r', '2t', '2r') for d in 'xy']:
        setattr(bay, nm, (cfg.get('flags') or {}).get(nm, ctx.V(nm)))      # the bay's edge flags, handed to the skin panels by add_panel
    # the skin laminate: one symbolic ABD shared by every skin panel (uniformly laminated skin)
    lam = FakeLam()
    lam.ABD = sym_ABD('skin_', ctx.V)
    lam.A, lam.B, lam.D = lam.ABD[0:3, 0:3], lam.ABD[0:3, 3:6], lam.ABD[3:6, 3:6]
    lam.t = 2 * bay.plyt
    lam.h = lam.t
    ctx.lam_for[id(bay.stack)] = lam
    ncuts = max(cfg.get('cuts', 0), len(cfg.get('stiffeners', [])))
    cuts = [Sym.lift(0)] + [ctx.V('ycut%d' % k) for k in range(ncuts)] + [bay.b]
    for k in range(len(cuts) - 1):
        bay.add_panel(cuts[k], cuts[k + 1], plyts=[bay.plyt, bay.plyt])
    for p in bay.panels:
        p._verif_lam = lam
    comps = []
    ren = cfg.get('rename', {})                 # C20: a twin built from the start with the re-defined values
    SV = lambda name: ctx.V(ren.get(name, name))
    for kind, spec in cfg.get('stiffeners', []):
        ys = cuts[1 + len(comps)]         # a stiffener sits on the boundary between two skin panels
        bst, fst = stacks.get(len(comps), ([0], [0, 0])) if stacks else ([0], [0, 0])
        common = dict(bb=SV('bb%d' % len(comps)), bstack=bst, bplyts=[SV('bt%d' % len(comps))], blaminaprops=[(1., 1., 0.3)])
        fl = dict(bf=SV('bf%d' % len(comps)), fstack=fst, fplyts=[SV('ft%d' % len(comps)), SV('ft%d' % len(comps))], flaminaprops=[(1., 1., 0.3)] * 2)
        mu_s = SV('mu_s%d' % len(comps))      # the stiffener's own density, different from the skin's
        if kind == 'B1':
            s = bay.add_bladestiff1d(ys, mu=mu_s, **(common if spec.get('base') else {}), **fl)
        elif kind == 'B2':
            s = bay.add_bladestiff2d(ys, mu=mu_s, **(common if spec.get('base') else {}), mf=spec['mf'], nf=spec['nf'], **(fl if spec.get('flange', True) else {}))
        else:
            s = bay.add_tstiff2d(ys, mu=mu_s, mb=spec['mb'], nb=spec['nb'], mf=spec['mf'], nf=spec['nf'], **common, **fl)
        s._verif_stacks = (common['bstack'], fl['fstack'])
        s._verif_spec = dict(kind=kind, ys=ys, mu=mu_s, bb=common['bb'] if (kind == 'T2' or spec.get('base')) else None, bf=fl['bf'],
                             bplyts=common['bplyts'], fplyts=fl['fplyts'], spec=spec)
        comps.append((kind, s))
    return bay, comps


def wiring_obligations(bay, comps):
    """the component objects a stiffener builds carry the definition it was given: density, spans, series orders, strip"""
    obs = []
    for q, (kind, s) in enumerate(comps):
        sp = s._verif_spec
        tag = '%s#%d' % (kind, q)
        exp = {}
        if kind in ('B1', 'B2') and sp['bb'] is not None:
            exp['base'] = dict(mu=sp['mu'], a=bay.a, b=bay.b, m=bay.m, n=bay.n, y1=sp['ys'] - sp['bb'] / 2, y2=sp['ys'] + sp['bb'] / 2)
        if kind == 'T2':
            exp['base'] = dict(mu=sp['mu'], a=bay.a, b=sp['bb'], m=sp['spec']['mb'], n=sp['spec']['nb'])
        if kind == 'T2' or (kind == 'B2' and sp['spec'].get('flange', True)):
            exp['flange'] = dict(mu=sp['mu'], a=bay.a, b=sp['bf'], m=sp['spec']['mf'], n=sp['spec']['nf'])
        if hasattr(s, 'mu'):
            obs.append(('stiffener-definition[%s.mu]' % tag, Sym.lift(s.mu), Sym.lift(sp['mu'])))
        if kind == 'B1':
            # section properties of the blade (rectangle bf x hf standing on the skin / pad-up): area, second moments about the
            # two section axes, polar moment, centroid distance from the skin mid-surface, reduced axial stiffness of the laminate
            bf_, hf_ = sp['bf'], sum(sp['fplyts'])
            hb_ = sum(sp['bplyts']) if sp['bb'] is not None else Sym.lift(0)
            hskin = (sum(s.panel1.plyts) + sum(s.panel2.plyts)) / 2
            want = {'hf': hf_, 'Asf': bf_ * hf_, 'Iyy': hf_ * bf_ ** 3 / 12, 'Jxx': hf_ * bf_ ** 3 / 12 + bf_ * hf_ ** 3 / 12,
                    'dbf': bf_ / 2 + hb_ + hskin / 2}
            if sp['bb'] is not None:
                want['Asb'] = sp['bb'] * hb_
                want['As'] = sp['bb'] * hb_ + bf_ * hf_
            else:
                want['As'] = bf_ * hf_
            plies = getattr(s.flam, 'plies', None)
            if plies:
                E1 = Sym.lift(0)
                for ply in plies:
                    q = ply.QL
                    E1 = E1 + ply.t * (q[0, 0] - q[0, 1] * q[0, 1] / q[1, 1])
                want['E1'] = E1
                want['F1'] = bf_ ** 2 / 12 * E1
            for nm, v in want.items():
                got = getattr(s, nm, None)
                if got is None:
                    obs.append(('stiffener-section[%s.%s set]' % (tag, nm), Sym.lift(0), Sym.lift(1)))
                else:
                    obs.append(('stiffener-section[%s.%s]' % (tag, nm), Sym.lift(got), Sym.lift(v)))
        for part, want in exp.items():
            comp = getattr(s, part, None)
            if comp is None:
                obs.append(('stiffener-definition[%s.%s exists]' % (tag, part), Sym.lift(0), Sym.lift(1)))
                continue
            for nm, v in want.items():
                got = getattr(comp, nm, None)
                if got is None:
                    obs.append(('stiffener-definition[%s.%s.%s set]' % (tag, part, nm), Sym.lift(0), Sym.lift(1)))
                else:
                    obs.append(('stiffener-definition[%s.%s.%s]' % (tag, part, nm), Sym.lift(got), Sym.lift(v)))
    return obs


def expected_layout(bay, comps):
    """harness-side amplitude ranges: skin first, then every BladeStiff2D flange, then every TStiff2D base+flange (documented order)"""
    pos = 3 * bay.m * bay.n
    rng = {}
    for kind, s in comps:
        if kind == 'B2':
            size = 3 * s.flange.m * s.flange.n if s.flange is not None else 0
            rng[id(s)] = {'start': pos, 'flange': (pos, pos + size)}
            pos += size
    for kind, s in comps:
        if kind == 'T2':
            sb, sf = 3 * s.base.m * s.base.n, 3 * s.flange.m * s.flange.n
            rng[id(s)] = {'start': pos, 'base': (pos, pos + sb), 'flange': (pos + sb, pos + sb + sf)}
            pos += sb + sf
    return rng, pos


def strip_mismatch_hessian(atoms, kt, d, Sp, Sb, eta1, eta2, a, b, startp, startb):
    """Hessian of kt/2 int_0^a int_y1^y2 [(u_p + d w_p,x - u_b)^2 + (v_p + d w_p,y - v_b)^2 + (w_p - w_b)^2] dy dx with the skin series Sp
    on eta_p in [eta1, eta2] and the base series Sb on its whole width, eta_p = c0 + c1 eta_b; {(row, col): Sym}, all ordered pairs"""
    one, two = Sym.lift(1), Sym.lift(2)
    eta1, eta2 = Sym.lift(eta1), Sym.lift(eta2)
    c0, c1 = (eta1 + eta2) / 2, (eta2 - eta1) / 2
    terms = [[('p', 'u', 0, 0, one), ('p', 'w', 1, 0, d), ('b', 'u', 0, 0, -one)],
             [('p', 'v', 0, 0, one), ('p', 'w', 0, 1, d), ('b', 'v', 0, 0, -one)],
             [('p', 'w', 0, 0, one), ('b', 'w', 0, 0, -one)]]
    Sd = {'p': Sp, 'b': Sb}
    start = {'p': startp, 'b': startb}
    out = {}
    for parts in terms:
        for (pa, ca, dxa, dya, coa) in parts:
            Sa = Sd[pa]
            for (pb, cb, dxb, dyb, cob) in parts:
                Sb_ = Sd[pb]
                sc = kt * coa * cob * (two / a) ** (dxa + dxb) * (two / b) ** (dya + dyb)      # y-derivatives act on the skin only
                for (ia, ja, qa) in Sa.dofs():
                    if qa != ca:
                        continue
                    for (ib, jb, qb) in Sb_.dofs():
                        if qb != cb:
                            continue
                        vx = (a / 2) * atoms.I(dxa, ia, Sa.flags[ca]['x'], dxb, ib, Sb_.flags[cb]['x'])
                        fa, fb = Sym.lift(atoms._flag(ja, Sa.flags[ca]['y'])), Sym.lift(atoms._flag(jb, Sb_.flags[cb]['y']))
                        if pa == 'p' and pb == 'p':
                            vy = (b / 2) * atoms.I(dya, ja, Sa.flags[ca]['y'], dyb, jb, Sb_.flags[cb]['y'], lim=(eta1, eta2))
                        elif pa == 'b' and pb == 'b':
                            vy = (b / 2) * c1 * atoms.I(dya, ja, Sa.flags[ca]['y'], dyb, jb, Sb_.flags[cb]['y'])
                        elif pa == 'b':
                            vy = (b / 2) * c1 * fa * fb * atoms.raw_c0c1(dya, ja, dyb, jb, c0, c1)
                        else:
                            vy = (b / 2) * c1 * fa * fb * atoms.raw_c0c1(dyb, jb, dya, ja, c0, c1)
                        key = (start[pa] + Sa.dof(ia, ja, qa), start[pb] + Sb_.dof(ib, jb, qb))
                        out[key] = out[key] + sc * vx * vy if key in out else sc * vx * vy
    return out


def build(cfg, values=None):
    variant = cfg['variant']
    if variant == 'assembly-fext':
        # force vector of a panel assembly = the panels' stand-alone vectors at their ranges (harness shared with C07)
        from . import c07
        return c07.build(dict(cfg, variant='assembly'), values)
    ctx = PanelCtx(values=values, seed=cfg.get('seed', 0))
    pol = BayPolicy()
    obs = []
    assumptions = []
    with ctx.shadow(extra_stubs=stiff_stubs(ctx), policy=pol):
        from compmech.sparse import finalize_symmetric_matrix
        if variant in ('bay-sum', 'bay-fields', 'bay-fext'):
            bay, comps = make_bay(ctx, cfg)
            rng, total = expected_layout(bay, comps)
            bay._rebuild()          # model selection (what every calc_* does first; fresh-object call order is C20's subject)
            size = bay.get_size()
            obs.append(('size', Sym.lift(size), Sym.lift(total)))
            if variant == 'bay-sum':
                which = cfg['which']
                bay.Nxx = ctx.V('Nxx')
                for q_, p in enumerate(bay.panels):
                    p.Nxx, p.Nyy, p.Nxy = ctx.V('Nxx'), ctx.V('Nyy'), ctx.V('Nxy')
                    if cfg.get('skin_loads') == 'shear-only' or (cfg.get('skin_loads') == 'mixed' and q_ == 0):
                        p.Nxx, p.Nyy = None, None       # a strip that carries shear only
                    if cfg.get('skin_loads') == 'mixed' and q_ == 1:
                        p.Nxy, p.Nyy = None, None
                for kind, s in comps:
                    if kind == 'B1':
                        s.Fx = ctx.V('Fx_%d' % id(s))
                    elif kind == 'B2' and s.flange is not None:
                        s.flange.Nxx = ctx.V('Nxxf')
                    elif kind == 'T2':
                        s.base.Nxx, s.flange.Nxx = ctx.V('Nxxb'), ctx.V('Nxxf')
                K = getattr(bay, 'calc_' + which)(silent=True).todict()
                tot = 0.
                for p in bay.panels:
                    getattr(p, 'calc_' + which)(size=total, row0=0, col0=0, silent=True, finalize=False)
                    tot = tot + getattr(p, which)
                for kind, s in comps:
                    r0 = 0 if kind == 'B1' else rng[id(s)]['start']
                    getattr(s, 'calc_' + which)(size=total, row0=r0, col0=r0, silent=True, finalize=False)
                    tot = tot + getattr(s, which)
                H = finalize_symmetric_matrix(tot).todict()
                for k in sorted(set(K) | set(H)):
                    obs.append(('%s-sum[%d,%d]' % (which, k[0], k[1]), K.get(k, 0), H.get(k, 0)))
                obs += wiring_obligations(bay, comps)
            elif variant == 'bay-fields':
                c = np.zeros(total, dtype=object)
                for k in range(total):
                    c[k] = ctx.V('c%d' % k)
                bay.out_num_cores = 2
                xs = np.array([ctx.V('px0'), ctx.V('px1')], dtype=object)
                ys = np.array([ctx.V('py0'), ctx.V('py1')], dtype=object)
                bay.calc_k0(silent=True)
                # skin
                u, v, w, phx, phy = bay.uvw_skin(c, xs=xs, ys=ys)
                S = series_of(bay.panels[0], 'plate')
                for q in range(2):
                    xi, eta = 2 * xs[q] / bay.a - 1, 2 * ys[q] / bay.b - 1
                    obs.append(('skin-u[%d]' % q, u[q], PW.field(ctx.atoms, S, c, 'u', 0, 0, xi, eta)))
                    obs.append(('skin-w[%d]' % q, w[q], PW.field(ctx.atoms, S, c, 'w', 0, 0, xi, eta)))
                    obs.append(('skin-phix[%d]' % q, phx[q], -PW.field(ctx.atoms, S, c, 'w', 1, 0, xi, eta)))
                for si, (kind, s) in enumerate(comps):
                    if kind == 'B1' or (kind == 'B2' and s.flange is None):
                        continue
                    for region in (('base', 'flange') if kind == 'T2' else ('flange',)):
                        comp_panel = getattr(s, region)
                        lo, hi = rng[id(s)][region]
                        # index of this stiffener in bay.stiffeners (the API's numbering)
                        api_index = [x for x in bay.stiffeners].index(s)
                        u, v, w, phx, phy = bay.uvw_stiffener(c, api_index, region=region, xs=xs, ys=ys)
                        Sc = series_of(comp_panel, 'plate')
                        cs = c[lo:hi]
                        for q in range(2):
                            xi, eta = 2 * xs[q] / comp_panel.a - 1, 2 * ys[q] / comp_panel.b - 1
                            obs.append(('stiffener%d-%s-u[%d]' % (si, region, q), u[q], PW.field(ctx.atoms, Sc, cs, 'u', 0, 0, xi, eta)))
                            obs.append(('stiffener%d-%s-w[%d]' % (si, region, q), w[q], PW.field(ctx.atoms, Sc, cs, 'w', 0, 0, xi, eta)))
            else:
                fx = [ctx.V('Fx'), ctx.V('Fy'), ctx.V('fx'), ctx.V('fy'), ctx.V('fz')]
                bay.forces_skin.append(fx)
                # point forces on the stiffener components as well (flange of a BladeStiff2D, base and flange of a TStiff2D)
                sforces = {}
                for si, (kind, s_) in enumerate(comps):
                    for region in (('base', 'flange') if kind == 'T2' else (('flange',) if kind == 'B2' else ())):
                        comp_panel = getattr(s_, region)
                        if comp_panel is None:
                            continue
                        f = [ctx.V('S%d%s_%s' % (si, region[0], nm)) for nm in ('x', 'y', 'fx', 'fy', 'fz')]
                        comp_panel.add_force(*f)
                        sforces[(id(s_), region)] = (comp_panel, f)
                fext = bay.calc_fext(silent=True)
                obs.append(('fext-length', Sym.lift(len(fext)), Sym.lift(total)))
                S = series_of(bay.panels[0], 'plate')
                xi, eta = 2 * fx[0] / bay.a - 1, 2 * fx[1] / bay.b - 1
                for (i, j, comp) in S.dofs():
                    F = {'u': fx[2], 'v': fx[3], 'w': fx[4]}[comp]
                    k = S.dof(i, j, comp)
                    obs.append(('bay-fext[%d]' % k, fext[k], F * PW.basis(ctx.atoms, S, comp, i, j, 0, 0, xi, eta)))
                expected = {}
                for (sid, region), (comp_panel, f) in sforces.items():
                    lo, hi = rng[sid][region]
                    Sc = series_of(comp_panel, 'plate')
                    xi_c, eta_c = 2 * f[0] / comp_panel.a - 1, 2 * f[1] / comp_panel.b - 1
                    for (i, j, comp) in Sc.dofs():
                        F = {'u': f[2], 'v': f[3], 'w': f[4]}[comp]
                        expected[lo + Sc.dof(i, j, comp)] = F * PW.basis(ctx.atoms, Sc, comp, i, j, 0, 0, xi_c, eta_c)
                for k in range(3 * bay.m * bay.n, min(total, len(fext))):
                    obs.append(('bay-fext-stiffener-part[%d]' % k, fext[k], expected.get(k, 0)))
        elif variant == 'tstiff-parts':
            # TStiff2D.calc_k0 against its explicit composition from the stiffener's DEFINITION (spans, junction lines, strip):
            # base + flange + skin/base penalty blocks on [ys - bb/2, ys + bb/2] + base/flange connection on the lines
            # y_base = (eta_conn_base + 1)/2 * bb, y_flange = (eta_conn_flange + 1)/2 * bf
            from compmech.panel.connections import calc_kt_kr
            bay, comps = make_bay(ctx, cfg)
            rng, total = expected_layout(bay, comps)
            kind, st = comps[0]
            sp = st._verif_spec
            ecb, ecf = ctx.V('eta_conn_base'), ctx.V('eta_conn_flange')
            st.eta_conn_base, st.eta_conn_flange = ecb, ecf
            bay.get_size()
            r0 = rng[id(st)]['start']
            st.calc_k0(size=total, row0=r0, col0=r0, silent=True, finalize=False)
            K = finalize_symmetric_matrix(st.k0).todict()
            rf = r0 + 3 * st.base.m * st.base.n
            tot = st.base.calc_k0(size=total, row0=r0, col0=r0, silent=True, finalize=False)
            tot = tot + st.flange.calc_k0(size=total, row0=rf, col0=rf, silent=True, finalize=False)
            conn = LazyNS(ctx.kernels, STIFF['tstiff2d_clt_donnell_bardell'])
            bfk = LazyNS(ctx.kernels, CONN['BFycte'])
            ktpb, krpb = calc_kt_kr(st.panel1, st.base, 'bot-top')
            y1, y2 = sp['ys'] - sp['bb'] / 2, sp['ys'] + sp['bb'] / 2
            bflags = [getattr(bay, c_ + e_ + d_) for d_ in 'xy' for c_ in 'uvw' for e_ in ('1t', '1r', '2t', '2r')]
            sflags = [getattr(st.base, c_ + e_ + d_) for d_ in 'xy' for c_ in 'uvw' for e_ in ('1t', '1r', '2t', '2r')]
            tot = tot + conn.fkCppy1y2(y1, y2, ktpb, bay.a, bay.b, st.dpb, bay.m, bay.n, *bflags, total, 0, 0)
            tot = tot + conn.fkCpby1y2(y1, y2, ktpb, bay.a, bay.b, st.dpb, bay.m, bay.n, st.base.m, st.base.n, *bflags, *sflags, total, 0, r0)
            tot = tot + conn.fkCbbpby1y2(y1, y2, ktpb, bay.a, bay.b, st.base.m, st.base.n, *sflags, total, r0, r0)
            ktbf, krbf = calc_kt_kr(st.base, st.flange, 'ycte')
            yb, yf = (ecb + 1) / 2 * sp['bb'], (ecf + 1) / 2 * sp['bf']
            tot = tot + bfk.fkCBFycte11(ktbf, krbf, st.base, yb, total, r0, r0)
            tot = tot + bfk.fkCBFycte12(ktbf, krbf, st.base, st.flange, yb, yf, total, r0, rf)
            tot = tot + bfk.fkCBFycte22(ktbf, krbf, st.base, st.flange, yf, total, rf, rf)
            H = finalize_symmetric_matrix(tot).todict()
            for k in sorted(set(K) | set(H)):
                obs.append(('tstiff2d-k0-vs-parts[%d,%d]' % (k[0], k[1]), K.get(k, 0), H.get(k, 0)))
            # the skin/base blocks are the Hessian of the face-to-face mismatch energy over the strip y1 <= y <= y2 of the skin (= the
            # whole base):  kt/2 int int [(u_p + dpb w_p,x - u_b)^2 + (v_p + dpb w_p,y - v_b)^2 + (w_p - w_b)^2] dx dy   (>= 0)
            cblk = conn.fkCppy1y2(y1, y2, ktpb, bay.a, bay.b, st.dpb, bay.m, bay.n, *bflags, total, 0, 0)
            cblk = cblk + conn.fkCpby1y2(y1, y2, ktpb, bay.a, bay.b, st.dpb, bay.m, bay.n, st.base.m, st.base.n, *bflags, *sflags, total, 0, r0)
            cblk = cblk + conn.fkCbbpby1y2(y1, y2, ktpb, bay.a, bay.b, st.base.m, st.base.n, *sflags, total, r0, r0)
            Cd = finalize_symmetric_matrix(cblk).todict()
            He = strip_mismatch_hessian(ctx.atoms, Sym.lift(ktpb), Sym.lift(st.dpb), series_of(bay.panels[0], 'plate', b=bay.b), series_of(st.base, 'plate'),
                                        2 * y1 / bay.b - 1, 2 * y2 / bay.b - 1, bay.a, bay.b, 0, r0)
            for k in sorted(set(Cd) | set(He)):
                obs.append(('tstiff2d-skin-base-connection-vs-mismatch-energy[%d,%d]' % (k[0], k[1]), Cd.get(k, 0), He.get(k, 0)))
            # geometric stiffness and mass: base block at the stiffener's range, flange block right after it
            st.base.Nxx, st.flange.Nxx = ctx.V('Nxxb'), ctx.V('Nxxf')
            for nm in ('kG0', 'kM'):
                getattr(st, 'calc_' + nm)(size=total, row0=r0, col0=r0, silent=True, finalize=False)
                Kn = finalize_symmetric_matrix(getattr(st, nm)).todict()
                tn = getattr(st.base, 'calc_' + nm)(size=total, row0=r0, col0=r0, silent=True, finalize=False)
                tn = tn + getattr(st.flange, 'calc_' + nm)(size=total, row0=rf, col0=rf, silent=True, finalize=False)
                Hn = finalize_symmetric_matrix(tn).todict()
                for k in sorted(set(Kn) | set(Hn)):
                    obs.append(('tstiff2d-%s-vs-parts[%d,%d]' % (nm, k[0], k[1]), Kn.get(k, 0), Hn.get(k, 0)))
            obs += wiring_obligations(bay, comps)
        elif variant == 'blade2d-parts':
            # BladeStiff2D.calc_k0 against its explicit composition from the stiffener's definition
            from compmech.panel.connections import calc_kt_kr
            bay, comps = make_bay(ctx, cfg)
            rng, total = expected_layout(bay, comps)
            kind, st = comps[0]
            sp = st._verif_spec
            bay.get_size()
            r0 = rng[id(st)]['start']
            st.calc_k0(size=total, row0=r0, col0=r0, silent=True, finalize=False)
            K = finalize_symmetric_matrix(st.k0).todict()
            tot = 0.
            if st.base is not None:
                tot = tot + st.base.calc_k0(size=total, row0=0, col0=0, silent=True, finalize=False)
            tot = tot + st.flange.calc_k0(size=total, row0=r0, col0=r0, silent=True, finalize=False)
            kt, kr = calc_kt_kr(st.base if st.base is not None else st.panel1, st.flange, 'ycte')
            mod = LazyNS(ctx.kernels, STIFF['bladestiff2d_clt_donnell_bardell'])
            bflags = [getattr(bay, c_ + e_ + d_) for d_ in 'xy' for c_ in 'uvw' for e_ in ('1t', '1r', '2t', '2r')]
            fflags = [getattr(st.flange, c_ + e_ + d_) for d_ in 'xy' for c_ in 'uvw' for e_ in ('1t', '1r', '2t', '2r')]
            tot = tot + mod.fkCss(kt, kr, sp['ys'], bay.a, bay.b, bay.m, bay.n, *bflags, total, 0, 0)
            tot = tot + mod.fkCsf(kt, kr, sp['ys'], bay.a, bay.b, sp['bf'], bay.m, bay.n, sp['spec']['mf'], sp['spec']['nf'], *bflags, *fflags, total, 0, r0)
            tot = tot + mod.fkCff(kt, kr, bay.a, sp['bf'], sp['spec']['mf'], sp['spec']['nf'], *fflags, total, r0, r0)
            H = finalize_symmetric_matrix(tot).todict()
            for k in sorted(set(K) | set(H)):
                obs.append(('bladestiff2d-k0-vs-parts[%d,%d]' % (k[0], k[1]), K.get(k, 0), H.get(k, 0)))
            # the three connection blocks are the Hessian of the skin/flange mismatch energy on the line y = ys of the skin and the
            # root edge (eta = -1) of the flange:  kt/2 int [(u_s-u_f)^2 + (v_s-w_f)^2 + (w_s+v_f)^2] + kr/2 int (w_s,y - w_f,y)^2  (>= 0)
            from ..oracles import penalty as PEN
            cblk = mod.fkCss(kt, kr, sp['ys'], bay.a, bay.b, bay.m, bay.n, *bflags, total, 0, 0)
            cblk = cblk + mod.fkCsf(kt, kr, sp['ys'], bay.a, bay.b, sp['bf'], bay.m, bay.n, sp['spec']['mf'], sp['spec']['nf'], *bflags, *fflags, total, 0, r0)
            cblk = cblk + mod.fkCff(kt, kr, bay.a, sp['bf'], sp['spec']['mf'], sp['spec']['nf'], *fflags, total, r0, r0)
            Cd = finalize_symmetric_matrix(cblk).todict()
            ikind, jterms = PEN.jumps('BFycte', Sym.lift(kt), Sym.lift(kr))
            Ss = {1: series_of(bay.panels[0], 'plate', b=bay.b), 2: series_of(st.flange, 'plate')}
            Hc = PEN.hessian(ctx.atoms, ikind, jterms, Ss, {1: 2 * sp['ys'] / bay.b - 1, 2: Sym.lift(-1)}, bay.a, bay.b)
            start = {1: 0, 2: r0}
            He = {}
            for ((pa, da), (pb, db)), v in Hc.items():
                kk = (start[pa] + da, start[pb] + db)
                He[kk] = He[kk] + v if kk in He else v
            for k in sorted(set(Cd) | set(He)):
                obs.append(('bladestiff2d-connection-vs-mismatch-energy[%d,%d]' % (k[0], k[1]), Cd.get(k, 0), He.get(k, 0)))
            # geometric stiffness (flange only: the pad-up carries no pre-load in the package) and mass (base at the skin amplitudes)
            st.flange.Nxx = ctx.V('Nxxf')
            for nm in ('kG0', 'kM'):
                getattr(st, 'calc_' + nm)(size=total, row0=r0, col0=r0, silent=True, finalize=False)
                Kn = finalize_symmetric_matrix(getattr(st, nm)).todict()
                tn = getattr(st.flange, 'calc_' + nm)(size=total, row0=r0, col0=r0, silent=True, finalize=False)
                if nm == 'kM' and st.base is not None:
                    tn = tn + st.base.calc_kM(size=total, row0=0, col0=0, silent=True, finalize=False)
                Hn = finalize_symmetric_matrix(tn).todict()
                for k in sorted(set(Kn) | set(Hn)):
                    obs.append(('bladestiff2d-%s-vs-parts[%d,%d]' % (nm, k[0], k[1]), Kn.get(k, 0), Hn.get(k, 0)))
            obs += wiring_obligations(bay, comps)
        elif variant == 'blade1d-energy':
            # BladeStiff1D flange (1-D beam riding on the skin at y = ys): its stiffness and geometric stiffness are the Hessians of
            #   bf/2 int_0^a [ E1 X^2 + F1 w,xx^2 + Jxx w,xy^2 - 2 S1 X w,xy ] dx ,  X = u,x + dbf w,xx      (section constants of _rebuild)
            #   Fx/2 int_0^a w,x^2 dx
            # evaluated with the SKIN's series on the line y = ys; the stiffener adds a positive semi-definite stiffness iff that
            # quadratic form is: E1 >= 0, F1 >= 0, Jxx >= 0 and E1*Jxx >= S1^2 for every admissible flange laminate
            from ..oracles import penalty as PEN
            bay, comps = make_bay(ctx, cfg)
            kind, st = comps[0]
            bay._rebuild()
            total = bay.get_size()
            st.Fx = ctx.V('Fx')
            st.calc_k0(size=total, row0=0, col0=0, silent=True)
            K = st.k0.todict()
            st.calc_kG0(size=total, row0=0, col0=0, silent=True)
            G = st.kG0.todict()
            S = series_of(bay.panels[0], 'plate', b=bay.b)
            eta = 2 * st.ys / bay.b - 1
            E1, F1, S1, Jxx, bf, df = [Sym.lift(x) for x in (st.E1, st.F1, st.S1, st.Jxx, st.bf, st.dbf)]
            one = Sym.lift(1)
            X = [(1, 'u', 1, 0, one), (1, 'w', 2, 0, df)]
            Y = [(1, 'w', 1, 1, one)]
            terms = [(bf * (E1 - S1), X), (bf * (Jxx - S1), Y), (bf * S1, X + [(1, 'w', 1, 1, -one)]), (bf * F1, [(1, 'w', 2, 0, one)])]
            H = {(ka[1], kb[1]): v for (ka, kb), v in PEN.hessian(ctx.atoms, 'x-line', terms, {1: S}, {1: eta}, bay.a, bay.b).items()}
            for k in sorted(set(K) | set(H)):
                obs.append(('bladestiff1d-flange-k0-vs-beam-energy[%d,%d]' % k, K.get(k, 0), H.get(k, 0)))
            HG = {(ka[1], kb[1]): v for (ka, kb), v in PEN.hessian(ctx.atoms, 'x-line', [(Sym.lift(st.Fx), [(1, 'w', 1, 0, one)])], {1: S}, {1: eta}, bay.a, bay.b).items()}
            for k in sorted(set(G) | set(HG)):
                obs.append(('bladestiff1d-flange-kG0-vs-prestress-work[%d,%d]' % k, G.get(k, 0), HG.get(k, 0)))
            conds = [('E1>=0', E1), ('F1>=0', F1), ('Jxx>=0', Jxx), ('E1*Jxx>=S1^2', E1 * Jxx - S1 * S1)]
            for nm, xq in conds:
                if values is None:
                    num = Sym._z(xq.n)
                    den = Sym._mono(xq.d) if xq.d else None
                    obs.append(('flange-section-form-psd[%s]' % nm, [(num * den < 0) if den is not None else (num < 0)]))
                else:
                    obs.append(('flange-section-form-psd[%s]' % nm, Sym.lift(1 if xq.n < 0 else 0), Sym.lift(0)))
            if values is None:
                # admissible flange: every ply's in-plane stiffness positive definite, positive thicknesses and width
                for ply in st.flam.plies:
                    q = ply.QL
                    q00, q01, q02, q11, q12, q22 = [Sym._z(Sym.lift(q[i, j]).n) for (i, j) in ((0, 0), (0, 1), (0, 2), (1, 1), (1, 2), (2, 2))]
                    assumptions += [q00 > 0, q00 * q11 - q01 * q01 > 0,
                                    q00 * (q11 * q22 - q12 * q12) - q01 * (q01 * q22 - q12 * q02) + q02 * (q01 * q12 - q11 * q02) > 0, Sym._z(Sym.lift(ply.t).n) > 0]
                assumptions += [Sym._z(bf.n) > 0]
        elif variant == 'partition':
            which = cfg['which']
            res = []
            for cuts in (0, cfg['cuts']):
                bay, comps = make_bay(ctx, dict(cfg, cuts=cuts))
                bay._rebuild()
                for p in bay.panels:
                    p.Nxx, p.Nyy, p.Nxy = ctx.V('Nxx'), ctx.V('Nyy'), ctx.V('Nxy')
                res.append(getattr(bay, 'calc_' + which)(silent=True).todict())
            for k in sorted(set(res[0]) | set(res[1])):
                obs.append(('%s-partition[%d,%d]' % (which, k[0], k[1]), res[1].get(k, 0), res[0].get(k, 0)))
            if values is None:
                assumptions += ctx.atoms.additivity_constraints()
        elif variant == 'assembly-sum':
            from compmech.panel.assembly import PanelAssembly
            import compmech.panel.connections as connections
            which = cfg['which']
            panels = []
            for q, (m, n) in enumerate(cfg['panels']):
                p = ctx.new_panel('plate', m, n, prefix='p%d_' % q)
                lam = p._verif_lam
                lam.A, lam.D = lam.ABD[0:3, 0:3], lam.ABD[3:6, 3:6]
                if cfg.get('panel_offsets'):
                    # laminates with an offset reference surface, built by the package when it first needs them
                    p.offset = ctx.V('p%d_offset' % q)
                else:
                    p.lam = lam
                p._rebuild()
                p.a = panels[0].a if panels else p.a
                p.Nxx, p.Nyy, p.Nxy = ctx.V('Nxx%d' % q), ctx.V('Nyy%d' % q), ctx.V('Nxy%d' % q)
                kind = (cfg.get('panel_loads') or ['all'] * (q + 1))[q]
                if kind == 'shear-only':
                    p.Nxx = p.Nyy = 0.
                elif kind == 'none':
                    p.Nxx = p.Nyy = p.Nxy = 0.
                elif kind == 'Nyy-only':
                    p.Nxx = p.Nxy = 0.
                panels.append(p)
            conn = [dict(p1=panels[k], p2=panels[k + 1], func='SSycte', ycte1=panels[k].b, ycte2=0) for k in range(len(panels) - 1)]
            asm = PanelAssembly(panels, conn)
            size = asm.get_size()
            obs.append(('assembly-size', Sym.lift(size), Sym.lift(sum(3 * p.m * p.n for p in panels))))
            pos = 0
            for q, p in enumerate(panels):
                obs.append(('assembly-range-start[%d]' % q, Sym.lift(p.row_start), Sym.lift(pos)))
                pos += 3 * p.m * p.n
                obs.append(('assembly-range-end[%d]' % q, Sym.lift(p.row_end), Sym.lift(pos)))
            if which in ('k0', 'kG0', 'kM'):
                for h in cfg.get('history', ()):
                    if h == 'k0_conn':
                        asm.get_k0_conn()
                    else:
                        getattr(asm, 'calc_' + h)(silent=True)
                # ... and a re-definition between the earlier calls and the call under test: the result follows the CURRENT definition
                conn_now = None
                red = cfg.get('redefine')
                if red == 'laminate':
                    base = panels[0]._verif_lam
                    lam2 = FakeLam()
                    lam2.ABD = base.ABD * ctx.V('laminate_factor')
                    lam2.A, lam2.B, lam2.D = lam2.ABD[0:3, 0:3], lam2.ABD[0:3, 3:6], lam2.ABD[3:6, 3:6]
                    lam2.t = lam2.h = base.t
                    panels[0]._verif_lam = lam2
                    panels[0].lam = None                        # as a user does after changing stack / plyts / laminaprops
                    ctx.lam_for[id(panels[0].stack)] = lam2      # what read_stack returns for this panel from now on
                elif red == 'interface-line':
                    conn[0]['ycte1'] = ctx.V('ycte1_new')
                elif red == 'connection-argument':
                    conn_now = [dict(conn[0], ycte1=ctx.V('ycte1_new'))] + conn[1:]
                if conn_now is not None:
                    K = asm.calc_k0(conn=conn_now, silent=True).todict()
                else:
                    K = getattr(asm, 'calc_' + which)(silent=True).todict()
                tot = 0.
                for p in panels:
                    tot = tot + getattr(p, 'calc_' + which)(size=size, row0=p.row_start, col0=p.col_start, silent=True, finalize=False)
                H = finalize_symmetric_matrix(tot)
                if which == 'k0':
                    H = H + PanelAssembly(panels, conn_now if conn_now is not None else conn).get_k0_conn()
                H = H.todict()
                for k in sorted(set(K) | set(H)):
                    obs.append(('assembly-%s-sum[%d,%d]' % (which, k[0], k[1]), K.get(k, 0), H.get(k, 0)))
            else:
                # non-linear: kT and fint of the assembly at a symbolic state
                c = np.zeros(size, dtype=object)
                for k in range(size):
                    c[k] = ctx.V('c%d' % k)
                for p in panels:
                    p.nx = p.ny = 1
                    p.calc_k0(silent=True)
                # call history on the SAME assembly object before the call under test (the connection matrix is cached)
                for h in cfg.get('history', ()):
                    getattr(asm, 'calc_' + h)(silent=True)
                kc = PanelAssembly(panels, conn).get_k0_conn()
                if which == 'fint':
                    f = asm.calc_fint(c, silent=True)
                    exp = kc.dot(c)
                    for p in panels:
                        exp = exp + p.calc_fint(c, size=size, col0=p.col_start, silent=True)
                    for k in range(size):
                        obs.append(('assembly-fint[%d]' % k, f[k], exp[k]))
                else:
                    kT = asm.calc_kT(c, silent=True).todict()
                    tot = 0.
                    for p in panels:
                        tot = tot + p.calc_k0(c=c, size=size, row0=p.row_start, col0=p.col_start, silent=True, finalize=False, NLgeom=True)
                        tot = tot + p.calc_kG0(c=c, size=size, row0=p.row_start, col0=p.col_start, silent=True, finalize=False, NLgeom=True)
                    H = (finalize_symmetric_matrix(tot) + kc).todict()
                    for k in sorted(set(kT) | set(H)):
                        obs.append(('assembly-kT-sum[%d,%d]' % k, kT.get(k, 0), H.get(k, 0)))
        else:
            raise ValueError(variant)
    info = {'atoms': len(ctx.atoms.table), 'stats': {k: v.stats.as_dict() for k, v in ctx.kernels.mods.items()},
            'values': {k: str(v) for k, v in ctx.used_values.items()}, 'policy': pol.log[:3]}
    return obs, assumptions, info


def configs(tier, seed):
    out = []
    quick = tier == 'quick'
    T = lambda mb, nb, mf, nf: ('T2', dict(mb=mb, nb=nb, mf=mf, nf=nf))
    B2 = lambda mf, nf, base=False: ('B2', dict(mf=mf, nf=nf, base=base))
    B1 = lambda base=False: ('B1', dict(base=base))
    bays = {
        'B2+T2': [B2(1, 2), T(1, 1, 2, 1)],
        'T2+B2': [T(1, 1, 2, 1), B2(1, 2)],
        'T2+T2-unequal': [T(1, 1, 1, 2), T(2, 1, 2, 1)],
        'B2+B2': [B2(1, 2), B2(2, 1, True)],
        'B1+B1base': [B1(), B1(True)],
        'B2base-only+B2': [('B2', dict(mf=1, nf=1, base=True, flange=False)), B2(1, 2)],
    }
    if not quick:
        bays['B2+B2+T2+T2'] = [B2(1, 1), B2(1, 2), T(1, 1, 1, 1), T(1, 2, 1, 1)]
        bays['B1+B2+T2'] = [B1(True), B2(2, 1), T(1, 1, 1, 2)]
    for name, st in bays.items():
        for which in ('k0', 'kG0', 'kM'):
            out.append({'variant': 'bay-sum', 'which': which, 'm': 2, 'n': 1, 'stiffeners': st, 'group': 'bay-sum:%s:%s' % (name, which), 'timeout_ms': 120000})
        if 'B1' not in name:
            out.append({'variant': 'bay-fields', 'm': 1, 'n': 2, 'stiffeners': st, 'group': 'bay-fields:%s' % name})
        out.append({'variant': 'bay-fext', 'm': 2, 'n': 1, 'stiffeners': st, 'group': 'bay-fext:%s' % name})
    out.append({'variant': 'bay-sum', 'which': 'kG0', 'm': 2, 'n': 1, 'stiffeners': [B1()], 'skin_loads': 'shear-only', 'group': 'bay-sum:B1:kG0:skin-in-pure-shear', 'timeout_ms': 120000})
    out.append({'variant': 'bay-sum', 'which': 'kG0', 'm': 1, 'n': 2, 'stiffeners': [B2(1, 1)], 'skin_loads': 'mixed', 'group': 'bay-sum:B2:kG0:strip-wise-different-loads', 'timeout_ms': 120000})
    out.append({'variant': 'blade1d-energy', 'm': 2, 'n': 2, 'stiffeners': [B1()], 'group': 'bladestiff1d-flange-energy'})
    out.append({'variant': 'blade1d-energy', 'm': 1, 'n': 4, 'stiffeners': [B1()], 'group': 'bladestiff1d-flange-energy'})
    out.append({'variant': 'blade1d-energy', 'm': 4, 'n': 1, 'stiffeners': [B1()], 'group': 'bladestiff1d-flange-energy'})
    out.append({'variant': 'blade2d-parts', 'm': 1, 'n': 2, 'stiffeners': [B2(2, 1, True)], 'group': 'bladestiff2d-k0-composition'})
    out.append({'variant': 'blade2d-parts', 'm': 2, 'n': 1, 'stiffeners': [B2(1, 2)], 'group': 'bladestiff2d-k0-composition'})
    out.append({'variant': 'tstiff-parts', 'm': 1, 'n': 2, 'stiffeners': [T(1, 2, 2, 1)], 'group': 'tstiff2d-k0-composition'})
    for which in ('k0', 'kG0', 'kM'):
        for cuts in ((1, 2) if quick else (1, 2, 3, 4)):
            out.append({'variant': 'partition', 'which': which, 'm': 2, 'n': 2, 'cuts': cuts, 'group': 'skin-partition:%s' % which})
        out.append({'variant': 'assembly-sum', 'which': which, 'panels': [(2, 1), (1, 2), (1, 1)], 'm': 2, 'n': 1, 'group': 'assembly-sum:%s' % which})
    # panels of one assembly under different kinds of pre-load (one in pure shear, one unloaded, one in transverse load only)
    out.append({'variant': 'assembly-sum', 'which': 'kG0', 'panels': [(2, 2), (1, 1), (1, 2)], 'panel_loads': ['shear-only', 'none', 'Nyy-only'], 'm': 2, 'n': 2,
                'group': 'assembly-sum:kG0:panel-wise-different-loads'})
    # panels with constant loads only, incrementable loads only, both and none, in different positions of the assembly
    out.append({'variant': 'assembly-fext', 'panels': [(2, 1, 0, 1), (1, 2, 1, 0), (1, 1, 0, 0), (1, 1, 1, 1)], 'm': 2, 'n': 1, 'group': 'assembly-fext'})
    out.append({'variant': 'assembly-fext', 'panels': [(1, 1, 1, 0), (2, 2, 0, 2)], 'm': 2, 'n': 2, 'group': 'assembly-fext'})
    out.append({'variant': 'assembly-sum', 'which': 'fint', 'panels': [(2, 1), (1, 1)], 'm': 2, 'n': 1, 'group': 'assembly-sum:fint', 'timeout_ms': 120000})
    out.append({'variant': 'assembly-sum', 'which': 'kT', 'panels': [(1, 1), (1, 2)], 'm': 1, 'n': 1, 'group': 'assembly-sum:kT', 'timeout_ms': 120000})
    # the same sums after other calls on the same assembly object (the connection matrix is cached between calls)
    out.append({'variant': 'assembly-sum', 'which': 'kT', 'history': ('k0', 'kG0', 'kM'), 'panels': [(1, 3), (1, 1)], 'm': 1, 'n': 1, 'group': 'assembly-sum:kT-after-k0-kG0-kM', 'timeout_ms': 120000})
    out.append({'variant': 'assembly-sum', 'which': 'fint', 'history': ('k0',), 'panels': [(1, 3), (1, 1)], 'm': 1, 'n': 1, 'group': 'assembly-sum:fint-after-k0', 'timeout_ms': 120000})
    out.append({'variant': 'assembly-sum', 'which': 'k0', 'history': ('k0_conn', 'k0'), 'panels': [(2, 1), (1, 2), (1, 1)], 'm': 2, 'n': 1, 'group': 'assembly-sum:k0-after-k0_conn-k0'})
    out.append({'variant': 'assembly-sum', 'which': 'k0', 'history': ('k0_conn',), 'panel_offsets': True, 'panels': [(1, 4), (1, 2)], 'm': 1, 'n': 1, 'group': 'assembly-sum:k0-after-k0_conn:offset-laminates'})
    out.append({'variant': 'assembly-sum', 'which': 'k0', 'panel_offsets': True, 'panels': [(1, 4), (1, 2)], 'm': 1, 'n': 1, 'group': 'assembly-sum:k0:offset-laminates'})
    # re-definition of the assembly between two evaluations (the connection matrix is stored on the object)
    for red in ('laminate', 'interface-line', 'connection-argument'):
        out.append({'variant': 'assembly-sum', 'which': 'k0', 'history': ('k0',), 'redefine': red, 'panels': [(1, 3), (1, 2)], 'm': 1, 'n': 1,
                    'group': 'assembly-sum:k0-after-redefinition:%s' % red})
    out[0]['canary'] = True
    out[-4]['canary'] = True
    return out


def main():
    run = Run('C13', 'other', explanation=(
        'Bounded symbolic verification of the assembly layers: the real StiffPanelBay and PanelAssembly objects are built and '
        'evaluated (real Python) over de-Cythonised panel/connection/stiffener kernels; each global matrix / vector / recovered field '
        'is proved (z3 qfnra-nlsat) equal, entry by entry, to the re-composition of the stand-alone component results placed at the '
        'ranges the harness derives from the component sizes; sizes add up; cutting a uniformly laminated skin at symbolic '
        'positions leaves k0, kG0, kM unchanged (sub-interval additivity of C10).'))
    for rel in list(STIFF.values()) + list(CONN.values()):
        run.encoded(rel, '*')
    run.encoded('compmech/stiffpanelbay/stiffpanelbay.py', 'StiffPanelBay.add_*, get_size, calc_k0, calc_kG0, calc_kM, calc_fext, uvw_skin, uvw_stiffener')
    run.encoded('compmech/panel/assembly/assembly.py', 'PanelAssembly.__init__, get_size, calc_k0, calc_kG0, calc_kM, calc_kT, calc_fint, get_k0_conn')
    for f in ('compmech/stiffener/bladestiff1d.py', 'compmech/stiffener/bladestiff2d.py', 'compmech/stiffener/tstiff2d.py'):
        run.encoded(f, 'calc_k0, calc_kG0, calc_kM, _rebuild')
    cf = configs(run.tier, run.seed)
    run.bounds = {'bays': sorted({c['group'].split(':')[1] for c in cf if c['variant'].startswith('bay')}), 'skin_cuts': sorted({c['cuts'] for c in cf if c['variant'] == 'partition'}),
                  'assemblies': '2..3 panels of unequal series orders', 'series orders': '<= 2 per direction inside the block identities', 'configurations': len(cf)}
    run.assume('bay length/width concrete (the stiffener code compares a/b with 10 and caps the penalty constant with min(1e7, kt): symbolic kt is taken below the cap)',
               'component laminates are contract stubs with symbolic ABD (C01)', 'stand-alone component matrices are decided against energies in C02-C04/C12; this check decides the composition',
               'sub-interval additivity lemma (C10) for the skin partition')
    run.outside = ['positive semi-definiteness of the 2-D stiffeners is a composition (component panels: C02/C04; connection blocks = mismatch-energy Hessians, decided here), not a query', 'more than 4 stiffeners / 4 cuts']
    res = pmap(kprop.job, [(__name__, c) for c in cf])
    res = kprop.explore_loci(__name__, res, run)      # second pass: the equality loci the executed code branched on
    for r in res:
        if 'cfg' in r:
            r['cfg'].setdefault('m', 1)
            r['cfg'].setdefault('n', 1)
    kprop.handle(run, res, build, 'entries differ from the sum of the component results at their ranges', signature=signature)
    return run.finish()


def signature(cfg, fam, names):
    if fam == 'flange-section-form-psd':
        return '+'.join(sorted(n.split('[', 1)[1].rstrip(']') for n in names))
    return None


def real_witness(cfg, fam):
    """compiled build (floats): smallest eigenvalue of BladeStiff1D.calc_k0 for flange laminates with and without extension-twist
    coupling (a carbon/epoxy ply; 6 x 6 terms)"""
    if fam != 'flange-section-form-psd':
        return None
    from compmech.stiffpanelbay import StiffPanelBay
    lp = (142.5e9, 8.7e9, 0.28, 5.1e9, 5.1e9, 5.1e9)
    out = {}
    for fstack in ([0, 90, 90, 0], [45, 45], [30, 30, 30, 30]):
        bay = StiffPanelBay()
        bay.a, bay.b, bay.m, bay.n = 2., 1., 6, 6
        bay.stack, bay.plyt, bay.laminaprop, bay.mu = [0, 90, 90, 0], 0.125e-3, lp, 1.3e3
        bay.add_panel(y1=0, y2=0.5)
        bay.add_panel(y1=0.5, y2=1.)
        st = bay.add_bladestiff1d(ys=0.5, bf=0.05, fstack=fstack, fplyt=0.125e-3, flaminaprop=lp, mu=1.3e3)
        st.calc_k0(size=bay.get_size(), row0=0, col0=0, silent=True)
        ev = np.linalg.eigvalsh(st.k0.toarray())
        out[str(fstack)] = {'E1': float(st.E1), 'S1': float(st.S1), 'Jxx': float(st.Jxx), 'E1*Jxx-S1^2': float(st.E1 * st.Jxx - st.S1 ** 2),
                            'min_eigenvalue': float(ev.min()), 'max_eigenvalue': float(ev.max())}
    return out


def real_exception(cfg):
    """the same kind of bay on the compiled build (floats): does the call raise?"""
    if not cfg.get('variant', '').startswith('bay-'):
        return None
    from compmech.stiffpanelbay import StiffPanelBay
    lp = (142.5e9, 8.7e9, 0.28, 5.1e9, 5.1e9, 5.1e9)
    bay = StiffPanelBay()
    bay.a, bay.b, bay.m, bay.n, bay.stack, bay.plyt, bay.laminaprop, bay.mu = 1., 0.5, 4, 4, [0, 90, 0], 1e-3, lp, 1600.
    st = cfg.get('stiffeners', [])
    cuts = [0.] + [0.5 * (k + 1) / (len(st) + 1) for k in range(len(st))] + [0.5]
    try:
        for k in range(len(cuts) - 1):
            bay.add_panel(cuts[k], cuts[k + 1])
        for k, (kind, spec) in enumerate(st):
            ys = cuts[k + 1]
            common = dict(bb=0.05, bstack=[0, 90], bplyts=[1e-3] * 2, blaminaprops=[lp] * 2)
            fl = dict(bf=0.03, fstack=[0, 0], fplyts=[1e-3] * 2, flaminaprops=[lp] * 2)
            if kind == 'B1':
                bay.add_bladestiff1d(ys, **(common if spec.get('base') else {}), **fl)
            elif kind == 'B2':
                bay.add_bladestiff2d(ys, **(common if spec.get('base') else {}), mf=4, nf=4, **(fl if spec.get('flange', True) else {}))
            else:
                bay.add_tstiff2d(ys, mb=4, nb=4, mf=4, nf=4, **common, **fl)
        bay.get_size()
        which = cfg.get('which')
        if which in ('k0', 'kG0', 'kM'):
            getattr(bay, 'calc_' + which)(silent=True)
        if cfg['variant'] == 'bay-fext':
            bay.forces_skin.append([0.3, 0.2, 1., 2., 3.])
            bay.calc_fext(silent=True)
    except Exception as e:
        return '%s: %s' % (type(e).__name__, e)
    return None


def real_typeerror(cfg):
    """the same call on the compiled build (floats): PanelAssembly.calc_fint of two joined plates; returns the TypeError text"""
    if cfg.get('variant') != 'assembly-sum' or cfg.get('which') != 'fint':
        return None
    from compmech.panel import Panel
    from compmech.panel.assembly import PanelAssembly
    ps = []
    for k, (m, n) in enumerate(cfg['panels']):
        p = Panel()
        p.model = 'plate_clt_donnell_bardell'
        p.a, p.b, p.m, p.n = 1., 0.5, m + 3, n + 3
        p.stack, p.plyt, p.laminaprop = [0, 90, 0], 1e-3, (142.5e9, 8.7e9, 0.28, 5.1e9, 5.1e9, 5.1e9)
        ps.append(p)
    conn = [dict(p1=ps[k], p2=ps[k + 1], func='SSycte', ycte1=ps[k].b, ycte2=0.) for k in range(len(ps) - 1)]
    asm = PanelAssembly(ps, conn)
    c = np.linspace(1e-4, 2e-4, asm.get_size())
    try:
        for h in cfg.get('history', ()):
            getattr(asm, 'calc_' + h)(silent=True)
        asm.calc_fint(c, silent=True)
    except TypeError as e:
        return 'TypeError: %s' % e
    return None


def replay(path):
    d = json.load(open(path))
    cfg = d['replay']['cfg']
    if 'compiled_build' in d['replay']:
        r = real_typeerror(cfg)
        print('replay %s on the compiled build: %s' % (cfg, r))
        return 1 if r else 0
    bad, info = kprop.concrete_replay(build, cfg, d['replay'].get('inputs', {}))
    print('replay %s: %d differing entries' % (cfg, len(bad)))
    for b in bad[:10]:
        print('  %s impl=%r oracle=%r' % b)
    return 1 if bad else 0
