"""Run bookkeeping shared by all property checks: tiers, seeds, evidence, known findings, replays, exit codes."""
import os, sys, json, time, hashlib, random

VERIF = os.path.dirname(os.path.dirname(os.path.abspath(__file__)))
REPO = os.environ.get('COMPMECH_REPO', '/repo')
EXIT_OK, EXIT_VIOLATION, EXIT_HARNESS = 0, 1, 2


def sha(path):
    try:
        return hashlib.sha256(open(path, 'rb').read()).hexdigest()[:16]
    except OSError:
        return None


def load_known():
    try:
        k = json.load(open(os.path.join(VERIF, 'KNOWN_FINDINGS.json')))
    except Exception:
        return []
    return k.get('findings', [])


class Run:
    def __init__(self, pid, level, tier=None, explanation=''):
        self.pid = pid
        self.level = level
        self.tier = tier or os.environ.get('VERIF_TIER') or 'quick'
        if self.tier not in ('quick', 'thorough'):
            self.tier = 'quick'
        try:
            self.seed = int(os.environ.get('VERIF_SEED', '0'))
        except ValueError:
            self.seed = 0
        self.rng = random.Random(self.seed)
        self.t0 = time.time()
        self.explanation = explanation
        self.functions = []      # {file, function, sha}
        self.bounds = {}
        self.obligations = 0
        self.discharged = 0
        self.inconclusive = []
        self.canaries = {'expected_sat': 0, 'got_sat': 0}
        self.solver_s = 0.0
        self.queries = 0
        self.samples = []
        self.assumptions = []
        self.stubs = []
        self.outside = []
        self.extra = {}
        self.violations = []     # dicts
        self.known_hits = []
        self.harness_errors = []
        self.groups = {}         # name -> {'obligations':..,'discharged':..}
        self.known = [k for k in load_known() if k.get('property') == pid]

    # ---- recording ------------------------------------------------------------------
    def encoded(self, relpath, function):
        p = os.path.join(REPO, relpath)
        e = {'file': relpath, 'function': function, 'sha256_16': sha(p)}
        if e not in self.functions:
            self.functions.append(e)

    def assume(self, *texts):
        for t in texts:
            if t not in self.assumptions:
                self.assumptions.append(t)

    def sample(self, s, cap=12):
        if len(self.samples) < cap:
            self.samples.append(s)

    def absorb(self, batch, group=None, sample_every=None):
        """take the results of a solve.Batch; returns list of sat results"""
        sats = []
        g = self.groups.setdefault(group or 'all', {'obligations': 0, 'discharged': 0, 'sat': 0, 'unknown': 0})
        for i, r in enumerate(batch.results):
            self.obligations += 1
            g['obligations'] += 1
            if r.verdict == 'unsat':
                self.discharged += 1
                g['discharged'] += 1
            elif r.verdict == 'sat':
                g['sat'] += 1
                sats.append(r)
            else:
                g['unknown'] += 1
                self.inconclusive.append({'name': r.name, 'info': r.info})
        self.solver_s += batch.solver_s
        self.queries += batch.queries
        batch.results = []
        return sats

    def canary(self, got_sat, what=''):
        self.canaries['expected_sat'] += 1
        if got_sat:
            self.canaries['got_sat'] += 1
        else:
            self.harness_errors.append('canary not detected: %s' % what)

    def harness_error(self, text):
        self.harness_errors.append(text)

    # ---- violations --------------------------------------------------------------------
    def violation(self, key, what, replay=None, signature=None):
        """A *replayed* violation.  key identifies the failing input / call site; if KNOWN_FINDINGS lists
        (property, key) it is printed as KNOWN-FINDING, otherwise as VIOLATION.  A recorded finding may carry a
        'signature' (which entries fail and by how much at a fixed exact point): a violation under the same key with
        another signature is a different violation and is reported."""
        for k in self.known:
            if k.get('key') == key:
                if k.get('signature') and signature is not None and signature not in k['signature']:
                    key = key + '/differs-from-recorded-finding'
                    what = what + ' [recorded %s]' % (k['signature'],)
                    break
                if key not in [h['key'] for h in self.known_hits]:
                    self.known_hits.append({'key': key, 'what': what})
                    print('KNOWN-FINDING: property=%s %s [%s]' % (self.pid, k.get('what', what), key), flush=True)
                return False
        if signature is not None:
            what = what + ' [signature %s]' % signature
        d = os.path.join(VERIF, 'replays', self.pid)
        os.makedirs(d, exist_ok=True)
        h = hashlib.sha256((key + json.dumps(replay, sort_keys=True, default=str)).encode()).hexdigest()[:12]
        path = os.path.join(d, '%s.json' % h)
        with open(path, 'w') as f:
            json.dump({'property': self.pid, 'key': key, 'what': what, 'replay': replay}, f, indent=1, default=str)
        if key not in [v['key'] for v in self.violations]:
            print('VIOLATION property=%s replay=%s  # %s: %s' % (self.pid, path, key, what), flush=True)
        self.violations.append({'key': key, 'what': what, 'replay': path})
        return True

    # ---- finishing ----------------------------------------------------------------------
    def finish(self):
        wall = time.time() - self.t0
        cov = {
            'explanation': self.explanation,
            'functions_encoded': self.functions,
            'bounds': self.bounds,
            'obligations': self.obligations,
            'discharged': self.discharged,
            'inconclusive': len(self.inconclusive),
            'inconclusive_items': self.inconclusive[:20],
            'groups': self.groups,
            'canaries': self.canaries,
            'solver_s': round(self.solver_s, 3),
            'queries': self.queries,
            'stubs': self.stubs,
            'outside_claim': self.outside,
            'samples': self.samples if self.samples else ['(none recorded)'],
            'known_findings_reported': self.known_hits,
            'violations_reported': self.violations[:20],
            'harness_errors': self.harness_errors[:20],
            'evaluations': max(self.obligations, 1),
            'distinct_nontrivial': max(self.discharged, 0),
            'rule': 'one obligation = one solver query (negated claim) over the symbolic inputs listed in bounds; distinct by name; non-trivial = decided by the solver as unsat (claims) -- canaries counted separately',
            'trusted_base': ['z3 5.1 (qfnra-nlsat / LRA / LIA)', 'CPython 3.12', 'numpy object arrays', 'vf de-Cythoniser and C-table reader (validated against compiled code each run where current)'],
            'checker_cmd': './check %s --tier %s' % (self.pid, self.tier),
        }
        cov.update(self.extra)
        if self.level == 'model_checking':
            cov.setdefault('states', max(self.obligations, 1))
            cov.setdefault('transitions', max(self.queries, 1))
            cov.setdefault('traces_validated_against_impl', 0)
        if self.level == 'translation_validation':
            cov.setdefault('programs', max(len(self.functions), 1))
            cov.setdefault('disagreements_checked', len(self.violations) + len(self.known_hits))
        ev = {
            'property_id': self.pid, 'tier': self.tier, 'seed': self.seed, 'level': self.level,
            'coverage': cov, 'assumptions': self.assumptions, 'wall_s': round(wall, 2),
            'violations': len(self.violations),
        }
        os.makedirs(os.path.join(VERIF, 'evidence'), exist_ok=True)
        with open(os.path.join(VERIF, 'evidence', '%s.json' % self.pid), 'w') as f:
            json.dump(ev, f, indent=1, default=str)
        for it in self.inconclusive[:10]:
            print('INCONCLUSIVE %s %s' % (self.pid, it['name']))
        print('%s tier=%s obligations=%d discharged=%d inconclusive=%d canaries=%d/%d known=%d violations=%d solver_s=%.1f wall_s=%.1f'
              % (self.pid, self.tier, self.obligations, self.discharged, len(self.inconclusive),
                 self.canaries['got_sat'], self.canaries['expected_sat'], len(self.known_hits),
                 len(self.violations), self.solver_s, wall), flush=True)
        if self.harness_errors:
            for e in self.harness_errors[:10]:
                print('HARNESS-ERROR %s %s' % (self.pid, e))
        if self.violations:
            return EXIT_VIOLATION        # a replayed violation stands, whatever else could not be decided
        if self.harness_errors:
            return EXIT_HARNESS
        if self.obligations and len(self.inconclusive) * 10 > self.obligations:
            print('HARNESS-ERROR %s more than 10%% of the obligations inconclusive' % self.pid)
            return EXIT_HARNESS
        return EXIT_OK


def pmap(fn, jobs, nproc=None):
    """run fn(job) for each job in forked worker processes; results must be picklable (plain data)"""
    import multiprocessing as mp
    nproc = nproc or min(len(jobs), int(os.environ.get('VERIF_NPROC', '0')) or os.cpu_count() or 4)
    if nproc <= 1 or len(jobs) <= 1:
        return [fn(j) for j in jobs]
    ctx = mp.get_context('fork')
    with ctx.Pool(nproc, maxtasksperchild=1) as pool:
        return pool.map(fn, jobs, chunksize=1)


def decide_job(group, obligations, assumptions=(), timeout_ms=60000, sample_names=(), extra=None, tactic='qfnra-nlsat', budget_s=None):
    """worker-side: discharge [(name, lhs, rhs)] identities (or (name, [constraints]) raw obligations);
    returns plain data for Run.absorb_job"""
    from .solve import Batch
    b = Batch(tactic=tactic, timeout_ms=timeout_ms, assumptions=assumptions, budget_s=budget_s)
    for ob in obligations:
        if len(ob) == 3:
            b.add_identity(ob[0], ob[1], ob[2])
        else:
            b.add_unsat(ob[0], ob[1])
    b.run()
    out = {'group': group, 'n': len(b.results), 'unsat': 0, 'sat': [], 'unknown': [], 'solver_s': b.solver_s,
           'queries': b.queries, 'samples': [], 'extra': extra or {}, 'second': dict(b.second)}
    for r in b.results:
        if r.verdict == 'unsat':
            out['unsat'] += 1
        elif r.verdict == 'sat':
            out['sat'].append({'name': r.name, 'model': r.model})
        else:
            out['unknown'].append({'name': r.name, 'info': str(r.info)[:200]})
    for r in b.results[:2]:
        out['samples'].append({'obligation': '%s :: %s' % (group, r.name), 'verdict': r.verdict, 'ms': round(r.ms, 2)})
    return out


def _absorb_job(self, res):
    g = self.groups.setdefault(res['group'], {'obligations': 0, 'discharged': 0, 'sat': 0, 'unknown': 0})
    g['obligations'] += res['n']
    g['discharged'] += res['unsat']
    g['sat'] += len(res['sat'])
    g['unknown'] += len(res['unknown'])
    self.obligations += res['n']
    self.discharged += res['unsat']
    self.solver_s += res['solver_s']
    self.queries += res['queries']
    if res.get('second'):
        acc = self.extra.setdefault('second_opinion_cvc5', {'checked': 0, 'agree': 0, 'disagree': 0, 'no_answer': 0, 'seconds': 0.0,
                                                            'what': 'the first and the middle obligation of every batch are re-decided by cvc5 (QF_NRA) on the SMT-LIB text of the z3 query; a contradiction makes the obligation inconclusive'})
        for k in ('checked', 'agree', 'disagree', 'no_answer', 'seconds'):
            acc[k] = round(acc[k] + res['second'].get(k, 0), 3)
    for u in res['unknown']:
        self.inconclusive.append({'name': '%s :: %s' % (res['group'], u['name']), 'info': u['info']})
    for s in res['samples'][:1]:
        self.sample(s)
    return res['sat']


Run.absorb_job = _absorb_job
