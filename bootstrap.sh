#!/bin/bash
# Idempotent: overlay venv /verif/.venv on top of /venv with z3-solver (+cvc5) from the offline wheelhouse.
set -e
cd "$(dirname "$0")"
V=.venv
if [ ! -x $V/bin/python ] || ! $V/bin/python -c "import z3, numpy, scipy" 2>/dev/null; then
  rm -rf $V
  /venv/bin/python -m venv $V
  SP=$($V/bin/python -c "import site;print(site.getsitepackages()[0])")
  printf '/venv/lib/python3.12/site-packages\n/repo\n' > "$SP/_overlay.pth"
  PIP_NO_INDEX=1 $V/bin/pip install -q --no-index --find-links /opt/veriftools/wheels z3-solver >/dev/null
  PIP_NO_INDEX=1 $V/bin/pip install -q --no-index --find-links /opt/veriftools/wheels cvc5 >/dev/null 2>&1 || true
fi
$V/bin/python -c "import z3, numpy, scipy, compmech; print('bootstrap ok: z3', z3.get_version_string())"
