"""Probe: path-forking symbolic execution by re-execution with decision prefixes (z3 Reals)."""
import z3, time

class Abort(BaseException): pass

class Ctx:
    cur = None
    def __init__(self, timeout_ms=10000):
        self.solver = z3.Solver(); self.solver.set('timeout', timeout_ms)
        self.prefix = []      # decisions to replay
        self.trace = []       # decisions taken in this run
        self.queries = 0
    def decide(self, cond):
        """cond: z3 BoolRef. returns python bool, forking."""
        i = len(self.trace)
        if i < len(self.prefix):
            b, done = self.prefix[i]
            self.solver.add(cond if b else z3.Not(cond))
            self.trace.append((b, done))
            return b
        # new decision: try True first if feasible
        self.queries += 1
        self.solver.push(); self.solver.add(cond); rt = self.solver.check(); self.solver.pop()
        self.queries += 1
        self.solver.push(); self.solver.add(z3.Not(cond)); rf = self.solver.check(); self.solver.pop()
        ft = rt != z3.unsat; ff = rf != z3.unsat
        if ft and ff:
            self.trace.append((True, False))  # False branch still to explore
            self.solver.add(cond); return True
        if ft:
            self.trace.append((True, True)); self.solver.add(cond); return True
        if ff:
            self.trace.append((False, True)); self.solver.add(z3.Not(cond)); return False
        raise Abort('infeasible path')

class B:
    def __init__(s, t): s.t = t
    def __bool__(s): return Ctx.cur.decide(s.t)

def lift(x):
    if isinstance(x, V): return x.t
    if isinstance(x, bool): raise TypeError
    if isinstance(x, int): return z3.RealVal(x)
    if isinstance(x, float):
        from fractions import Fraction
        f = Fraction(repr(x)); return z3.Q(f.numerator, f.denominator)
    raise TypeError(type(x))

class V:
    """symbolic real with inert formatting"""
    def __init__(s, t): s.t = t
    def __format__(s, spec): return '<sym>'
    def __str__(s): return '<sym>'
    def __add__(s, o): return V(s.t + lift(o))
    __radd__ = __add__
    def __sub__(s, o): return V(s.t - lift(o))
    def __rsub__(s, o): return V(lift(o) - s.t)
    def __mul__(s, o): return V(s.t * lift(o))
    __rmul__ = __mul__
    def __truediv__(s, o): return V(s.t / lift(o))
    def __rtruediv__(s, o): return V(lift(o) / s.t)
    def __neg__(s): return V(-s.t)
    def __abs__(s): return V(z3.If(s.t >= 0, s.t, -s.t))
    def __lt__(s, o): return B(s.t < lift(o))
    def __le__(s, o): return B(s.t <= lift(o))
    def __gt__(s, o): return B(s.t > lift(o))
    def __ge__(s, o): return B(s.t >= lift(o))

def explore(fn, max_paths=10**6, timeout_ms=10000):
    """fn(ctx) runs one path. returns (#paths, results)"""
    prefix = []
    n = 0; results = []
    t0 = time.time(); queries = 0
    while True:
        ctx = Ctx(timeout_ms); ctx.prefix = prefix; Ctx.cur = ctx
        try:
            r = fn(ctx)
            results.append(r)
        except Abort:
            pass
        n += 1; queries += ctx.queries
        # next prefix: flip last decision with unexplored alternative
        tr = [(b, done) for b, done in ctx.trace]
        while tr and tr[-1][1]: tr.pop()
        if not tr or n >= max_paths: break
        b, _ = tr[-1]
        prefix = tr[:-1] + [(not b, True)]
        # mark flipped as done: handled because replayed prefix decisions are marked done
    return n, results, queries, time.time()-t0
