"""Sparse multivariate polynomials over Q (exact).  Used by the C-table reader (E2) and the oracles (E5).
Monomial = tuple of (varname, exp) sorted by varname; polynomial = {monomial: Fraction}."""
from fractions import Fraction


class Poly:
    __slots__ = ('t',)

    def __init__(self, t=None):
        self.t = t if t is not None else {}

    @staticmethod
    def const(c):
        c = Fraction(c)
        return Poly({(): c} if c != 0 else {})

    @staticmethod
    def var(name, k=1):
        return Poly({((name, k),): Fraction(1)}) if k else Poly.const(1)

    @staticmethod
    def lift(x):
        return x if isinstance(x, Poly) else Poly.const(x)

    def is_zero(self):
        return not self.t

    def __add__(self, o):
        o = Poly.lift(o)
        t = dict(self.t)
        for m, c in o.t.items():
            v = t.get(m, 0) + c
            if v == 0:
                t.pop(m, None)
            else:
                t[m] = v
        return Poly(t)
    __radd__ = __add__

    def __neg__(self):
        return Poly({m: -c for m, c in self.t.items()})

    def __sub__(self, o):
        return self + (-Poly.lift(o))

    def __rsub__(self, o):
        return Poly.lift(o) + (-self)

    @staticmethod
    def _mm(m1, m2):
        if not m1:
            return m2
        if not m2:
            return m1
        d = dict(m1)
        for v, e in m2:
            d[v] = d.get(v, 0) + e
        return tuple(sorted(d.items()))

    def __mul__(self, o):
        o = Poly.lift(o)
        t = {}
        for m1, c1 in self.t.items():
            for m2, c2 in o.t.items():
                m = Poly._mm(m1, m2)
                v = t.get(m, 0) + c1 * c2
                if v == 0:
                    t.pop(m, None)
                else:
                    t[m] = v
        return Poly(t)
    __rmul__ = __mul__

    def __pow__(self, k):
        assert isinstance(k, int) and k >= 0
        r = Poly.const(1)
        b = self
        while k:
            if k & 1:
                r = r * b
            k >>= 1
            if k:
                b = b * b
        return r

    def scale(self, c):
        c = Fraction(c)
        return Poly({m: v * c for m, v in self.t.items()}) if c != 0 else Poly()

    def __truediv__(self, o):
        if isinstance(o, Poly):
            assert list(o.t.keys()) == [()], 'division by non-constant polynomial'
            o = o.t[()]
        return self.scale(Fraction(1) / Fraction(o))

    def diff(self, v):
        t = {}
        for m, c in self.t.items():
            d = dict(m)
            e = d.get(v, 0)
            if e == 0:
                continue
            if e == 1:
                del d[v]
            else:
                d[v] = e - 1
            t[tuple(sorted(d.items()))] = c * e
        return Poly(t)

    def antiderivative(self, v):
        t = {}
        for m, c in self.t.items():
            d = dict(m)
            e = d.get(v, 0)
            d[v] = e + 1
            t[tuple(sorted(d.items()))] = c / (e + 1)
        return Poly(t)

    def subs(self, v, p):
        """substitute variable v by polynomial / number p"""
        p = Poly.lift(p)
        out = Poly()
        cache = {0: Poly.const(1)}
        for m, c in self.t.items():
            d = dict(m)
            e = d.pop(v, 0)
            rest = Poly({tuple(sorted(d.items())): c})
            if e not in cache:
                cache[e] = p ** e
            out = out + rest * cache[e]
        return out

    def integrate(self, v, lo, hi):
        F = self.antiderivative(v)
        return F.subs(v, hi) - F.subs(v, lo)

    def eval(self, env):
        s = Fraction(0)
        for m, c in self.t.items():
            x = c
            for v, e in m:
                x *= Fraction(env[v]) ** e
            s += x
        return s

    def evalf(self, env):
        s = 0.0
        for m, c in self.t.items():
            x = float(c)
            for v, e in m:
                x *= float(env[v]) ** e
            s += x
        return s

    def vars(self):
        s = set()
        for m in self.t:
            for v, _ in m:
                s.add(v)
        return s

    def abs_coef_sum(self):
        return sum(abs(c) for c in self.t.values())

    def degree(self, v=None):
        if not self.t:
            return 0
        if v is None:
            return max(sum(e for _, e in m) for m in self.t)
        return max(dict(m).get(v, 0) for m in self.t)

    def __eq__(self, o):
        return (self - Poly.lift(o)).is_zero()

    def __repr__(self):
        if not self.t:
            return '0'
        items = sorted(self.t.items(), key=lambda kv: (sum(e for _, e in kv[0]), kv[0]))
        return ' + '.join('%s%s' % (c, ''.join('*%s^%d' % ve for ve in m)) for m, c in items[:12]) + (' + ...' if len(items) > 12 else '')


def z3_to_poly(t, _cache=None):
    """debug/replay helper: expand a z3 real polynomial term into a Poly (variables named by their z3 names)"""
    import z3
    if _cache is None:
        _cache = {}
    k = t.get_id()
    if k in _cache:
        return _cache[k]
    if z3.is_rational_value(t):
        r = Poly.const(Fraction(t.numerator_as_long(), t.denominator_as_long()))
    elif z3.is_int_value(t):
        r = Poly.const(t.as_long())
    elif z3.is_add(t):
        r = Poly()
        for c in t.children():
            r = r + z3_to_poly(c, _cache)
    elif z3.is_mul(t):
        r = Poly.const(1)
        for c in t.children():
            r = r * z3_to_poly(c, _cache)
    elif z3.is_sub(t):
        ch = t.children()
        r = z3_to_poly(ch[0], _cache)
        for c in ch[1:]:
            r = r - z3_to_poly(c, _cache)
    elif z3.is_app_of(t, z3.Z3_OP_UMINUS):
        r = -z3_to_poly(t.arg(0), _cache)
    elif z3.is_const(t):
        r = Poly.var(t.decl().name())
    else:
        raise ValueError('z3_to_poly: unsupported term %s' % t.decl().name())
    _cache[k] = r
    return r
