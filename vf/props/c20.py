"""C20 -- Results depend on the model definition only, not on call history.

E4: bounded call histories over symbolic objects.  A freshly defined Panel (PanelAssembly, StiffPanelBay) with symbolic
definition is driven through every sequence  [first-op] ; [redefinition] ; last-op  over the public alphabet; the result of
the last call must be the same term, entry by entry (z3 identity), as on a twin object that has the final definition and
is asked for the last quantity FIRST.  An exception on the fresh twin violates 'each quantity can be requested first'.
Caller-supplied arrays are compared by identity and content before/after every call."""
import json, itertools, traceback, zlib
import numpy as np
import z3
from fractions import Fraction
from ..harness import Run, pmap
from .. import kprop
from ..sym import Sym, CSym
from ..panelsym import PanelCtx, sym_ABD, FakeLam
from ..eigstubs import EigWorld


def flat(x, prefix=''):
    """flatten a result into {name: Sym}"""
    out = {}
    if x is None:
        return out
    if hasattr(x, 'todict'):
        for (r, c), v in x.todict().items():
            if isinstance(v, CSym):
                out['%s[%d,%d].re' % (prefix, r, c)] = v.re
                out['%s[%d,%d].im' % (prefix, r, c)] = v.im
            else:
                out['%s[%d,%d]' % (prefix, r, c)] = v
        out['%s.shape0' % prefix] = x.shape[0]
        return out
    if isinstance(x, dict):
        for k, v in x.items():
            out.update(flat(v, '%s.%s' % (prefix, k)))
        return out
    if isinstance(x, (tuple, list)):
        for i, v in enumerate(x):
            out.update(flat(v, '%s.%d' % (prefix, i)))
        return out
    if isinstance(x, np.ndarray):
        for idx, v in np.ndenumerate(x):
            out['%s%s' % (prefix, list(idx))] = v
        out['%s.size' % prefix] = x.size
        return out
    out[prefix] = x
    return out


class World:
    def __init__(self, values=None, seed=0):
        self.ctx = PanelCtx(values=values, seed=seed)

    def panel(self, model, m, n, defn):
        ctx = self.ctx
        p = ctx.new_panel(model, m, n)
        p._verif_defn = dict(defn)
        self.apply_defn(p, defn)
        return p

    def apply_defn(self, p, defn):
        ctx = self.ctx
        for k, v in defn.items():
            if k == 'lam':
                lam = FakeLam()
                lam.ABD = sym_ABD(v + '_', ctx.V)
                lam.t = p._verif_lam.t
                lam.h = lam.t
                p.stack = list(p.stack)           # a new stacking sequence object = a redefinition of the laminate
                ctx.lam_for[id(p.stack)] = lam
                ctx._keep = getattr(ctx, '_keep', []) + [p.stack]
                p._verif_lam = lam
            elif k == 'alphadeg':
                from ..panelsym import AngleTok
                p.alphadeg = AngleTok('deg', v)          # another cone angle: its own sin/cos atoms
            else:
                setattr(p, k, ctx.V(v) if isinstance(v, str) else v)


PTS = 2


def ops_panel(w, p):
    """public alphabet: name -> callable returning the observable result"""
    ctx = w.ctx
    size = 3 * p.m * p.n
    c = np.zeros(size, dtype=object)
    for k in range(size):
        c[k] = ctx.V('c%d' % k)
    xs = np.array([ctx.V('px%d' % k) for k in range(PTS)], dtype=object)
    ys = np.array([ctx.V('py%d' % k) for k in range(PTS)], dtype=object)
    guard = {'c': (c, c.copy()), 'xs': (xs, xs.copy()), 'ys': (ys, ys.copy())}

    def kA():
        p.beta, p.gamma = ctx.V('beta'), None
        return p.calc_kA(silent=True)

    def cA():
        p.calc_cA(ctx.V('aeromu'), silent=True)
        return p.cA

    def fext():
        if not p.forces:
            p.add_force(ctx.V('Fx'), ctx.V('Fy'), ctx.V('fx'), ctx.V('fy'), ctx.V('fz'))
            p.add_force(ctx.V('Gx'), ctx.V('Gy'), ctx.V('gx'), ctx.V('gy'), ctx.V('gz'), cte=False)
        return p.calc_fext(inc=ctx.V('inc'), silent=True)

    def lb():
        W = EigWorld(ctx.V)
        import compmech.panel._panel as pn
        saved = pn.eigsh
        pn.eigsh = W.eigsh
        try:
            p.num_eigvalues = 1
            p.lb(silent=True)
        finally:
            pn.eigsh = saved
        call = W.calls[0]
        return {'A': call['A'], 'M': call['M']}

    def freq():
        W = EigWorld(ctx.V)
        import compmech.panel._panel as pn
        saved = pn.eigs
        pn.eigs = W.eigs
        hook = Sym.SQRT_HOOK
        Sym.SQRT_HOOK = lambda x: x
        try:
            p.num_eigvalues = 1
            try:
                p.freq(atype=4, silent=True, sort=False)
            except TypeError:
                pass
        finally:
            pn.eigs = saved
            Sym.SQRT_HOOK = hook
        call = W.calls[0]
        return {'A': call['A'], 'M': call['M']}

    def plot():
        # Panel.plot with a deformed contour on caller-supplied grids; matplotlib replaced by an inert stand-in (what is drawn is not
        # the subject: what the call does to the object and to the caller's arrays is)
        import sys, types

        class Inert:
            def __getattr__(self, name):
                return Inert()

            def __call__(self, *a, **k):
                return Inert()
        fakes = {'matplotlib': types.ModuleType('matplotlib'), 'matplotlib.pyplot': types.ModuleType('matplotlib.pyplot')}
        fakes['matplotlib'].axes = Inert()
        fakes['matplotlib'].pyplot = fakes['matplotlib.pyplot']
        for nm_ in ('figure', 'colorbar', 'close', 'savefig'):
            setattr(fakes['matplotlib.pyplot'], nm_, Inert())
        saved = {k_: sys.modules.get(k_) for k_ in fakes}
        sys.modules.update(fakes)
        try:
            p.plot(c, xs=xs, ys=ys, deform_u=True, deform_u_sf=ctx.V('deform_sf'), vecmin=0., vecmax=1., num_levels=2, save=False)
        finally:
            for k_, v_ in saved.items():
                if v_ is None:
                    sys.modules.pop(k_, None)
                else:
                    sys.modules[k_] = v_
        return {}

    table = {
        'plot': plot,
        'get_size': lambda: p.get_size(),
        'calc_k0': lambda: p.calc_k0(silent=True),
        'calc_kG0': lambda: p.calc_kG0(silent=True),
        'calc_kM': lambda: p.calc_kM(silent=True),
        'calc_kA': kA,
        'calc_cA': cA,
        'calc_fext': fext,
        'calc_fint': lambda: p.calc_fint(c, nx=1, ny=1, silent=True),
        'calc_kT': lambda: p.calc_kT(c=c, nx=1, ny=1, silent=True),
        'uvw': lambda: p.uvw(c, xs=xs, ys=ys),
        'strain': lambda: {k: v for k, v in p.strain(c, xs=xs, ys=ys, NLterms=False).items()},
        'stress': lambda: {k: v for k, v in p.stress(c, xs=xs, ys=ys, NLterms=False).items()},
        'lb': lb,
        'freq': freq,
    }
    if p.model is not None and 'kpanel' in str(p.model) or getattr(p, 'alphadeg', None) is not None:
        for k in ('calc_kA', 'calc_cA', 'calc_fint', 'calc_kT', 'strain', 'stress', 'uvw', 'freq', 'plot'):
            table.pop(k, None)
    return table, guard


REDEF = {'Nxx0': {'Nxx': 0., 'Nxy': 0.}, 'offset0': {'offset': 0.}, 'none': {}, 'mu': {'mu': 'mu2'}, 'a': {'a': 'a2'}, 'Nxx': {'Nxx': 'Nxx2'}, 'lam': {'lam': 'F2'}, 'offset': {'offset': 'd2'},
         'flag': {'w1rx': 'w1rx2'}, 'b': {'b': 'b2'}, 'r': {'r': 'r2'}, 'Nxy': {'Nxy': 'Nxy2', 'Nyy': 'Nyy2'}, 'order': {'n': 2}, 'alpha': {'alphadeg': 'alpha2'}}


DEFN_ATTRS = ['a', 'b', 'r', 'alphadeg', 'stack', 'plyt', 'plyts', 'laminaprop', 'laminaprops', 'mu', 'offset', 'Nxx', 'Nyy', 'Nxy',
              'Nxx_cte', 'Nyy_cte', 'Nxy_cte', 'm', 'n', 'nx', 'ny', 'y1', 'y2', 'model', 'flow', 'Mach', 'V', 'rho_air', 'speed_sound',
              'force_orthotropic_laminate'] + [c_ + e_ + d_ for c_ in 'uvw' for e_ in ('1t', '1r', '2t', '2r') for d_ in 'xy']


def snapshot(p):
    out = {}
    for nm in DEFN_ATTRS:
        v = getattr(p, nm, None)
        out[nm] = (v, list(v) if isinstance(v, list) else None)
    return out


def definition_changes(p, snap):
    """names of definition attributes an evaluation method has changed (None and 0 count as the same 'absent' value)"""
    bad = []
    for nm, (v0, l0) in snap.items():
        v1 = getattr(p, nm, None)
        if v1 is v0:
            if l0 is not None and (len(v1) != len(l0) or any(a is not b and a != b for a, b in zip(v1, l0))):
                bad.append(nm + ' (list edited in place)')
            continue
        absent = lambda x: x is None or (isinstance(x, (int, float)) and x == 0)
        if absent(v0) and absent(v1):
            continue
        if isinstance(v0, (int, float, str, bool)) and isinstance(v1, (int, float, str, bool)) and v0 == v1:
            continue
        if isinstance(v0, Sym) and isinstance(v1, Sym) and v0.same(v1):
            continue
        bad.append(nm)
    return bad


def works_after_other_calls(w, model, m, n, base, op):
    """does the request succeed on an object of the same definition once the matrices were evaluated?  (an exception that occurs in
    every history is not a dependence on the history)"""
    q = w.panel(model, m, n, base)
    q.out_num_cores = 1
    t, _ = ops_panel(w, q)
    try:
        for pre in ('calc_k0', 'calc_kG0', 'calc_kM'):
            t[pre]()
        t[op]()
        return True
    except Exception:
        return False


def build(cfg, values=None):
    if cfg.get('shell_threads'):
        # complete shells, non-linear quantities: the integration grid handed to the kernels is the one of the definition whatever the
        # number of integration threads, and tangent / internal force stay consistent (harness shared with C17)
        from . import c17
        return c17.build(dict(cfg, variant='api'), values)
    if cfg.get('shell_history'):
        # complete shells: the stored reduced stiffness handed to the static analyses follows the CURRENT definition (harness shared with C16)
        from . import c16
        return c16.build(dict(cfg, variant='history', via='calc_k0'), values)
    if cfg.get('shell'):
        # complete shells: the laminate matrix handed to the kernels and the geometric stiffness do not depend on how many times
        # the linear matrices were evaluated (harness shared with C16)
        from . import c16
        return c16.build(dict(cfg, variant='split'), values)
    if cfg.get('shell_full_c'):
        # complete shells: the amplitude vector handed to calc_full_c (the entry of every field query) is not modified and the
        # same request gives the same vector again (harness shared with C18)
        from . import c18
        obs, assumptions, info = c18.build(dict(cfg, variant='partition'), values)
        return [o for o in obs if o[0].startswith(('caller-', 'full-c-of-full-vector-call'))], assumptions, info
    if cfg.get('bay'):
        return build_bay(cfg, values)
    model, m, n = cfg['model'], cfg['m'], cfg['n']
    first, redef, last = cfg['first'], cfg['redef'], cfg['last']
    w = World(values, cfg.get('seed', 0))
    ctx = w.ctx
    obs = []
    base = {'Nxx': 'Nxx', 'Nyy': 'Nyy', 'Nxy': 'Nxy', 'offset': 'd'}
    if cfg.get('preload'):
        base = dict(base, Nxx_cte='Nxx_cte', Nxy_cte='Nxy_cte')      # a constant pre-load besides the reference load
    with ctx.shadow():
        if model == 'kpanel':
            ctx.override_sections(1)
        p_loaded = p = w.panel(model, m, n, base)
        p.out_num_cores = 1
        # history: first ; redefinition ; last
        t1, g1 = ops_panel(w, p)
        if first != '-':
            try:
                t1[first]()
            except Exception as e:
                if not works_after_other_calls(w, model, m, n, base, first):
                    raise       # the request fails in every history at this size (e.g. ARPACK needs k < N): a limit of the bound, not a history effect
                obs.append(('requested-first-on-a-fresh-object[%s]' % first, Sym.lift(1), Sym.lift(0)))
        if redef != 'none':
            w.apply_defn(p, REDEF[redef])
            if redef == 'order':
                t1, g1 = ops_panel(w, p)       # the caller supplies vectors of the new size
        snap = snapshot(p)
        if last in ('calc_kA', 'calc_cA'):
            snap.pop('r', None)
        # the matrix an earlier request stored on the object is not replaced by a later request for ANOTHER matrix
        OWNED = {'calc_k0': 'k0', 'calc_kG0': 'kG0', 'calc_kM': 'kM'}
        stored = None
        if first in OWNED and last in OWNED and last != first and redef == 'none' and getattr(p, OWNED[first], None) is not None:
            stored = dict(getattr(p, OWNED[first]).todict())
        r_hist = flat(t1[last](), last)
        if stored is not None:
            now = getattr(p, OWNED[first]).todict()
            for k in sorted(set(stored) | set(now)):
                obs.append(('stored-%s-unchanged-by-%s[%d,%d]' % (OWNED[first], last, k[0], k[1]), now.get(k, 0), stored.get(k, 0)))
        for nm in definition_changes(p, snap):
            if nm in ('model',) and snap['model'][0] is None:
                continue
            obs.append(('definition-attribute-unchanged-by-%s[%s]' % (last, nm), Sym.lift(1), Sym.lift(0)))
        for nm, (arr, copy) in g1.items():
            for k in range(len(arr)):
                if arr[k] is not copy[k]:
                    obs.append(('caller-array-%s-unchanged[%d]' % (nm, k), Sym.lift(1), Sym.lift(0)))
        # twin: fresh object carrying the final definition, last op requested first
        q = w.panel(model, m, REDEF[redef].get('n', n), base)
        q.out_num_cores = 1
        if redef != 'none':
            w.apply_defn(q, REDEF[redef])
            if redef == 'lam':
                q._verif_lam.ABD = p._verif_lam.ABD
        t2, g2 = ops_panel(w, q)
        try:
            r_fresh = flat(t2[last](), last)
        except Exception as e:
            if redef == 'none' and not works_after_other_calls(w, model, m, n, base, last):
                raise
            obs.append(('requested-first-on-a-fresh-object[%s]' % last, Sym.lift(1), Sym.lift(0)))
            r_fresh = None
            info_exc = '%s: %s' % (type(e).__name__, str(e)[:160])
        if r_fresh is not None:
            for k in sorted(set(r_hist) | set(r_fresh)):
                a, b = r_hist.get(k, 0), r_fresh.get(k, 0)
                if isinstance(a, (int, float, Fraction, Sym, np.integer, np.floating)) and isinstance(b, (int, float, Fraction, Sym, np.integer, np.floating)):
                    obs.append(('%s' % k if '[' in k else '%s[]' % k, a, b))
    info = {'values': {k: str(v) for k, v in ctx.used_values.items()}, 'stats': {}}
    return obs, [], info


BAY_REDEF = {'none': {}, 'bb': {'bb0': 'bb0_new'}, 'bf': {'bf0': 'bf0_new'}, 'mu_s': {'mu_s0': 'mu_s0_new'}, 'bt': {'bt0': 'bt0_new'}, 'ft': {'ft0': 'ft0_new'}}


def build_bay(cfg, values=None):
    """stiffened bay: first-op ; redefinition of a stiffener attribute ; last-op  ==  a bay built from the start with the final
    definition and asked for the last quantity first"""
    from . import c13
    from ..panelsym import PanelCtx
    ctx = PanelCtx(values=values, seed=cfg.get('seed', 0))
    obs = []
    first, redef, last = cfg['first'], cfg['redef'], cfg['last']
    pol = c13.BayPolicy()
    with ctx.shadow(extra_stubs=c13.stiff_stubs(ctx), policy=pol):
        def loads(bay, comps):
            for p in bay.panels:
                p.Nxx, p.Nyy, p.Nxy = ctx.V('Nxx'), ctx.V('Nyy'), ctx.V('Nxy')
            for kind, s in comps:
                if kind == 'B1':
                    s.Fx = ctx.V('Fx0')
        bay, comps = c13.make_bay(ctx, cfg)
        loads(bay, comps)
        if first != '-':
            getattr(bay, 'calc_' + first)(silent=True)
        kind, s = comps[0]
        for old, new in BAY_REDEF[redef].items():
            attr = {'bb0': 'bb', 'bf0': 'bf', 'mu_s0': 'mu'}.get(old)
            if attr is not None:
                setattr(s, attr, ctx.V(new))
            elif old == 'bt0':
                s.bplyts = [ctx.V(new)]
            elif old == 'ft0':
                s.fplyts = [ctx.V(new), ctx.V(new)]
        r_hist = flat(getattr(bay, 'calc_' + last)(silent=True), last)
        bay2, comps2 = c13.make_bay(ctx, dict(cfg, rename=BAY_REDEF[redef]), stacks={q: s_._verif_stacks for q, (_, s_) in enumerate(comps)})
        loads(bay2, comps2)
        r_fresh = flat(getattr(bay2, 'calc_' + last)(silent=True), last)
        for k in sorted(set(r_hist) | set(r_fresh)):
            a, b = r_hist.get(k, 0), r_fresh.get(k, 0)
            if isinstance(a, (int, float, Fraction, Sym, np.integer, np.floating)) and isinstance(b, (int, float, Fraction, Sym, np.integer, np.floating)):
                obs.append(('%s' % k if '[' in k else '%s[]' % k, a, b))
    info = {'values': {k: str(v) for k, v in ctx.used_values.items()}, 'stats': {}}
    return obs, [], info


def configs(tier, seed):
    out = []
    quick = tier == 'quick'
    ops = ['get_size', 'calc_k0', 'calc_kG0', 'calc_kM', 'calc_kA', 'calc_cA', 'calc_fext', 'calc_fint', 'calc_kT', 'uvw', 'strain', 'stress', 'lb', 'freq']
    models = ['plate', 'cpanel'] if quick else ['plate', 'cpanel', 'plate_w']
    import random
    rnd = random.Random(seed)
    for model in models:
        mm = 3 if model == 'plate_w' else 2      # one displacement component only: the eigen-solvers need k < N - 1
        mops = [o for o in ops if not (model == 'plate_w' and o in ('calc_fint', 'calc_kT', 'strain', 'stress', 'calc_fext'))]
        for last in mops:
            out.append({'model': model, 'm': mm, 'n': 1, 'first': '-', 'redef': 'none', 'last': last, 'group': 'fresh-first:%s' % model})
            firsts = mops if not quick else [o for o in mops if (zlib.crc32(('%s;%s;%d' % (o, last, seed)).encode()) % 3 == 0) or o in ('calc_k0', last)]
            for first in firsts:
                out.append({'model': model, 'm': mm, 'n': 1, 'first': first, 'redef': 'none', 'last': last, 'group': 'pair:%s' % model})
            for redef in ('mu', 'a', 'Nxx', 'lam', 'offset', 'flag', 'b', 'Nxy', 'order', 'Nxx0', 'offset0') + (('r',) if model == 'cpanel' else ()):
                fs = [last, 'calc_k0'] if quick else [last, 'calc_k0', 'freq', 'lb', 'calc_kM']
                if quick and redef in ('b', 'Nxy', 'order', 'r', 'Nxx0', 'offset0'):
                    fs = ['calc_k0']
                for first in sorted(set(fs) & set(mops)):
                    out.append({'model': model, 'm': mm, 'n': 1, 'first': first, 'redef': redef, 'last': last, 'group': 'redefinition-%s:%s' % (redef, model)})
    # with a constant pre-load: the stored matrices of earlier requests survive later requests for other matrices
    for model in ('plate', 'cpanel'):
        for first, last in (('calc_kG0', 'calc_k0'), ('calc_k0', 'calc_kG0'), ('calc_kM', 'calc_k0'), ('calc_kG0', 'calc_kM')):
            out.append({'model': model, 'm': 2, 'n': 1, 'first': first, 'redef': 'none', 'last': last, 'preload': True, 'group': 'pair-with-constant-preload:%s' % model})
    # a plot (deformed contour on the caller's own grid) before a field query on the same grid
    for model in ('plate', 'cpanel'):
        for last in ('uvw', 'strain', 'calc_k0'):
            out.append({'model': model, 'm': 2, 'n': 1, 'first': 'plot', 'redef': 'none', 'last': last, 'group': 'pair-after-plot:%s' % model})
    # conical panel: the matrices follow the current cone angle / radius, whichever matrix is asked for first
    kops = ['get_size', 'calc_k0', 'calc_kG0', 'calc_kM']
    for last in kops:
        out.append({'model': 'kpanel', 'm': 2, 'n': 1, 'first': '-', 'redef': 'none', 'last': last, 'group': 'fresh-first:kpanel'})
        for redef in ('alpha', 'r', 'a'):
            for first in sorted({last, 'calc_k0'} if quick else set(kops)):
                out.append({'model': 'kpanel', 'm': 2, 'n': 1, 'first': first, 'redef': redef, 'last': last, 'group': 'redefinition-%s:kpanel' % redef, 'timeout_ms': 180000})
    for c in out:
        c['variant'] = '%s;%s;%s' % (c['first'], c['redef'], c['last'])
    for model in ('clpt_donnell_bc1', 'fsdt_donnell_bc1', 'fsdt_donnell_bc4'):
        for cone in (True, False):
            out.append({'shell': True, 'model': model, 'mn': (2, 2, 1), 's': 1, 'cone': cone, 'm': 2, 'n': 1, 'variant': 'shell-repeated-evaluation',
                        'group': 'shell-repeated-evaluation:%s' % model, 'first': '-', 'redef': 'none', 'last': '_calc_linear_matrices', 'timeout_ms': 180000})
    for tag, red in (('other-radius-and-length', ({'r2': 'r2_before', 'L': 'L_before'}, {'r2': 'r2', 'L': 'L'})), ('cylinder-to-cone', ({'alphadeg': 0.}, {'alphadeg': 'alphadeg'})),
                     ('other-thickness', ({'plyt': 'plyt_before'}, {'plyt': 'plyt', 'plyts': 'EMPTY'})),
                     ('prescribed-rotation-set-later', ({'thetaTdeg': 0., 'uTM': 0.}, {'thetaTdeg': 'thetaTdeg'})),
                     ('axial-load-removed', ({'Fc': 'Fc_before'}, {'Fc': 0.})),
                     ('other-ply-thickness-list', ({'plyts': ['plyt_before']}, {'plyts': ['plyt']})),
                     ('other-ply-material-list', ({'laminaprops': [('E_before', 'E_before', 0.3)]}, {'laminaprops': [('E_now', 'E_now', 0.3)]}))):
        out.append({'shell_history': True, 'model': 'clpt_donnell_bc1', 'mn': (2, 2, 1), 's': 1, 'cone': True, 'redefine': red, 'm': 2, 'n': 1, 'variant': 'shell-calc_k0-after-redefinition',
                    'first': 'calc_k0', 'redef': tag, 'last': 'calc_k0', 'group': 'shell-redefinition-%s:calc_k0' % tag, 'timeout_ms': 180000})
    for grid in ((3, 8, 5), (7, 9, 4)):
        out.append({'shell_threads': True, 'model': 'clpt_donnell_bc1', 'mn': (2, 2, 1), 'cone': True, 'pd': (False, False, True), 'grid': grid, 'm': 2, 'n': 1,
                    'variant': 'shell-threads', 'first': '-', 'redef': 'none', 'last': 'calc_kT', 'group': 'shell-integration-grid:%d-threads-%dx%d' % grid, 'timeout_ms': 600000})
    for pd in ((True, True, True), (True, False, True), (False, True, True)):
        out.append({'shell_full_c': True, 'pd': pd, 'mn': (1, 1, 1), 'm': 1, 'n': 1, 'variant': 'shell-amplitude-vector', 'first': '-', 'redef': 'none', 'last': 'calc_full_c',
                    'group': 'shell-amplitude-vector:pdC=%d,pdT=%d' % pd[:2]})
    # stiffened bay with a 1-D blade stiffener (base + flange): redefinition of stiffener attributes between two evaluations
    st = [('B1', {'base': True})]
    for last in ('k0', 'kM', 'kG0'):
        for redef in (('bb', 'mu_s', 'bf') if quick else ('none', 'bb', 'bf', 'mu_s', 'bt', 'ft')):
            for first in sorted({last, 'k0'}):
                out.append({'bay': True, 'stiffeners': st, 'm': 2, 'n': 1, 'first': first, 'redef': redef, 'last': last, 'variant': 'bay:%s;%s;%s' % (first, redef, last),
                            'group': 'bay-redefinition-%s:bladestiff1d' % redef, 'timeout_ms': 180000})
    out[1]['canary'] = True
    return out


def main():
    run = Run('C20', 'other', explanation=(
        'Bounded call-history verification on symbolic objects: for every sequence [first op] ; [redefinition of one definition '
        'attribute] ; last op over the public alphabet of Panel (matrices, force vectors, field recovery, buckling/frequency analyses '
        'with stubbed solvers) the result of the last call is proved (z3 identity per entry) equal to that of a fresh twin object with '
        'the final definition asked for that quantity first; exceptions on the fresh twin and modified caller arrays are violations.'))
    run.encoded('compmech/panel/_panel.py', 'Panel.* (public evaluation methods)')
    cf = configs(run.tier, run.seed)
    run.bounds = {'history_length': '<= 2 calls + 1 redefinition', 'alphabet': sorted({c['last'] for c in cf}), 'redefinitions': sorted(REDEF), 'models': sorted({str(c.get('model', 'stiffened bay (BladeStiff1D)')) for c in cf}),
                  'configurations': len(cf)}
    run.assume('series orders m=2, n=1', 'eigen-solvers stubbed: the matrices handed to the solver are the observable', 'thread-count independence: only what is arithmetic (chunk partitions, C11)')
    run.encoded('compmech/conecyl/conecyl.py', 'ConeCyl._calc_linear_matrices (repeated evaluation), calc_k0 (stored matrices after a redefinition), calc_full_c (caller vector unchanged, repeated request)')
    run.encoded('compmech/stiffpanelbay/stiffpanelbay.py', 'StiffPanelBay.calc_k0, calc_kG0, calc_kM (after re-definition of a stiffener)')
    run.encoded('compmech/stiffener/bladestiff1d.py', 'BladeStiff1D._rebuild, calc_k0, calc_kG0, calc_kM')
    run.outside = ['OpenMP races (the chunking is executed sequentially)', 'ConeCyl histories beyond those listed', 'what a plot draws', 'histories longer than the bound']
    res = pmap(kprop.job, [(__name__, c) for c in cf])
    res = kprop.explore_loci(__name__, res, run)      # second pass: the equality loci the executed code branched on
    for r in res:
        if 'cfg' in r:
            r['cfg'].setdefault('m', 2)
            r['cfg'].setdefault('n', 1)
    kprop.handle(run, res, build, 'values depend on the call history')
    return run.finish()


def replay(path):
    d = json.load(open(path))
    cfg = d['replay']['cfg']
    bad, info = kprop.concrete_replay(build, cfg, d['replay'].get('inputs', {}))
    print('replay %s: %d differing entries' % (cfg, len(bad)))
    for b in bad[:10]:
        print('  %s impl=%r oracle=%r' % b)
    return 1 if bad else 0
