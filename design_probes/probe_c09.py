import sys, time
import os; sys.path.insert(0, os.path.dirname(os.path.abspath(__file__))); sys.path.insert(0, '/repo')
import z3
from fork import *
import importlib.util, types
# load newton_raphson source with stubbed imports (no numpy/scipy needed)
src = open('/repo/compmech/analysis/newton_raphson.py').read()
src = src.replace('import numpy as np', '').replace('from compmech.logger import msg, warn', '').replace('from compmech.sparse import solve', '')
mod = types.ModuleType('nr')

class Vec:
    """opaque vector token"""
    cnt = 0
    def __init__(s, desc): Vec.cnt += 1; s.id = Vec.cnt; s.desc = desc
    def copy(s): return Vec(('copy', s.id)) if False else CopyOf(s)
    def __add__(s, o): return Vec(('add', s.id, getattr(o, 'id', o)))
    __radd__ = __add__
    def __sub__(s, o): return Vec(('sub', s.id, getattr(o, 'id', o), s, o))
    def __mul__(s, o): return Vec(('mul', s.id))
    __rmul__ = __mul__
    def dot(s, o): return H.next_real('dot')
class CopyOf(Vec):
    def __init__(s, src): Vec.__init__(s, ('copy', src.id)); s.src = src
class NPshim:
    @staticmethod
    def abs(v): return AbsV(v)
class AbsV:
    def __init__(s, v): s.v = v
    def max(s):
        r = H.next_real('Rmax', nonneg=True)
        H.rmax_log.append((s.v, r))
        return r
class Hx:
    pass
H = Hx()
def reset(K):
    H.k = 0; H.K = K; H.rmax_log = []; H.calls = []
def next_real(kind, nonneg=False):
    ctx = Ctx.cur
    if kind == 'Rmax':
        if H.k >= H.K: return V(z3.RealVal(0))
        H.k += 1
        t = z3.Real('r%d' % H.k)
        ctx.solver.add(t >= 0)
        return V(t)
    t = z3.Real('s%d' % len(H.calls)); H.calls.append(t)
    return V(t)
H.next_real = next_real
def solve(k, f, silent=False): return Vec(('solve', getattr(k,'id',k), f.id))
mod.__dict__.update(np=NPshim, msg=lambda *a, **k: None, warn=lambda *a, **k: None, solve=solve)
exec(compile(src, 'newton_raphson.py', 'exec'), mod.__dict__)

class Run:
    def __init__(s, **kw):
        s.modified_NR = True; s.initialInc = 0.3; s.minInc = 0.05; s.maxInc = 1.; s.absTOL = 1e-3
        s.maxNumIter = 3; s.too_slow_TOL = 0.01; s.line_search = False; s.max_iter_line_search = 2
        s.kT_initial_state = True; s.compute_every_n = 6
        s.increments = []; s.cs = []
        s.__dict__.update(kw)
        s.fint_log = []
    def calc_fext(s, inc=None, silent=False): v = Vec(('fext', inc)); v.inc = inc; return v
    def calc_k0(s, silent=False): return Vec(('k0',))
    def calc_kT(s, c=None, inc=None, silent=False): return Vec(('kT', c.id))
    def calc_fint(s, c=None, inc=None, silent=False):
        v = Vec(('fint', c.id, inc)); v.c = c; v.inc = inc; return v

def one(ctx, K, cfg):
    reset(K)
    run = Run(**cfg)
    mod._solver_NR(run, silent=True)
    # check properties
    ok = True
    incs = run.increments
    # equilibrium: each cs[k] is CopyOf(c) where last Rmax for c was < absTOL with fext.inc == total
    for tot, c in zip(incs, run.cs):
        srcv = c.src
        found = False
        for (Rv, r) in H.rmax_log:
            d = Rv.desc
            if d[0] == 'sub':
                fext, fint = d[3], d[4]
                if fint.c is srcv and fint.inc == tot and fext.inc == tot:
                    # must be provably < absTOL on this path
                    s = ctx.solver; s.push(); s.add(z3.Not(r.t < lift(run.absTOL))); res = s.check(); s.pop()
                    if res == z3.unsat: found = True
        ok = ok and found
    mono = all(0 < incs[i] and (i == 0 or incs[i] > incs[i-1]) and incs[i] <= 1 for i in range(len(incs)))
    return (ok, mono, tuple(incs))

if __name__ == '__main__':
    K = int(sys.argv[1]); ls = len(sys.argv) > 2 and sys.argv[2] == 'ls'
    cfg = dict(line_search=ls, initialInc=float(sys.argv[3]) if len(sys.argv)>3 else 0.3)
    n, res, q, dt = explore(lambda ctx: one(ctx, K, cfg), max_paths=200000)
    bad = [r for r in res if not (r[0] and r[1])]
    finals = {}
    for r in res:
        key = r[2][-1] if r[2] else None
        finals[key] = finals.get(key, 0) + 1
    print('K', K, 'paths', n, 'queries', q, 'time %.1f' % dt, 'bad', len(bad))
    print(sorted(finals.items(), key=lambda kv: (kv[0] is None, kv[0]))[:20])
    print(bad[:3])
