"""C03 -- Geometric stiffness = Hessian of the pre-stress work (constant resultants or from a Ritz state).

Real Panel.calc_kG0 (E4) over de-Cythonised fkG0 / fkG0y1y2 / fkG_num (E1); oracle: Hessian of
1/2 int (Nxx w,x^2 + 2 Nxy w,x w,y + Nyy w,y^2), and for the state-based kernel the same with N = A eps + B kappa of the
state evaluated by the oracle's own strain operators at symbolic quadrature points (integrand-level identity: holds for
every quadrature rule)."""
import json
import numpy as np
from fractions import Fraction
from ..harness import Run, pmap
from .. import kprop
from ..sym import Sym
from ..panelsym import (PanelCtx, oracle_kG0, symmetric_completion, positivity, _eta, series_of, sym_ABD)
from ..oracles import energy as E, pointwise as PW

MODELS = {'plate': ('compmech/panel/models/plate_clt_donnell_bardell.pyx', 'compmech/panel/models/plate_clt_donnell_bardell_num.pyx'),
          'plate_w': ('compmech/panel/models/plate_clt_donnell_bardell_w.pyx', None),
          'cpanel': ('compmech/panel/models/cpanel_clt_donnell_bardell.pyx', 'compmech/panel/models/cpanel_clt_donnell_bardell_num.pyx'),
          'kpanel': ('compmech/panel/models/kpanel_clt_donnell_bardell.pyx', None)}


def sym_state(ctx, size, zero=()):
    c = np.zeros(size, dtype=object)
    for k in range(size):
        c[k] = Sym.lift(0) if (k % 3) in zero else ctx.V('c%d' % k)
    return c


def build(cfg, values=None):
    model, m, n, variant = cfg['model'], cfg['m'], cfg['n'], cfg['variant']
    s = cfg.get('s', 2)
    ctx = PanelCtx(values=values, seed=cfg.get('seed', 0))
    obs = []
    assumptions_extra = []
    with ctx.shadow():
        p = ctx.new_panel(model, m, n)
        if model == 'kpanel':
            ctx.override_sections(s)
        num = 1 if model == 'plate_w' else 3
        size0 = num * m * n
        if variant in ('full', 'y1y2', 'offset', 'single'):
            if variant == 'single':
                setattr(p, cfg['which'], ctx.V(cfg['which']))
            else:
                p.Nxx, p.Nyy, p.Nxy = ctx.V('Nxx'), ctx.V('Nyy'), ctx.V('Nxy')
            N = [getattr(p, w) if getattr(p, w) is not None else 0 for w in ('Nxx', 'Nyy', 'Nxy')]
            yl = None
            off = 0
            if variant == 'y1y2':
                p.y1, p.y2 = ctx.V('y1'), ctx.V('y2')
                yl = (_eta(p.y1, p.b), _eta(p.y2, p.b))
            if variant == 'offset':
                off = cfg.get('off', 3)
                raw = p.calc_kG0(size=size0 + off + 1, row0=off, col0=off, silent=True, finalize=False)
                from compmech.sparse import finalize_symmetric_matrix
                K = finalize_symmetric_matrix(raw).todict()
            else:
                if cfg.get('after_redefinition'):
                    # the panel was evaluated with another cone angle / radius before: kG0 must follow the CURRENT definition
                    from ..panelsym import AngleTok
                    cur_alpha, cur_r = getattr(p, 'alphadeg', None), getattr(p, 'r', None)
                    if model == 'kpanel':
                        p.alphadeg = AngleTok('deg', 'alpha_before')
                    if model in ('cpanel', 'kpanel'):
                        p.r = ctx.V('r_before')
                    p.calc_k0(silent=True)
                    p.calc_kM(silent=True)
                    if model == 'kpanel':
                        p.alphadeg = cur_alpha
                    if model in ('cpanel', 'kpanel'):
                        p.r = cur_r
                K = p.calc_kG0(silent=True).todict()
            H = symmetric_completion(oracle_kG0(ctx, p, model, N[0], N[1], N[2], ylim=yl, s=s), shift=off)
        elif variant == 'tiling':
            p.Nxx, p.Nyy, p.Nxy = ctx.V('Nxx'), ctx.V('Nyy'), ctx.V('Nxy')
            y1, y2, y3 = ctx.V('y1'), ctx.V('y2'), ctx.V('y3')
            Ks = []
            for (lo, hi) in ((y1, y2), (y2, y3), (y1, y3)):
                p.y1, p.y2 = lo, hi
                Ks.append(p.calc_kG0(silent=True).todict())
            K = dict(Ks[0])
            for k, v in Ks[1].items():
                K[k] = K[k] + v if k in K else v
            H = Ks[2]
        elif variant == 'fullwidth':
            p.Nxx, p.Nyy, p.Nxy = ctx.V('Nxx'), ctx.V('Nyy'), ctx.V('Nxy')
            p.y1, p.y2 = 0, p.b
            K = p.calc_kG0(silent=True).todict()
            p.y1 = p.y2 = None
            H = p.calc_kG0(silent=True).todict()
        elif variant in ('num', 'num_table', 'num_uniform_state'):
            nx, ny, NL = cfg['nx'], cfg['ny'], cfg['NL']
            c = sym_state(ctx, size0, zero=cfg.get('zero', ()))
            c_before = c.copy()
            F = p._verif_lam.ABD
            if cfg.get('laminate_offset'):
                # a laminate whose reference surface is offset: the resultants of the state use A, B + d A, D + 2 d B + d^2 A
                d_ = ctx.V('d')
                p.offset = d_
                F = F.copy()
                base = p._verif_lam.ABD
                for i in range(3):
                    for j in range(3):
                        F[i, 3 + j] = F[3 + j, i] = base[i, 3 + j] + d_ * base[i, j]
                        F[3 + i, 3 + j] = base[3 + i, 3 + j] + 2 * d_ * base[i, 3 + j] + d_ * d_ * base[i, j]
            if variant == 'num_table':
                # per-point (nx,ny,6,6) table filled with the SAME symbols must change nothing
                Fn = np.zeros((nx, ny, 6, 6), dtype=object)
                for ix in range(nx):
                    for iy in range(ny):
                        Fn[ix, iy] = F
                p.calc_k0(silent=True)          # the public sequence: lam/F are set by calc_k0
                K = p.calc_kG0(c=c, nx=nx, ny=ny, Fnxny=Fn, NLgeom=bool(NL), silent=True).todict()
                H = p.calc_kG0(c=c, nx=nx, ny=ny, NLgeom=bool(NL), silent=True).todict()
            else:
                p.calc_k0(silent=True)
                K = p.calc_kG0(c=c, nx=nx, ny=ny, NLgeom=bool(NL), silent=True).todict()
                S = series_of(p, model)
                ops = E.donnell_ops('cpanel' if model == 'cpanel' else 'plate', r=p.r)
                Fl = [[F[i, j] for j in range(6)] for i in range(6)]
                H = symmetric_completion(PW.kG_state(ctx.atoms, S, ops, lambda ix, iy: Fl, c, ctx.rule(nx), ctx.rule(ny), NL=NL))
            for k in range(size0):
                if not (c[k] is c_before[k]):
                    obs.append(('caller-array-c[%d]-unchanged' % k, Sym.lift(1), Sym.lift(0)))
        else:
            raise ValueError(variant)
    for k in sorted(set(H) | set(K)):
        obs.append(('kG[%d,%d]' % k, K.get(k, 0), H.get(k, 0)))
    assumptions = positivity(ctx, p, model) if values is None else []
    if variant == 'tiling' and values is None:
        assumptions = assumptions + ctx.atoms.additivity_constraints()
    info = {'atoms': len(ctx.atoms.table), 'stats': {k: v.stats.as_dict() for k, v in ctx.kernels.mods.items()},
            'values': {k: str(v) for k, v in ctx.used_values.items()}}
    return obs, assumptions, info


def real_exception(cfg):
    """the same call order on the compiled build with floats: does calc_kG0 raise?"""
    if cfg['variant'] not in ('full', 'y1y2', 'offset', 'single'):
        return None
    from compmech.panel import Panel
    model = {'plate': 'plate_clt_donnell_bardell', 'cpanel': 'cpanel_clt_donnell_bardell', 'kpanel': 'kpanel_clt_donnell_bardell',
             'plate_w': 'plate_clt_donnell_bardell_w'}[cfg['model']]
    p = Panel(a=2., b=1., stack=[0, 45], plyt=1e-3, laminaprop=(142.5e9, 8.7e9, 0.28, 5.1e9, 5.1e9, 5.1e9), m=cfg['m'] + 2, n=cfg['n'] + 2)
    p.model = model
    if cfg['model'] in ('cpanel', 'kpanel'):
        p.r = 3.
    if cfg['model'] == 'kpanel':
        p.alphadeg = 10.
    p.Nxx, p.Nyy, p.Nxy = -1., -2., 0.5
    if cfg['variant'] == 'y1y2':
        p.y1, p.y2 = 0.2, 0.7
    try:
        if cfg.get('after_redefinition'):
            p.calc_k0(silent=True)
            p.calc_kM(silent=True)
        p.calc_kG0(silent=True)
    except Exception as e:
        return '%s: %s' % (type(e).__name__, e)
    return None


def configs(tier, seed):
    out = []
    quick = tier == 'quick'
    pairs = [(2, 2), (3, 1), (1, 3), (4, 1), (1, 5)] if quick else [(1, 1), (2, 2), (3, 2), (2, 3), (3, 3), (4, 4), (6, 5), (9, 7), (14, 3), (3, 14)]
    for model in MODELS:
        for (m, n) in pairs:
            if model == 'kpanel' and m * n > (4 if quick else 16):
                continue
            out.append({'model': model, 'm': m, 'n': n, 'variant': 'full', 'group': 'kG0:%s' % model})
        out.append({'model': model, 'm': 2, 'n': 2, 'variant': 'y1y2', 'group': 'kG0y1y2:%s' % model})
        # four terms along one direction: all four boundary flags (1t, 1r, 2t, 2r) of that direction enter the integrals
        out.append({'model': model, 'm': 1, 'n': 4, 'variant': 'y1y2', 'group': 'kG0y1y2:%s' % model, 's': 1 if model == 'kpanel' else 2})
        out.append({'model': model, 'm': 4, 'n': 1, 'variant': 'y1y2', 'group': 'kG0y1y2:%s' % model, 's': 1 if model == 'kpanel' else 2})
        if model in ('cpanel', 'kpanel'):
            out.append({'model': model, 'm': 2, 'n': 2, 'variant': 'full', 'after_redefinition': True, 'group': 'kG0-after-redefinition:%s' % model, 's': 1 if model == 'kpanel' else 2})
        out.append({'model': model, 'm': 2, 'n': 2, 'variant': 'offset', 'off': 2 + seed % 5, 'group': 'placement:%s' % model})
        for which in ('Nxx', 'Nyy', 'Nxy'):
            out.append({'model': model, 'm': 2, 'n': 2, 'variant': 'single', 'which': which, 'group': 'single-resultant:%s' % model})
        out.append({'model': model, 'm': 2, 'n': 2, 'variant': 'tiling', 'group': 'tiling:%s' % model, 's': 1 if model == 'kpanel' else 2})
        out.append({'model': model, 'm': 2, 'n': 2, 'variant': 'fullwidth', 'group': 'fullwidth:%s' % model, 's': 1 if model == 'kpanel' else 2})
    for model in ('plate', 'cpanel'):
        for NL in (0, 1):
            out.append({'model': model, 'm': 2, 'n': 2, 'variant': 'num', 'nx': 1, 'ny': 1, 'NL': NL, 'group': 'kG_num-integrand:%s' % model})
            out.append({'model': model, 'm': 2, 'n': 1, 'variant': 'num', 'nx': 2, 'ny': 2, 'NL': NL, 'group': 'kG_num-2x2:%s' % model})
            out.append({'model': model, 'm': 1, 'n': 2, 'variant': 'num_table', 'nx': 2, 'ny': 1, 'NL': NL, 'group': 'kG_num-table:%s' % model})
        out.append({'model': model, 'm': 2, 'n': 2, 'variant': 'num', 'nx': 1, 'ny': 1, 'NL': 1, 'zero': (2,), 'group': 'kG_num-membrane-state:%s' % model})
        out.append({'model': model, 'm': 2, 'n': 1, 'variant': 'num', 'nx': 1, 'ny': 1, 'NL': 1, 'laminate_offset': True, 'group': 'kG_num-offset-laminate:%s' % model})
        if not quick:
            out.append({'model': model, 'm': 3, 'n': 3, 'variant': 'num', 'nx': 1, 'ny': 1, 'NL': 1, 'group': 'kG_num-integrand:%s' % model, 'timeout_ms': 180000})
            out.append({'model': model, 'm': 2, 'n': 2, 'variant': 'num', 'nx': 3, 'ny': 3, 'NL': 1, 'group': 'kG_num-3x3:%s' % model, 'timeout_ms': 180000})
            out.append({'model': model, 'm': 3, 'n': 2, 'variant': 'num', 'nx': 2, 'ny': 3, 'NL': 0, 'group': 'kG_num-2x3:%s' % model, 'timeout_ms': 180000})
    out[0]['canary'] = True
    out[-1]['canary'] = True
    out[len(out) // 2]['canary'] = True
    return out


def main():
    run = Run('C03', 'other', explanation=(
        'Bounded symbolic verification: Panel.calc_kG0 (real Python) over de-Cythonised fkG0/fkG0y1y2/fkG_num; every entry of '
        'the symmetrised matrix is proved by z3 (qfnra-nlsat, division-free identities) equal to the Hessian of the pre-stress '
        'work for symbolic Nxx,Nyy,Nxy (sign-free), geometry, flags, sub-interval; the state-based kernel is proved at integrand '
        'level (symbolic quadrature point/weight, all amplitudes symbolic incl. a membrane-only state, NLgeom 0/1) against '
        'N = A eps + B kappa of the oracle strain operators, and the per-point laminate table is shown to change nothing.'))
    for model, (rel, reln) in MODELS.items():
        for fn in ('fkG0', 'fkG0y1y2'):
            run.encoded(rel, fn)
        if reln:
            run.encoded(reln, 'fkG_num')
    run.encoded('compmech/panel/_panel.py', 'Panel.calc_kG0')
    run.encoded('compmech/sparse.py', 'finalize_symmetric_matrix, make_symmetric')
    cf = configs(run.tier, run.seed)
    run.bounds = {'series_orders_(m,n)': sorted({(c['m'], c['n']) for c in cf}), 'quadrature': 'symbolic 1x1 point (integrand level), 2x2 (quick), 3x3 / 2x3 (thorough) symbolic points and weights',
                  'configurations': len(cf), 'variants': sorted({c['variant'] for c in cf})}
    run.assume('a, b, r > 0', 'integral tables = exact Bardell integrals, flag-factored (C10)', 'sub-interval additivity / end-point lemma (C10) in tiling/fullwidth groups',
               'ABD block-symmetric', 'uniform membrane state reproducing the constant-load matrix additionally needs quadrature exactness (C10) and is covered by C14(d)')
    run.stubs = ['leggauss_quad -> symbolic points/weights', 'laminate.read_stack -> symbolic ABD', 'sin/cos -> (sina,cosa)']
    run.outside = ['orders above the bound', 'kpanel state-based kernel (kpanel_..._num is not registered in modelDB for kG)', 'floating point']
    res = pmap(kprop.job, [(__name__, c) for c in cf])
    res = kprop.explore_loci(__name__, res, run)      # second pass: the equality loci the executed code branched on
    kprop.handle(run, res, build, 'entries differ from the pre-stress-work Hessian')
    return run.finish()


def replay(path):
    d = json.load(open(path))
    cfg = d['replay']['cfg']
    bad, info = kprop.concrete_replay(build, cfg, d['replay'].get('inputs', {}))
    print('replay %s: %d differing entries' % (cfg, len(bad)))
    for b in bad[:10]:
        print('  %s impl=%r oracle=%r' % b)
    return 1 if bad else 0
