#!/bin/bash
# usage: tools/confirm_seed.sh <seed-name>  -> writes seeded/<name>/confirm.log ; confirms demo PASS/FAIL and test-suite result in a scratch worktree
N=$1; S=/verif/seeded/$N; W=/tmp/mut/confirm_$N; L=$S/confirm.log
/verif/tools/mkwt.sh $W >/dev/null
mkdir -p $W/_seed; cp $S/demo.py $W/_seed/
cd $W; export PYTHONPATH=$W
{ echo "== demo on unchanged tree"; /venv/bin/python _seed/demo.py 2>&1 | tail -3; echo "exit=$?  (pipe) "; /venv/bin/python _seed/demo.py >/dev/null 2>&1; echo "demo_unchanged_exit=$?"
  git apply $(ls $S/patch_rebased*.diff 2>/dev/null || echo $S/patch.diff) && echo "patch applied"
  if [ -f $S/mutated.so.xz ]; then PYX=$(grep -m1 '^+++ b/.*\.pyx' $S/patch.diff | sed 's#^+++ b/##'); SO=${PYX%.pyx}.cpython-312-x86_64-linux-gnu.so; xz -dc $S/mutated.so.xz > $W/$SO && echo "mutated extension installed: $SO"; fi
  if [ -f $S/rebuild.sh ]; then mkdir -p $W/_seed; cp $S/rebuild.sh $W/_seed/; (cd $W && bash _seed/rebuild.sh >/dev/null 2>&1 && echo "extensions rebuilt by the seed's rebuild.sh"); fi
  echo "== demo with change"; /venv/bin/python _seed/demo.py 2>&1 | tail -3; /venv/bin/python _seed/demo.py >/dev/null 2>&1; echo "demo_changed_exit=$?"
  echo "== test suite with change"; /venv/bin/python -m pytest -q -p no:cacheprovider --timeout=900 --continue-on-collection-errors compmech 2>&1 | tail -4
} > $L 2>&1
cd /; /verif/tools/rmwt.sh $W
