"""C11 -- Recovered displacement / strain / stress fields match the Ritz series and the kinematics.

Real Panel.uvw / strain / stress (E4) over the de-Cythonised field kernels (fuvw, fstrain, cfuvw, cfwx, cfwy, cfstrain and
the w-only twin) with symbolic amplitudes, symbolic evaluation points, flags and geometry, for every chunk count
(num_cores) and point count of the bound: padding, reshape(num_cores,-1), pointer rows and trimming are executed with
bounds-checked views.  Oracle: the series and the Donnell relations built on the same function atoms."""
import json
import numpy as np
from fractions import Fraction
from ..harness import Run, pmap
from .. import kprop
from ..sym import Sym
from ..panelsym import PanelCtx, positivity, series_of
from ..oracles import energy as E, pointwise as PW

FIELD = {'plate': 'compmech/panel/models/clt_bardell_field.pyx', 'cpanel': 'compmech/panel/models/clt_bardell_field.pyx',
         'plate_w': 'compmech/panel/models/clt_bardell_field_w.pyx'}


def build(cfg, values=None):
    if cfg['variant'].startswith('bay-'):
        # field recovery of a stiffened bay: each component with its own slice of the amplitude vector (harness shared with C13)
        from . import c13
        return c13.build(cfg, values)
    if cfg['variant'] == 'assembly-fields':
        return build_assembly(cfg, values)
    model, m, n, variant = cfg['model'], cfg['m'], cfg['n'], cfg['variant']
    P, cores = cfg['P'], cfg['cores']
    ctx = PanelCtx(values=values, seed=cfg.get('seed', 0))
    obs = []
    with ctx.shadow():
        p = ctx.new_panel(model, m, n)
        num = 1 if model == 'plate_w' else 3
        size = num * m * n
        p.calc_k0(silent=True)          # public sequence (sets model, r, alpharad, F)
        if cores is not None:
            p.out_num_cores = cores
        c = np.zeros(size, dtype=object)
        for k in range(size):
            c[k] = ctx.V('c%d' % k)
        xs = np.zeros(P, dtype=object)
        ys = np.zeros(P, dtype=object)
        for k in range(P):
            xs[k] = ctx.V('x%d' % k)
            ys[k] = ctx.V('y%d' % k)
        if cfg.get('layout') == 'transposed-2d':
            # 2-D point arrays that are NOT C-contiguous (transposed views, as X.T, Y.T of a meshgrid)
            xs = xs.reshape(P // 2, 2).T
            ys = ys.reshape(P // 2, 2).T
        shape = xs.shape
        keys = list(np.ndindex(*shape))
        K = lambda k: k[0] if len(k) == 1 else k
        nmk = lambda k: ','.join(str(q) for q in k)
        c0, xs0, ys0 = c.copy(), xs.copy(), ys.copy()
        S = series_of(p, model)
        ops = E.donnell_ops('cpanel' if model == 'cpanel' else 'plate', r=p.r)
        if model == 'plate_w':
            ops = {k: {cc: t for cc, t in v.items() if cc == 'w'} for k, v in ops.items()}

        def pt(k):
            return 2 * xs0[K(k)] / p.a - 1, 2 * ys0[K(k)] / p.b - 1
        if variant == 'uvw':
            u, v, w, phix, phiy = p.uvw(c, xs=xs, ys=ys)
            if cfg.get('kept_across_a_second_call'):
                # the field of ANOTHER amplitude vector is recovered on the same points afterwards: the arrays returned for the first
                # vector are the caller's and must still hold the first vector's field
                p.uvw(np.array([2 * ck + 1 for ck in c0], dtype=object), xs=xs, ys=ys)
            for nm, arr in (('u', u), ('v', v), ('w', w), ('phix', phix), ('phiy', phiy)):
                if arr.shape != shape:
                    obs.append(('%s-shape' % nm, Sym.lift(arr.size), Sym.lift(-1)))
            for kk in (keys if all(arr.shape == shape for arr in (u, v, w, phix, phiy)) else []):
                xi, eta = pt(kk)
                k, kn = K(kk), nmk(kk)
                if model != 'plate_w':
                    obs.append(('u[%s]' % kn, u[k], PW.field(ctx.atoms, S, c0, 'u', 0, 0, xi, eta)))
                    obs.append(('v[%s]' % kn, v[k], PW.field(ctx.atoms, S, c0, 'v', 0, 0, xi, eta)))
                else:
                    obs.append(('u[%s]' % kn, u[k], 0))
                    obs.append(('v[%s]' % kn, v[k], 0))
                obs.append(('w[%s]' % kn, w[k], PW.field(ctx.atoms, S, c0, 'w', 0, 0, xi, eta)))
                obs.append(('phix[%s]' % kn, phix[k], -PW.field(ctx.atoms, S, c0, 'w', 1, 0, xi, eta)))
                obs.append(('phiy[%s]' % kn, phiy[k], -PW.field(ctx.atoms, S, c0, 'w', 0, 1, xi, eta)))
        elif variant in ('strain', 'stress'):
            NL = cfg['NL']
            tag = 'NL' if NL else 'lin'
            if variant == 'strain':
                res = p.strain(c, xs=xs, ys=ys, NLterms=bool(NL))
            else:
                res = p.stress(c, xs=xs, ys=ys, NLterms=bool(NL))
            F = p._verif_lam.ABD
            Fl = [[F[i, j] for j in range(6)] for i in range(6)]
            for kk in keys:
                xi, eta = pt(kk)
                k, kn = K(kk), nmk(kk)
                eps = PW.strains(ctx.atoms, S, ops, c0, xi, eta, NL=NL)
                known = None
                if NL:
                    # recorded finding F2: the kernel adds sum_terms (term)^2 instead of (sum_terms term)^2
                    known = PW.strains(ctx.atoms, S, ops, c0, xi, eta, NL=0)
                    half = Sym.lift(1) / 2
                    for (i, j, q) in S.dofs():
                        if q != 'w':
                            continue
                        cw = c0[S.dof(i, j, 'w')]
                        wx = cw * PW.basis(ctx.atoms, S, 'w', i, j, 1, 0, xi, eta)
                        wy = cw * PW.basis(ctx.atoms, S, 'w', i, j, 0, 1, xi, eta)
                        known[0] = known[0] + half * wx * wx
                        known[1] = known[1] + half * wy * wy
                        known[2] = known[2] + wx * wy
                if variant == 'strain':
                    for nm, val in zip(E.STRAINS, eps):
                        fam = '%s-%s' % (nm, tag) if nm in ('exx', 'eyy', 'gxy') else nm
                        obs.append(('%s[%s]' % (fam, kn), res[nm][k], val))
                        if known is not None and nm in ('exx', 'eyy', 'gxy'):
                            obs.append(('%s~known[%s]' % (fam, kn), res[nm][k], known[E.STRAINS.index(nm)]))
                else:
                    sig = PW.resultants(Fl, eps)
                    ksig = PW.resultants(Fl, known) if known is not None else None
                    for q, (nm, val) in enumerate(zip(('Nxx', 'Nyy', 'Nxy', 'Mxx', 'Myy', 'Mxy'), sig)):
                        obs.append(('%s-%s[%s]' % (nm, tag, kn), res[nm][k], val))
                        if ksig is not None:
                            obs.append(('%s-%s~known[%s]' % (nm, tag, kn), res[nm][k], ksig[q]))
                obs.append(('x-echo[%s]' % kn, res['x'][k], xs0[k]))
                obs.append(('y-echo[%s]' % kn, res['y'][k], ys0[k]))
        else:
            raise ValueError(variant)
        # caller arrays untouched
        for k in range(size):
            if c[k] is not c0[k]:
                obs.append(('caller-c-unchanged[%d]' % k, Sym.lift(1), Sym.lift(0)))
        for kk in keys:
            if xs[K(kk)] is not xs0[K(kk)] or ys[K(kk)] is not ys0[K(kk)]:
                obs.append(('caller-points-unchanged[%s]' % nmk(kk), Sym.lift(1), Sym.lift(0)))
    assumptions = positivity(ctx, p, model) if values is None else []
    info = {'atoms': len(ctx.atoms.table), 'stats': {k: v.stats.as_dict() for k, v in ctx.kernels.mods.items()},
            'values': {k: str(v) for k, v in ctx.used_values.items()}}
    return obs, assumptions, info


def build_assembly(cfg, values=None):
    """PanelAssembly.uvw / strain / stress for a group: every panel of the group, in the order of the assembly, evaluated with ITS OWN
    slice of the amplitude vector, its own geometry, flags, model and laminate on its own grid"""
    ctx = PanelCtx(values=values, seed=cfg.get('seed', 0))
    obs = []
    gx, gy = cfg['grid']
    with ctx.shadow():
        from compmech.panel.assembly import PanelAssembly
        panels = []
        for q, (model, m, n, grp) in enumerate(cfg['panels']):
            p = ctx.new_panel(model, m, n, prefix='p%d_' % q)
            p.group = grp
            p.calc_k0(silent=True)          # public sequence (sets model, r, F)
            panels.append(p)
        asm = PanelAssembly(panels)
        asm.out_num_cores = cfg['cores']
        size = asm.get_size()
        c = np.zeros(size, dtype=object)
        for k in range(size):
            c[k] = ctx.V('c%d' % k)
        c0 = c.copy()
        pos = 0
        slices = []
        for p in panels:
            slices.append((pos, pos + 3 * p.m * p.n))
            pos += 3 * p.m * p.n
        for grp in sorted({g for (_, _, _, g) in cfg['panels']}):
            members = [q for q, p in enumerate(panels) if p.group == grp]
            ru = asm.uvw(c, grp, gridx=gx, gridy=gy)
            rs = asm.strain(c, grp, gridx=gx, gridy=gy, NLterms=False)
            rt = asm.stress(c, grp, gridx=gx, gridy=gy, NLterms=False)
            for nm_, r_ in (('uvw', ru), ('strain', rs), ('stress', rt)):
                obs.append(('group-%s-%s-count' % (grp, nm_), Sym.lift(len(r_['x'])), Sym.lift(len(members))))
            for pos_, q in enumerate(members):
                if pos_ >= len(ru['x']) or pos_ >= len(rs['x']) or pos_ >= len(rt['x']):
                    break
                p = panels[q]
                model = cfg['panels'][q][0]
                S = series_of(p, model)
                ops = E.donnell_ops('cpanel' if model == 'cpanel' else 'plate', r=p.r)
                cs = c0[slices[q][0]:slices[q][1]]
                F = p._verif_lam.ABD
                Fl = [[F[i, j] for j in range(6)] for i in range(6)]
                for iy in range(gy):
                    for ix in range(gx):
                        x = p.a * Fraction(ix, gx - 1)
                        y = p.b * Fraction(iy, gy - 1)
                        xi, eta = Sym.lift(Fraction(2 * ix, gx - 1) - 1), Sym.lift(Fraction(2 * iy, gy - 1) - 1)
                        tag = '%s#%d[%d,%d]' % (grp, q, iy, ix)
                        for r_ in (ru, rs, rt):
                            obs.append(('assembly-x-%s' % tag, r_['x'][pos_][iy][ix], x))
                            obs.append(('assembly-y-%s' % tag, r_['y'][pos_][iy][ix], y))
                        obs.append(('assembly-u-%s' % tag, ru['u'][pos_][iy][ix], PW.field(ctx.atoms, S, cs, 'u', 0, 0, xi, eta)))
                        obs.append(('assembly-v-%s' % tag, ru['v'][pos_][iy][ix], PW.field(ctx.atoms, S, cs, 'v', 0, 0, xi, eta)))
                        obs.append(('assembly-w-%s' % tag, ru['w'][pos_][iy][ix], PW.field(ctx.atoms, S, cs, 'w', 0, 0, xi, eta)))
                        obs.append(('assembly-phix-%s' % tag, ru['phix'][pos_][iy][ix], -PW.field(ctx.atoms, S, cs, 'w', 1, 0, xi, eta)))
                        obs.append(('assembly-phiy-%s' % tag, ru['phiy'][pos_][iy][ix], -PW.field(ctx.atoms, S, cs, 'w', 0, 1, xi, eta)))
                        eps = PW.strains(ctx.atoms, S, ops, cs, xi, eta, NL=0)
                        for nm, val in zip(E.STRAINS, eps):
                            obs.append(('assembly-%s-%s' % (nm, tag), rs[nm][pos_][iy][ix], val))
                        for nm, val in zip(('Nxx', 'Nyy', 'Nxy', 'Mxx', 'Myy', 'Mxy'), PW.resultants(Fl, eps)):
                            obs.append(('assembly-%s-%s' % (nm, tag), rt[nm][pos_][iy][ix], val))
        for k in range(size):
            if c[k] is not c0[k]:
                obs.append(('caller-c-unchanged[%d]' % k, Sym.lift(1), Sym.lift(0)))
    assumptions = []
    if values is None:
        for q, p in enumerate(panels):
            assumptions += positivity(ctx, p, cfg['panels'][q][0])
    info = {'atoms': len(ctx.atoms.table), 'stats': {k: v.stats.as_dict() for k, v in ctx.kernels.mods.items()},
            'values': {k: str(v) for k, v in ctx.used_values.items()}}
    return obs, assumptions, info


def float_twin_noncontiguous():
    from compmech.panel import Panel
    lp = (142.5e9, 8.7e9, 0.28, 5.1e9, 5.1e9, 5.1e9)
    rng = np.random.RandomState(5)
    bad = []
    for model, r in (('plate_clt_donnell_bardell', None), ('cpanel_clt_donnell_bardell', 0.8)):
        p = Panel(a=1.2, b=0.7, r=r, stack=[0, 30, -45, 90], plyt=1.25e-4, laminaprop=lp, m=4, n=3)
        p.model = model
        p.calc_k0(silent=True)
        size = p.get_size()
        M = rng.rand(size, 3) * 1e-3
        cview, ccopy = M[:, 1], M[:, 1].copy()
        X = rng.rand(4, 5)
        xs_v, ys_v = (X * p.a).T, (X[::-1] * p.b).T                  # transposed views: not C-contiguous
        for what, fn in (('uvw', lambda c, xs, ys: dict(zip('uvwxy', p.uvw(c, xs=xs, ys=ys)))),
                         ('strain', lambda c, xs, ys: p.strain(c, xs=xs, ys=ys, NLterms=False)),
                         ('stress', lambda c, xs, ys: p.stress(c, xs=xs, ys=ys, NLterms=False))):
            ref = fn(ccopy, np.ascontiguousarray(xs_v), np.ascontiguousarray(ys_v))
            for tag, c_, xs_, ys_ in (('amplitudes', cview, np.ascontiguousarray(xs_v), np.ascontiguousarray(ys_v)), ('points', ccopy, xs_v, ys_v)):
                got = fn(c_, xs_, ys_)
                for k in ref:
                    if k in ('x', 'y'):
                        continue
                    a_, b_ = np.asarray(got[k], dtype=float), np.asarray(ref[k], dtype=float)
                    if a_.shape != b_.shape or not np.allclose(a_, b_, rtol=1e-10, atol=1e-12 * max(1., float(np.abs(b_).max()))):
                        bad.append({'what': '%s/%s/%s/%s' % (model.split('_')[0], what, tag, k), 'max_difference': float(np.abs(a_ - b_).max()) if a_.shape == b_.shape else 'shape'})
    return bad


def configs(tier, seed):
    out = []
    quick = tier == 'quick'
    maxc, maxp = (3, 7) if quick else (8, 17)
    for model in ('plate', 'cpanel', 'plate_w'):
        # chunking sweep: every num_cores x point count of the bound (uvw), small series
        for cores in range(1, maxc + 1):
            for P in range(1, maxp + 1):
                if quick and model != 'plate' and (cores + P + seed) % 3 != 0:
                    continue
                out.append({'model': model, 'm': 2, 'n': 1, 'variant': 'uvw', 'P': P, 'cores': cores, 'group': 'uvw-chunking:%s' % model})
        out.append({'model': model, 'm': 3, 'n': 2, 'variant': 'uvw', 'P': 2, 'cores': None, 'group': 'uvw-default-cores:%s' % model})
        out.append({'model': model, 'm': 2, 'n': 2, 'variant': 'uvw', 'P': 2, 'cores': 1, 'kept_across_a_second_call': True, 'group': 'uvw-result-kept-across-a-second-call:%s' % model})
        out.append({'model': model, 'm': 2, 'n': 2, 'variant': 'uvw', 'P': 6, 'cores': 2, 'layout': 'transposed-2d', 'group': 'uvw-noncontiguous-2d-points:%s' % model})
        out.append({'model': model, 'm': 4, 'n': 1, 'variant': 'uvw', 'P': 1, 'cores': 1, 'group': 'uvw-order-4-5:%s' % model})
        out.append({'model': model, 'm': 1, 'n': 5, 'variant': 'uvw', 'P': 1, 'cores': 2, 'group': 'uvw-order-4-5:%s' % model})
    for model in ('plate', 'cpanel'):
        for NL in (0, 1):
            out.append({'model': model, 'm': 2, 'n': 2, 'variant': 'strain', 'NL': NL, 'P': 2, 'cores': 2, 'group': 'strain:%s' % model})
            out.append({'model': model, 'm': 2, 'n': 2, 'variant': 'stress', 'NL': NL, 'P': 2, 'cores': 1, 'group': 'stress:%s' % model})
            out.append({'model': model, 'm': 1, 'n': 1, 'variant': 'strain', 'NL': NL, 'P': 1, 'cores': 1, 'group': 'strain-single-term:%s' % model})
        out.append({'model': model, 'm': 2, 'n': 1, 'variant': 'strain', 'NL': 0, 'P': 4, 'cores': 1, 'layout': 'transposed-2d', 'group': 'strain-noncontiguous-2d-points:%s' % model})
        out.append({'model': model, 'm': 4, 'n': 1, 'variant': 'strain', 'NL': 0, 'P': 1, 'cores': 1, 'group': 'strain-order-4-5:%s' % model})
        out.append({'model': model, 'm': 1, 'n': 5, 'variant': 'stress', 'NL': 0, 'P': 1, 'cores': 1, 'group': 'strain-order-4-5:%s' % model})
        for cores in range(1, maxc + 1):
            for P in ((1, 4, 5) if quick else range(1, maxp + 1)):
                out.append({'model': model, 'm': 1, 'n': 2, 'variant': 'strain', 'NL': 0, 'P': P, 'cores': cores, 'group': 'strain-chunking:%s' % model})
        if not quick:
            out.append({'model': model, 'm': 3, 'n': 3, 'variant': 'strain', 'NL': 0, 'P': 3, 'cores': 2, 'group': 'strain:%s' % model})
            out.append({'model': model, 'm': 3, 'n': 3, 'variant': 'stress', 'NL': 0, 'P': 2, 'cores': 2, 'group': 'stress:%s' % model})
    T = lambda mb, nb, mf, nf: ('T2', dict(mb=mb, nb=nb, mf=mf, nf=nf))
    B2 = lambda mf, nf, base=False: ('B2', dict(mf=mf, nf=nf, base=base))
    for name, st in (('B2+T2', [B2(1, 2), T(1, 1, 2, 1)]), ('T2+B2', [T(1, 1, 2, 1), B2(1, 2)]), ('T2+T2-unequal', [T(1, 1, 1, 2), T(2, 1, 2, 1)]),
                     ('B2+B2', [B2(1, 2), B2(2, 1, True)])):
        out.append({'variant': 'bay-fields', 'm': 1, 'n': 2, 'stiffeners': st, 'group': 'bay-fields:%s' % name, 'model': 'bay', 'P': 2, 'cores': 2})
    # groups of a panel assembly: panels of different size / model / group, interleaved
    out.append({'variant': 'assembly-fields', 'panels': [('plate', 2, 1, 'skin'), ('plate', 1, 2, 'flange'), ('cpanel', 1, 1, 'skin')], 'grid': (2, 3), 'cores': 2,
                'm': 2, 'n': 1, 'model': 'assembly', 'P': 6, 'group': 'assembly-groups'})
    out.append({'variant': 'assembly-fields', 'panels': [('plate', 1, 1, 'b'), ('plate', 2, 2, 'a'), ('plate', 1, 2, 'b')], 'grid': (3, 2), 'cores': 1,
                'm': 2, 'n': 2, 'model': 'assembly', 'P': 6, 'group': 'assembly-groups'})
    out[0]['canary'] = True
    out[-1]['canary'] = True
    out[len(out) // 2]['canary'] = True
    return out


def main():
    run = Run('C11', 'other', explanation=(
        'Bounded symbolic verification: Panel.uvw/strain/stress (real Python) over the de-Cythonised field kernels incl. the '
        'chunking wrappers (padding to a multiple of num_cores, reshape, pointer rows, trimming) with bounds-checked views; for '
        'symbolic amplitudes, points, flags and geometry every returned value is proved (z3 qfnra-nlsat) equal to the Ritz '
        'series / Donnell relations / F*strain evaluated at that point, for every chunk count and point count of the bound.'))
    run.encoded('compmech/panel/models/clt_bardell_field.pyx', 'fuvw, fstrain, cfuvw, cfwx, cfwy, cfstrain')
    run.encoded('compmech/panel/models/clt_bardell_field_w.pyx', 'fuvw, cfw, cfwx, cfwy')
    run.encoded('compmech/panel/_panel.py', 'Panel.uvw, Panel.strain, Panel.stress, Panel._default_field')
    cf = configs(run.tier, run.seed)
    run.bounds = {'series_orders_(m,n)': sorted({(c['m'], c['n']) for c in cf}), 'num_cores': sorted({c['cores'] for c in cf if c['cores']}),
                  'points': sorted({c['P'] for c in cf}), 'configurations': len(cf)}
    run.assume('a, b, r > 0', 'function tables = Bardell polynomials (C10)', 'prange chunks executed sequentially: chunks write disjoint rows (checked by bounds-checked views); data races are outside')
    run.encoded('compmech/stiffpanelbay/stiffpanelbay.py', 'StiffPanelBay.uvw_skin, uvw_stiffener')
    run.outside = ['real OpenMP scheduling', 'plotting', 'orders above the bound']
    res = pmap(kprop.job, [(__name__, c) for c in cf])
    res = kprop.explore_loci(__name__, res, run)      # second pass: the equality loci the executed code branched on
    kprop.handle(run, res, build, 'field values differ from the series/kinematics')
    # float twin on the compiled build (sampling, stated as such): amplitude vectors and point arrays that are float64 but NOT
    # C-contiguous (a column of an eigenvector matrix, a strided slice) against their contiguous copies -- code that skips the
    # conversion for arrays that "already are float64" takes a branch the symbolic run (dtype=object arrays) never sees
    try:
        tw = float_twin_noncontiguous()
    except Exception as e:
        tw = [{'error': '%s: %s' % (type(e).__name__, e)}]
    run.extra['float_twin_noncontiguous_float64_inputs'] = {'mismatches': len(tw)}
    if tw:
        run.obligations += 1
        run.violation('float-twin/non-contiguous-float64-input/%s' % tw[0].get('what', 'error'), 'results for a non-contiguous float64 input differ from those for its contiguous copy on the compiled build: %s' % (tw[:3],),
                      {'mismatches': tw[:10], 'decided_by': 'float runs on the compiled build (no solver verdict for this branch)'})
    return run.finish()


def replay(path):
    d = json.load(open(path))
    cfg = d['replay']['cfg']
    bad, info = kprop.concrete_replay(build, cfg, d['replay'].get('inputs', {}))
    print('replay %s: %d differing entries' % (cfg, len(bad)))
    for b in bad[:10]:
        print('  %s impl=%r oracle=%r' % b)
    return 1 if bad else 0
