"""E2: read compmech/lib/src/*.c tables as exact polynomials.

The generated C is `switch(i){case..: switch(j){case..: return <expr>; default: return 0.;}}` or
`name[k] = <expr>;`.  Expressions: numbers, identifiers, pow(e, int), + - * /, parentheses.
Each decimal literal is read as the IEEE double the compiler stores for it and taken as an exact rational.
Nothing is cached across runs."""
import re, os
from fractions import Fraction
from .poly import Poly

TOK = re.compile(r'\s*(?:(\d+\.\d*(?:[eE][+-]?\d+)?|\.\d+(?:[eE][+-]?\d+)?|\d+(?:[eE][+-]?\d+)?)|([A-Za-z_]\w*)|(.))')


class CParseError(Exception):
    pass


def tokenize(s):
    out = []
    pos = 0
    while pos < len(s):
        m = TOK.match(s, pos)
        if not m:
            break
        pos = m.end()
        if m.group(1) is not None:
            out.append(('num', m.group(1)))
        elif m.group(2) is not None:
            out.append(('id', m.group(2)))
        elif m.group(3) is not None and m.group(3).strip():
            out.append(('op', m.group(3)))
    return out


class ExprParser:
    """recursive descent -> Poly.  is_int tracks integer-typed literals so that int/int is rejected, not guessed."""

    def __init__(self, toks, literals=None):
        self.t = toks
        self.i = 0
        self.literals = literals

    def peek(self):
        return self.t[self.i] if self.i < len(self.t) else (None, None)

    def eat(self, kind=None, val=None):
        k, v = self.peek()
        if (kind and k != kind) or (val is not None and v != val):
            raise CParseError('expected %s %s got %s %s' % (kind, val, k, v))
        self.i += 1
        return v

    def parse(self):
        p, _ = self.expr()
        if self.i != len(self.t):
            raise CParseError('trailing tokens %r' % (self.t[self.i:self.i + 5],))
        return p

    def expr(self):
        p, isint = self.term()
        while self.peek() in (('op', '+'), ('op', '-')):
            op = self.eat()
            q, qi = self.term()
            p = p + q if op == '+' else p - q
            isint = isint and qi
        return p, isint

    def term(self):
        p, isint = self.unary()
        while self.peek() in (('op', '*'), ('op', '/')):
            op = self.eat()
            q, qi = self.unary()
            if op == '*':
                p = p * q
                isint = isint and qi
            else:
                if isint and qi:
                    raise CParseError('integer/integer division in C table')
                p = p / q
                isint = False
        return p, isint

    def unary(self):
        k, v = self.peek()
        if (k, v) == ('op', '-'):
            self.eat()
            p, isint = self.unary()
            return -p, isint
        if (k, v) == ('op', '+'):
            self.eat()
            return self.unary()
        return self.atom()

    def atom(self):
        k, v = self.peek()
        if k == 'num':
            self.eat()
            isint = re.fullmatch(r'\d+', v) is not None
            val = Fraction(int(v)) if isint else Fraction(float(v))
            if self.literals is not None and not isint:
                self.literals.add(v)
            return Poly.const(val), isint
        if k == 'id':
            self.eat()
            if v == 'pow':
                self.eat('op', '(')
                b, _ = self.expr()
                self.eat('op', ',')
                kk, e = self.peek()
                if kk != 'num' or not re.fullmatch(r'\d+', e):
                    raise CParseError('pow with non-integer exponent')
                self.eat()
                self.eat('op', ')')
                return b ** int(e), False
            return Poly.var(v), False
        if (k, v) == ('op', '('):
            self.eat()
            p, isint = self.expr()
            self.eat('op', ')')
            return p, isint
        raise CParseError('unexpected token %s %s' % (k, v))


def parse_expr(text, literals=None):
    return ExprParser(tokenize(text), literals).parse()


FUNC_RE = re.compile(r'EXPORTIT\s+(double|void)\s+(\w+)\s*\(([^)]*)\)\s*\{', re.S)


def split_functions(src):
    """{name: (rettype, [argnames], body_text)}"""
    out = {}
    for m in FUNC_RE.finditer(src):
        ret, name, args = m.group(1), m.group(2), m.group(3)
        # body: match braces
        i = m.end()
        depth = 1
        j = i
        while depth:
            c = src[j]
            if c == '{':
                depth += 1
            elif c == '}':
                depth -= 1
            j += 1
        argn = [a.strip().split()[-1].lstrip('*') for a in args.split(',')]
        out[name] = (ret, argn, src[i:j - 1])
    return out


STMT = re.compile(r'\s*(?:(switch)\s*\(\s*(\w+)\s*\)\s*\{|(case)\s+(\d+)\s*:|(default)\s*:|(return)\s*([^;]*);|(\})|(\w+)\s*\[\s*(\d+)\s*\]\s*=\s*([^;]*);|(break)\s*;)')


def parse_body(body):
    """-> nested structure:
       ('switch', var, {int: node, 'default': node})  |  ('return', exprtext|None)  |  ('assign', [(name, idx, exprtext), ...], terminated_by_return)"""
    pos = 0
    n = len(body)

    def block():
        nonlocal pos
        assigns = []
        while pos < n:
            m = STMT.match(body, pos)
            if not m:
                if body[pos:].strip() == '':
                    pos = n
                    break
                raise CParseError('cannot parse C statement at: %r' % body[pos:pos + 80])
            if m.group(1):
                pos = m.end()
                var = m.group(2)
                cases = {}
                pending = []
                while True:
                    mm = STMT.match(body, pos)
                    if not mm:
                        raise CParseError('bad switch at %r' % body[pos:pos + 60])
                    if mm.group(3):
                        pos = mm.end()
                        pending.append(int(mm.group(4)))
                        # fallthrough labels `case 1: case 2:`
                        nxt = STMT.match(body, pos)
                        if nxt and (nxt.group(3) or nxt.group(5)):
                            continue
                        node = block()
                        for k in pending:
                            cases[k] = node
                        pending = []
                    elif mm.group(5):
                        pos = mm.end()
                        node = block()
                        cases['default'] = node
                        for k in pending:
                            cases[k] = node
                        pending = []
                    elif mm.group(8):
                        pos = mm.end()
                        break
                    else:
                        raise CParseError('unexpected in switch: %r' % body[pos:pos + 60])
                if assigns:
                    raise CParseError('assignments before switch')
                return ('switch', var, cases)
            if m.group(6):
                pos = m.end()
                txt = m.group(7).strip()
                if assigns:
                    return ('assign', assigns, True)
                return ('return', txt if txt else None)
            if m.group(9):
                pos = m.end()
                assigns.append((m.group(9), int(m.group(10)), m.group(11)))
                continue
            if m.group(12):
                pos = m.end()
                return ('assign', assigns, True)
            # case / default / } end this block without consuming
            break
        return ('assign', assigns, False)
    # statements ahead of the table: declarations of locals, plain assignments `a = b;`, blocks `if (<integer condition>) { a = b; ... }`
    # and guarded early returns `if (<integer condition on the indices>) return <expr>;`
    ops = []
    while True:
        g = GUARD.match(body, pos)
        if g:
            ops.append(('ifreturn', g.group(1).strip(), g.group(2).strip()))
            pos = g.end()
            continue
        d = DECL.match(body, pos)
        if d:
            pos = d.end()
            continue
        b = IFBLOCK.match(body, pos)
        if b:
            inner = [('assign', a_.group(1), a_.group(2).strip()) for a_ in ASSIGN.finditer(b.group(2))]
            if ASSIGN.sub('', b.group(2)).strip():
                raise CParseError('unsupported statement inside a conditional block ahead of the table: %r' % b.group(2)[:80])
            ops.append(('if', b.group(1).strip(), inner))
            pos = b.end()
            continue
        a_ = ASSIGN.match(body, pos)
        if a_ and not re.match(r'\s*\w+\s*\[', body[pos:]):
            ops.append(('assign', a_.group(1), a_.group(2).strip()))
            pos = a_.end()
            continue
        break
    node = block()
    if ops:
        return ('guard', ops, node)
    return node


GUARD = re.compile(r'\s*if\s*\(((?:[^()]|\((?:[^()]|\([^()]*\))*\))*)\)\s*return\s*([^;]*);')


DECL = re.compile(r'\s*(?:int|double|long)\s+\w+(?:\s*=\s*[^;,]+)?(?:\s*,\s*\w+(?:\s*=\s*[^;,]+)?)*\s*;')
ASSIGN = re.compile(r'\s*(\w+)\s*=\s*([^;=][^;]*);')
IFBLOCK = re.compile(r'\s*if\s*\(((?:[^()]|\((?:[^()]|\([^()]*\))*\))*)\)\s*\{([^{}]*)\}')


EDGE_ATOM = re.compile(r'\s*([A-Za-z_]\w*)\s*(<=|>=|==)\s*(-?(?:\d+\.?\d*|\.\d+))\s*')


def edge_atoms(cond, ints):
    """a guard on the floating-point arguments of the form  x <= -1. && y >= 1.  (a conjunction of comparisons of a double parameter
    with a literal) -> {name: (op, Fraction)} or None"""
    out = {}
    for part in cond.split('&&'):
        m = EDGE_ATOM.fullmatch(part)
        if not m or m.group(1) in ints:
            return None
        out[m.group(1)] = (m.group(2), Fraction(m.group(3)))
    return out or None


def run_prologue(ops, ints, edges=None):
    """interpret the statements ahead of a table for concrete index values.  -> ('return', exprtext) | ('table', ints', renaming)
    where `renaming` maps each double-valued name to the parameter whose value it holds after the statements"""
    ints = dict(ints)
    ren = {}

    def val(name):
        return ren.get(name, name)

    def assign(target, rhs):
        if re.fullmatch(r'[A-Za-z_]\w*', rhs):
            if rhs in ints:
                ints[target] = ints[rhs]
                ren.pop(target, None)
            else:
                ints.pop(target, None)
                ren[target] = val(rhs)
            return
        names = set(re.findall(r'[A-Za-z_]\w*', rhs))
        if names <= set(ints) and re.fullmatch(r'[\w\s()%+\-*]*', rhs):
            ints[target] = int(eval(rhs, {'__builtins__': {}}, dict(ints)))
            return
        raise CParseError('unsupported assignment ahead of the table: %s = %s' % (target, rhs))
    for op in ops:
        if op[0] == 'ifreturn':
            ea = edge_atoms(op[1], ints) if edges is not None else None
            if ea is not None:
                # an early return on a region of the floating-point arguments: the table below stays the definition elsewhere; the
                # region is handed to the caller (CTables.edge_values), which compares the value returned there with the table's
                edges.append((ea, op[2], dict(ints), dict(ren)))
                continue
            if guard_holds(op[1], ints):
                return ('return', op[2])
        elif op[0] == 'assign':
            assign(op[1], op[2])
        else:
            if guard_holds(op[1], ints):
                for _, t_, r_ in op[2]:
                    assign(t_, r_)
    return ('table', ints, ren)


def switch_vars(node):
    out = []
    while node[0] == 'switch':
        out.append(node[1])
        node = next(iter(node[2].values()))
    return out


def guard_holds(cond, env):
    """evaluate a C integer condition (indices only) for concrete index values"""
    if not re.fullmatch(r'[\w\s()<>=!&|%+\-*]*', cond):
        raise CParseError('unsupported guard condition %r' % cond)
    py = cond.replace('&&', ' and ').replace('||', ' or ')
    py = re.sub(r'!(?!=)', ' not ', py)
    names = set(re.findall(r'[A-Za-z_]\w*', py)) - {'and', 'or', 'not'}
    if not names <= set(env):
        raise CParseError('guard condition %r uses something other than the table indices %s' % (cond, sorted(env)))
    return bool(eval(py, {'__builtins__': {}}, dict(env)))


class CTables:
    def __init__(self, srcdir):
        self.srcdir = srcdir
        self.files = {}
        self.funcs = {}   # name -> (file, ret, args, tree)
        self.literals = set()

    def load(self, fname):
        path = os.path.join(self.srcdir, fname)
        src = open(path).read()
        src = re.sub(r'//[^\n]*', '', src)
        src = re.sub(r'/\*.*?\*/', '', src, flags=re.S)
        self.files[fname] = path
        for name, (ret, args, body) in split_functions(src).items():
            self.funcs[name] = (fname, ret, args, parse_body(body))
        return self

    def entry(self, name, *idx):
        """polynomial returned by `name` for the given integer switch arguments (in switch nesting order)"""
        fname, ret, args, node = self.funcs[name]
        idx = list(idx)
        renaming = {}
        self.last_edges = []
        if node[0] == 'guard':
            names = switch_vars(node[2])
            self.last_edges = []
            kind, *rest = run_prologue(node[1], dict(zip(names, idx)), self.last_edges)
            if kind == 'return':
                return parse_expr(rest[0], self.literals) if rest[0] else None
            idx = [rest[0][v] for v in names]
            renaming = {k_: v_ for k_, v_ in rest[1].items() if k_ != v_}
            node = node[2]
        while node[0] == 'switch':
            k = idx.pop(0)
            cases = node[2]
            if k in cases:
                node = cases[k]
            elif 'default' in cases:
                node = cases['default']
            else:
                return None   # falls out of the switch: undefined return
        if node[0] == 'return':
            if node[1] is None:
                return None
            p = parse_expr(node[1], self.literals)
            if renaming:
                # the statements ahead of the table re-bound some parameters: simultaneous substitution by way of fresh names
                from .poly import Poly
                used = [v for v in renaming if v in p.vars()]
                for v in used:
                    p = p.subs(v, Poly.var('__' + v))
                for v in used:
                    p = p.subs('__' + v, Poly.var(renaming[v]))
            return p
        raise CParseError('entry(): %s does not end in return' % name)

    def edge_values(self):
        """for the entry() just read: [(region {double parameter: (op, literal)}, Poly returned on that region)]; the returned expression
        may be a call of another table function of the library with index expressions and parameter names as arguments"""
        import glob
        from .poly import Poly
        out = []
        for region, txt, ints, ren in list(self.last_edges):
            m = re.fullmatch(r'\s*([A-Za-z_]\w*)\s*\((.*)\)\s*', txt or '', flags=re.S)
            if not m or m.group(1) in ('pow', 'sqrt', 'fabs'):
                out.append((region, parse_expr(txt, self.literals)))
                continue
            callee, argt = m.group(1), [a.strip() for a in m.group(2).split(',')]
            if callee not in self.funcs:
                for path in sorted(glob.glob(os.path.join(self.srcdir, '*.c'))):
                    if re.search(r'\b%s\s*\(' % callee, open(path).read()) and os.path.basename(path) not in self.files:
                        saved = self.last_edges
                        self.load(os.path.basename(path))
                        self.last_edges = saved
                        if callee in self.funcs:
                            break
            if callee not in self.funcs:
                raise CParseError('early return calls %s, which is not a table function of the library' % callee)
            cargs = self.funcs[callee][2]
            if len(cargs) != len(argt):
                raise CParseError('early return calls %s with %d arguments for %d parameters' % (callee, len(argt), len(cargs)))
            cnode = self.funcs[callee][3]
            cnames = switch_vars(cnode[2] if cnode[0] == 'guard' else cnode)
            cidx, sub = [], {}
            for pn, at in zip(cargs, argt):
                if pn in cnames:
                    if not (set(re.findall(r'[A-Za-z_]\w*', at)) <= set(ints) and re.fullmatch(r'[\w\s()%+\-*]*', at)):
                        raise CParseError('index argument %r of the early-return call is not an index expression' % at)
                    cidx.append((pn, int(eval(at, {'__builtins__': {}}, dict(ints)))))
                else:
                    if not re.fullmatch(r'[A-Za-z_]\w*', at):
                        raise CParseError('argument %r of the early-return call is not a parameter name' % at)
                    sub[pn] = ren.get(at, at)
            cd = dict(cidx)
            saved = self.last_edges
            pc = self.entry(callee, *[cd[v] for v in cnames])
            self.last_edges = saved
            if pc is None:
                out.append((region, None))
                continue
            used = [v for v in sub if v in pc.vars()]
            for v in used:
                pc = pc.subs(v, Poly.var('__' + v))
            for v in used:
                pc = pc.subs('__' + v, Poly.var(sub[v]))
            out.append((region, pc))
        return out

    def vector(self, name, *idx):
        """{(array, k): Poly} assigned by `name` (after walking the switches with idx)"""
        fname, ret, args, node = self.funcs[name]
        idx = list(idx)
        if node[0] == 'guard':
            raise CParseError('vector(): guarded early return ahead of an assignment table in %s' % name)
        while node[0] == 'switch':
            k = idx.pop(0)
            cases = node[2]
            node = cases.get(k, cases.get('default'))
            if node is None:
                return None
        if node[0] != 'assign':
            raise CParseError('vector(): %s is not an assignment list' % name)
        out = {}
        for arr, k, txt in node[1]:
            out[(arr, k)] = parse_expr(txt, self.literals)
        return out

    def switch_keys(self, name):
        node = self.funcs[name][3]
        if node[0] == 'guard':
            node = node[2]
        return sorted(k for k in node[2] if k != 'default') if node[0] == 'switch' else []


def build_shared(srcdir, outdir):
    """gcc-build the tables into one shared object for concrete replay through ctypes"""
    import subprocess, glob
    so = os.path.join(outdir, 'libbardell_verif.so')
    srcs = sorted(glob.glob(os.path.join(srcdir, '*.c')))
    subprocess.check_call(['gcc', '-O1', '-shared', '-fPIC', '-o', so] + srcs + ['-lm'])
    return so
