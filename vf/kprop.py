"""Shared driver for kernel-identity properties: worker job, exact-rational replay, violation handling.
A property module provides  build(cfg, values=None) -> (obligations, assumptions, info)."""
import time, json, importlib
from fractions import Fraction
from .harness import decide_job
from .sym import Sym, reset


class NeedDecision(BaseException):
    """an ordering comparison on symbolic values that no policy decides: the run is repeated once per outcome"""


class Fork:
    """replays a list of outcomes for the ordering comparisons the property's own policy declines; every outcome taken becomes an
    assumption of that run's obligations (so both sides of  `if a > b:`  in the executed code are decided, each under its condition)"""

    def __init__(self, decisions, default=None):
        self.decisions, self.i, self.constraints, self.trace, self.memo = list(decisions), 0, [], [], {}
        self.default = default      # outcome of every comparison beyond `decisions` (None: ask for a decision)

    def decide(self, kind, lhs, rhs):
        import z3, traceback
        from .eigstubs import sym_to_z3
        a, b = sym_to_z3(lhs), sym_to_z3(rhs)
        # the same comparison asked again gets the same answer (and its mirror image the consistent one)
        key = (str(a), str(b))
        less = {'lt': ('lt', key), 'gt': ('lt', key[::-1]), 'le': ('le', key), 'ge': ('le', key[::-1])}[kind]
        if less in self.memo:
            return self.memo[less]
        if self.i >= len(self.decisions):
            if self.default is None:
                raise NeedDecision()
            ans = self.default
        else:
            ans = self.decisions[self.i]
        self.i += 1
        self.memo[less] = ans
        c = {'lt': a < b, 'le': a <= b, 'gt': a > b, 'ge': a >= b}[kind]
        self.constraints.append(c if ans else z3.Not(c))
        if len(self.trace) >= 40:
            return ans
        fr = [f for f in traceback.extract_stack(limit=25) if '/compmech/' in f.filename]
        self.trace.append('%s %s %s -> %s @ %s' % (lhs, kind, rhs, ans, ('%s:%d' % (fr[-1].filename.split('/compmech/', 1)[-1], fr[-1].lineno)) if fr else '?'))
        return ans


def job(arg):
    """one configuration; when the executed code compares symbolic values by order and the property's policy does not decide it, the
    configuration is run once per outcome (at most 16 runs / 150 s) and the results are merged"""
    pending, merged, runs = [[]], None, 0
    t_job = time.time()
    while pending and runs < 16 and time.time() - t_job < 150:
        dec = pending.pop()         # depth first, the outcome 'True' of the newest comparison first (the special-case branch of `if x <= tol:`)
        runs += 1
        Sym.FORK = Fork(dec)
        try:
            res = job1(arg, Sym.FORK)
        except NeedDecision:
            pending += [dec + [False], dec + [True]]
            if len(dec) >= 8:
                break               # an entry-wise test over a whole array: not to be taken apart one comparison at a time (see below)
            continue
        finally:
            fork, Sym.FORK = Sym.FORK, None
        if fork.trace:
            res.setdefault('extra', {}).setdefault('ordering_branches', []).append(fork.trace)
            for s_ in res.get('sat', []):
                s_['branch'] = fork.trace
        if merged is None:
            merged = res
        elif res.get('error') or res.get('oob') or res.get('memview'):
            merged = res if not (merged.get('error') or merged.get('oob') or merged.get('memview')) else merged
        elif not (merged.get('error') or merged.get('oob') or merged.get('memview')):
            for k in ('n', 'unsat', 'solver_s', 'queries'):
                merged[k] = merged.get(k, 0) + res.get(k, 0)
            for k in ('sat', 'unknown'):
                merged[k] = merged.get(k, []) + res.get(k, [])
            merged.setdefault('extra', {}).setdefault('ordering_branches', []).extend(res.get('extra', {}).get('ordering_branches', []))
    if merged is not None and pending and merged.get('sat'):
        merged.setdefault('extra', {})['ordering_branches_not_run'] = len(pending)
        return merged           # a failing branch was found: it is replayed and reported; the branches not run stay undecided
    if pending:
        # too many comparisons to take apart one by one (an entry-wise tolerance test over a whole matrix): the two uniform outcomes
        # (every comparison true / every comparison false) are run; a failing one is replayed and reported, otherwise the
        # configuration stays undecided (reported as an error below, never as a pass)
        uni = uniform_runs(lambda: job1(arg, Sym.FORK))
        if uni is not None:
            return uni
    if merged is None or pending:
        cfg = arg[1]
        return {'group': cfg['group'], 'n': 0, 'unsat': 0, 'sat': [], 'unknown': [], 'solver_s': 0, 'queries': 0, 'samples': [], 'extra': {},
                'error': 'RuntimeError: more than 16 runs / 150 s needed to decide the ordering comparisons of this configuration', 'cfg': cfg}
    return merged


def uniform_runs(run1):
    for default in (False, True):
        Sym.FORK = Fork([], default=default)
        try:
            res = run1()
        except BaseException as e:
            if isinstance(e, (KeyboardInterrupt, SystemExit)):
                raise
            continue
        finally:
            fork, Sym.FORK = Sym.FORK, None
        if res.get('sat') and not (res.get('error') or res.get('oob') or res.get('memview')):
            for s_ in res['sat']:
                s_['branch'] = fork.trace[:12] + ['... every ordering comparison of the run decided as %s (%d comparisons)' % (default, fork.i)]
            res.setdefault('extra', {})['ordering_branches_not_run'] = 'all mixed outcomes'
            return res
    return None


def forked(fn, cfg, max_runs=16, budget_s=150):
    """kprop.job's fork loop for a property's own job function fn(cfg) -> result dict (the function adds Sym.FORK.constraints to its
    assumptions): one run per outcome of the ordering comparisons no policy decides, results merged"""
    pending, merged, runs = [[]], None, 0
    t_job = time.time()
    while pending and runs < max_runs and time.time() - t_job < budget_s:
        dec = pending.pop()
        runs += 1
        Sym.FORK = Fork(dec)
        try:
            res = fn(cfg)
        except NeedDecision:
            pending += [dec + [False], dec + [True]]
            if len(dec) >= 8:
                break               # an entry-wise test over a whole array: not to be taken apart one comparison at a time (see below)
            continue
        finally:
            fork, Sym.FORK = Sym.FORK, None
        if fork.trace:
            res.setdefault('extra', {}).setdefault('ordering_branches', []).append(fork.trace)
            for s_ in res.get('sat', []):
                s_['branch'] = fork.trace
        if merged is None:
            merged = res
        elif res.get('error'):
            merged = res if not merged.get('error') else merged
        elif not merged.get('error'):
            for k in ('n', 'unsat', 'solver_s', 'queries'):
                merged[k] = merged.get(k, 0) + res.get(k, 0)
            for k in ('sat', 'unknown'):
                merged[k] = merged.get(k, []) + res.get(k, [])
            merged.setdefault('extra', {}).setdefault('ordering_branches', []).extend(res.get('extra', {}).get('ordering_branches', []))
        if merged.get('sat'):
            if pending:
                merged.setdefault('extra', {})['ordering_branches_not_run'] = len(pending)
            return merged
    if pending:
        uni = uniform_runs(lambda: fn(cfg))
        if uni is not None:
            return uni
    if merged is None or pending:
        return {'group': cfg['group'], 'n': 0, 'unsat': 0, 'sat': [], 'unknown': [], 'solver_s': 0, 'queries': 0, 'samples': [], 'extra': {},
                'error': 'RuntimeError: more than %d runs / %d s needed to decide the ordering comparisons of this configuration' % (max_runs, budget_s), 'cfg': cfg}
    return merged


def job1(arg, fork):
    modname, cfg = arg
    build = importlib.import_module(modname).build
    Sym.ALIAS = dict(cfg.get('alias') or {})
    reset()
    t0 = time.time()
    from .cysym import KernelOOB
    if Sym.ALIAS:
        return locus_job(build, cfg, t0)
    try:
        obs, assumptions, info = build(cfg)
    except KernelOOB as e:
        # boundscheck=False / wraparound=False in the real build: an out-of-range index is silent memory corruption there
        return {'group': cfg['group'], 'n': 1, 'unsat': 0, 'sat': [], 'unknown': [], 'solver_s': 0, 'queries': 0, 'samples': [],
                'extra': {}, 'oob': str(e), 'cfg': cfg}
    except TypeError as e:
        import traceback
        if "'MemView'" in str(e):
            # arithmetic on a typed memoryview returned by a compiled kernel: a TypeError in the real build as well
            tb = traceback.extract_tb(e.__traceback__)
            where = next(('%s:%d %s' % (f.filename, f.lineno, f.line) for f in reversed(tb) if '/compmech/' in f.filename), '')
            return {'group': cfg['group'], 'n': 1, 'unsat': 0, 'sat': [], 'unknown': [], 'solver_s': 0, 'queries': 0, 'samples': [],
                    'extra': {}, 'memview': '%s (%s)' % (e, where), 'cfg': cfg}
        return {'group': cfg['group'], 'n': 0, 'unsat': 0, 'sat': [], 'unknown': [], 'solver_s': 0, 'queries': 0, 'samples': [],
                'extra': {}, 'error': '%s: %s\n%s' % (type(e).__name__, e, traceback.format_exc()[-800:]), 'cfg': cfg}
    except Exception as e:
        import traceback
        return {'group': cfg['group'], 'n': 0, 'unsat': 0, 'sat': [], 'unknown': [], 'solver_s': 0, 'queries': 0, 'samples': [],
                'extra': {}, 'error': '%s: %s\n%s' % (type(e).__name__, e, traceback.format_exc()[-800:]), 'cfg': cfg}
    events = [list(e) for e in Sym.EQ_EVENTS]
    if fork.constraints or Sym.SIDE:
        assumptions = list(assumptions) + fork.constraints + list(Sym.SIDE)
    hard = bool(fork.constraints or Sym.SIDE)
    res = decide_job(cfg['group'], obs, assumptions, timeout_ms=(5000 if hard else cfg.get('timeout_ms', 60000)), extra=info, budget_s=(30 if hard else None))
    res['cfg'] = cfg
    res['eq_events'] = events
    res['build_s'] = time.time() - t0 - res['solver_s']
    if cfg.get('canary'):
        # perturbed oracle twin: must be sat
        name, lhs, rhs = obs[len(obs) // 2]
        c = decide_job('canary', [(name, lhs, Sym.lift(rhs) * Fraction(3, 2) + Sym.var('canary_eps'))], assumptions) if len(obs[len(obs) // 2]) == 3 else {'sat': [1]}
        res['canary_sat'] = len(c['sat']) == 1
    return res


def locus_job(build, cfg, t0):
    """the same configuration on an equality locus (cfg['alias']: one symbol identified with another symbol or pinned to a number).
    A locus that contradicts the configuration's own assumptions, or on which the run cannot be carried out (e.g. a division by the
    pinned value), is reported as not explored -- never as a violation or a harness error"""
    import z3
    empty = {'group': cfg['group'], 'n': 0, 'unsat': 0, 'sat': [], 'unknown': [], 'solver_s': 0, 'queries': 0, 'samples': [], 'extra': {}, 'cfg': cfg}
    try:
        obs, assumptions, info = build(cfg)
    except BaseException as e:
        if isinstance(e, (KeyboardInterrupt, SystemExit, NeedDecision)):
            raise
        Sym.ALIAS = {}
        return dict(empty, locus_skipped='%s: %s' % (type(e).__name__, str(e)[:160]))
    finally:
        alias = dict(Sym.ALIAS)
        Sym.ALIAS = {}
    subs = []
    for vn, to in alias.items():
        if to.startswith('lin:'):
            tt, cc = Sym.parse_lin(to)
            subs.append((z3.Real(vn), z3.Sum([z3.RealVal(str(c)) * z3.Real(n) for c, n in tt] + [z3.RealVal(str(cc))])))
            continue
        try:
            subs.append((z3.Real(vn), z3.RealVal(str(Fraction(to)))))
        except (ValueError, ZeroDivisionError):
            subs.append((z3.Real(vn), z3.Real(to)))
    alist = assumptions if isinstance(assumptions, (list, tuple)) else []
    for a in alist:
        try:
            if z3.is_false(z3.simplify(z3.substitute(a, *subs))):
                return dict(empty, locus_skipped='contradicts the assumption %s' % a)
        except Exception:
            pass
    if Sym.FORK is not None and Sym.FORK.constraints:
        assumptions = list(assumptions) + Sym.FORK.constraints
    events = [list(e) for e in Sym.EQ_EVENTS]
    res = decide_job(cfg['group'], obs, assumptions, timeout_ms=cfg.get('timeout_ms', 60000), extra=info)
    res['cfg'] = cfg
    res['eq_events'] = events
    res['build_s'] = time.time() - t0 - res['solver_s']
    return res


def _weight(cfg):
    w = 0
    for k in ('mn1', 'mn2', 'mn'):
        w += sum(int(x) for x in (cfg.get(k) or ()) if isinstance(x, int))
    return w + int(cfg.get('m') or 0) + int(cfg.get('n') or 0)


def explore_loci(modname, results, run=None, admissible=None, max_new=24, max_depth=3, prefer_largest=False, per_config=False, per_depth_budget=False):
    """further passes over the equality loci: wherever the executed package code compared a symbolic input with another symbolic
    input or with a number (== / !=), the first pass took the generic branch (not equal).  Every such locus is explored with the
    equality imposed (same symbol / that number), one follow-up per (locus, group); the comparisons met ON a locus are explored in
    turn (loci of loci, up to `max_depth` equalities at once: `if B11 != 0 or B22 != 0 or B66 != 0` needs three); comparisons
    between compound expressions other than products cannot be imposed by renaming and are listed as not explored"""
    from .harness import pmap
    unexplored, inadmissible, comparisons, skipped, explored = [], set(), set(), [], []
    out = list(results)
    frontier = [r for r in results]
    seen = set()
    budget = max_new
    for depth in range(max_depth):
        if per_depth_budget:
            budget = max_new        # loci of loci get their own follow-ups even when the first level used all of its own
        by_locus = {}
        for r in frontier:
            if r.get('error') or r.get('sat') or r.get('oob') or r.get('memview') or 'cfg' not in r:
                continue
            cfg0 = r['cfg']
            base_alias = dict(cfg0.get('alias') or {})
            for a, b, where in r.get('eq_events', []):
                a, b = (tuple(a) if a else None), (tuple(b) if b else None)
                pairs = []
                if a and b and a[0] == 'var' and b[0] in ('var', 'num'):
                    pairs = [(a[1], b[1])]
                elif a and b and b[0] == 'var' and a[0] == 'num':
                    pairs = [(b[1], a[1])]
                elif a and b and {a[0], b[0]} == {'prod', 'num'} and Fraction((a if a[0] == 'num' else b)[1]) == 0:
                    # a product of symbols compared with zero: one locus per factor that is an input (harness atoms are generic values)
                    pairs = [(nm, '0') for nm in (a if a[0] == 'prod' else b)[1].split(',') if '#' not in nm and '!' not in nm]
                elif a and b and 'lin' in (a[0], b[0]) and a[0] in ('var', 'num', 'lin') and b[0] in ('var', 'num', 'lin'):
                    # a linear combination of inputs compared with an input / a number / another combination (`Nxx + Nyy + Nxy != 0`):
                    # the locus is imposed by pinning one input to the combination of the others
                    def _lin(x):
                        if x[0] == 'var':
                            return {x[1]: Fraction(1)}, Fraction(0)
                        if x[0] == 'num':
                            return {}, Fraction(x[1])
                        tt, cc = Sym.parse_lin(x[1])
                        return {n: c for c, n in tt}, cc
                    (ta, ca), (tb, cb) = _lin(a), _lin(b)
                    diff = dict(ta)
                    for n_, c_ in tb.items():
                        diff[n_] = diff.get(n_, 0) - c_
                    diff = {n_: c_ for n_, c_ in diff.items() if c_ != 0}
                    free = [n_ for n_ in sorted(diff) if n_ not in base_alias and '#' not in n_ and '!' not in n_]
                    if free:
                        pv = free[-1]
                        cp = diff[pv]
                        others = {n_: -c_ / cp for n_, c_ in diff.items() if n_ != pv}
                        k0_ = -(ca - cb) / cp
                        pairs = [(pv, Sym.format_lin(others, k0_) if others else str(k0_))]
                if not pairs:
                    if len(unexplored) < 20 and not any(u['where'] == where for u in unexplored):
                        unexplored.append({'where': where, 'comparison': [a, b], 'configuration': cfg0['group']})
                    continue
                for vn, to in pairs:
                    if '#' in vn or '!' in vn or '#' in to or '!' in to or vn in base_alias or vn == 'pi' or to == 'pi':
                        continue            # harness atoms (integral tables, trig classes, the constant pi), not inputs
                    if admissible is not None and not admissible(vn, to, cfg0):
                        inadmissible.add('%s %s  @ %s' % (vn, to, where))
                        continue
                    comparisons.add('%s %s  @ %s' % (vn, to, where))
                    alias = dict(base_alias)
                    alias[vn] = to
                    key = (cfg0.get('base_group', cfg0['group']), cfg0.get('variant', cfg0.get('rel')), tuple(sorted(alias.items())))
                    if per_config:
                        key = key + (str(cfg0.get('mn1')), str(cfg0.get('mn2')), str(cfg0.get('mn')), cfg0.get('m'), cfg0.get('n'))
                    if key in seen:
                        if prefer_largest:
                            # one follow-up per (locus, group): on the configuration of the group with the most series terms
                            lst_ = by_locus.get((vn, to, where), [])
                            for i_, (c_, al_) in enumerate(lst_):
                                if c_.get('base_group', c_['group']) == cfg0.get('base_group', cfg0['group']) and al_ == alias and _weight(cfg0) > _weight(c_):
                                    lst_[i_] = (cfg0, alias)
                        continue
                    seen.add(key)
                    by_locus.setdefault((vn, to, where), []).append((cfg0, alias))
        follow = []
        k = 0
        while len(follow) < budget and any(len(v) > k for v in by_locus.values()):
            for lk, lst in sorted(by_locus.items()):
                if len(lst) > k and len(follow) < budget:
                    cfg0, alias = lst[k]
                    base = cfg0.get('base_group', cfg0['group'])
                    c2 = dict(cfg0, alias=alias, base_group=base,
                              group='%s:on-the-locus-%s' % (base, ','.join('%s=%s' % kv for kv in sorted(alias.items()))))
                    c2.pop('canary', None)
                    follow.append(c2)
            k += 1
        if not follow:
            break
        budget -= len(follow)
        res2 = pmap(job, [(modname, c) for c in follow])
        skipped += [{'locus': r['cfg']['alias'], 'configuration': r['cfg']['group'], 'why': r['locus_skipped']} for r in res2 if r.get('locus_skipped')]
        res2 = [r for r in res2 if not r.get('locus_skipped')]
        explored += [r['cfg']['group'] for r in res2]
        out += res2
        frontier = res2
        if budget <= 0 and not per_depth_budget:
            break
    if run is not None:
        run.extra['equality_loci'] = {
            'what': 'every ==/!= the executed package code applied to symbolic inputs; the first pass decides them as "not equal", further passes re-run the configuration with the equality imposed (and the equalities met there, up to %d at once)' % max_depth,
            'comparisons': sorted(comparisons),
            'explored': explored[:60], 'not_admissible_for_this_check': sorted(inadmissible)[:20],
            'not_explorable': skipped[:20], 'comparisons_between_compound_expressions': unexplored}
    return out


def concrete_replay(build, cfg, model_values):
    """exact-rational re-run of the same builder at the solver's point (atoms interpreted exactly).
    returns list of (name, lhs, rhs) that differ"""
    vals = {}
    for k, v in (model_values or {}).items():
        if '#' in k or '!' in k:
            continue
        try:
            vals[k] = Fraction(v)
        except (ValueError, ZeroDivisionError):
            try:
                vals[k] = Fraction(float(v))
            except Exception:
                pass
    # positive geometry for the replay
    for g in ('a', 'b', 'r', 'h', 'mu'):
        if g in vals and vals[g] <= 0:
            vals[g] = abs(vals[g]) + Fraction(1, 3)
    Sym.ALIAS = dict(cfg.get('alias') or {})
    reset()
    try:
        obs, _, info = build(cfg, values=vals)
    finally:
        Sym.ALIAS = {}
    bad = []
    for name, lhs, rhs in obs:
        l, r = Sym.lift(lhs), Sym.lift(rhs)
        d = l - r
        if not d.is_numeric():
            raise RuntimeError('replay left symbolic residue in %s' % name)
        if d.n != 0:
            bad.append((name, float(l.n), float(r.n)))
    return bad, info


def generic_replay(build, cfg, seed):
    """exact-rational re-run at a generic seeded point; a point that happens to be singular for the exact run (a denominator
    vanishes there) is replaced by the next one"""
    last = None
    for k in range(5):
        try:
            return concrete_replay(build, dict(cfg, seed=seed + k), {})
        except (ZeroDivisionError, ArithmeticError) as e:
            last = e
    raise last


def handle(run, results, build, what='entries differ from the oracle', signature=None):
    for res in results:
        if res.get('error'):
            # an exception of the package on an admissible input is a violation -- but only when the property module can show
            # it on the real (compiled, float) build; otherwise it is a harness error (exit 2), never a VIOLATION line
            hook = getattr(importlib.import_module(build.__module__), 'real_exception', None)
            real = None
            from .harness import REPO
            if hook is not None and (REPO.rstrip('/') + '/compmech/') in res['error']:
                try:
                    real = hook(res['cfg'])
                except Exception as e:
                    real = None
            if not real and 'of a symbolic value' in res['error']:
                # the executed code converts an input with float()/int(): the symbolic run cannot go on.  The same configuration is
                # run on exact rationals at seeded points instead (sampling, stated as such); a mismatch there is a replayed violation,
                # agreement leaves the configuration undecided (harness error: the solver never saw it)
                cfg = res['cfg']
                found = None
                for k in range(1, 4):
                    try:
                        bad, info = generic_replay(build, cfg, run.seed + 10 * k)
                    except Exception:
                        continue
                    if bad:
                        found = (bad, info)
                        break
                if found:
                    bad, info = found
                    run.obligations += 1
                    fam = bad[0][0].split('[')[0]
                    run.violation('%s/%s/%s' % (res['group'], cfg.get('variant', cfg.get('rel', '-')), fam),
                                  ('%s: %d ' + what + ' at an exact seeded point, e.g. %s impl=%.6g oracle=%.6g (the symbolic run stopped at a float()/int() conversion of an input in the package code: %s)') % (
                                      res['group'], len(bad), bad[0][0], bad[0][1], bad[0][2], res['error'].split('\n')[0][:120]),
                                  {'cfg': cfg, 'inputs': info['values'], 'differing_entries': bad[:10], 'decided_by': 'exact-rational run at a seeded point (no solver verdict for this configuration)'})
                    continue
            if real:
                run.obligations += 1
                cfg = res['cfg']
                run.violation('%s/%s/raises-%s' % (res['group'], cfg.get('variant', cfg.get('rel', '-')), res['error'].split(':')[0]),
                              '%s: the call raises on an admissible input -- %s; on the compiled build: %s' % (res['group'], res['error'].split('\n')[0][:200], real),
                              {'cfg': cfg, 'symbolic_run': res['error'][:600], 'compiled_build': real})
            else:
                run.harness_error('%s %s: %s' % (res['group'], res['cfg'], res['error'][:600]))
            continue
        if res.get('oob'):
            from .cysym import KernelOOB
            run.obligations += 1
            cfg = res['cfg']
            try:
                concrete_replay(build, cfg, {})
                again = None
            except KernelOOB as e:
                again = str(e)
            except Exception as e:
                again = None
            if again:
                run.violation('%s/%s/out-of-bounds-access' % (res['group'], cfg.get('variant', cfg.get('rel', '-'))),
                              '%s: a kernel indexes outside its buffer (%s); the compiled code is built without bounds checks' % (res['group'], again),
                              {'cfg': cfg, 'symbolic_run': res['oob'], 'exact_replay': again})
            else:
                run.harness_error('out-of-bounds access of %s did not reproduce in the exact replay: %s' % (res['group'], res['oob']))
            continue
        if res.get('memview'):
            # reproduced against the compiled build by the property module's `real_typeerror(cfg)` before it is reported
            run.obligations += 1
            cfg = res['cfg']
            hook = getattr(importlib.import_module(build.__module__), 'real_typeerror', None)
            real = hook(cfg) if hook else None
            if real:
                run.violation('%s/%s/typed-memoryview-arithmetic' % (res['group'], cfg.get('variant', cfg.get('rel', '-'))),
                              '%s: the call raises instead of returning the result -- %s; on the compiled build: %s' % (res['group'], res['memview'], real),
                              {'cfg': cfg, 'symbolic_run': res['memview'], 'compiled_build': real})
            else:
                run.harness_error('typed-memoryview TypeError of %s did not reproduce on the compiled build: %s' % (res['group'], res['memview']))
            continue
        sats = run.absorb_job(res)
        if 'canary_sat' in res:
            run.canary(res['canary_sat'], res['group'])
        st = res['extra'].get('stats', {})
        for k, v in st.items():
            run.extra.setdefault('int_divisions', 0)
            run.extra['int_divisions'] += v['int_divisions']
            run.extra.setdefault('literal_snaps', {}).update(v['literal_snaps'])
        if not sats:
            continue
        cfg = res['cfg']
        # one exact-rational replay per configuration; violations are keyed by obligation family (name up to '[')
        try:
            try:
                bad, info = concrete_replay(build, cfg, sats[0]['model'])
            except Exception:
                bad = []        # the solver's point is singular for the exact run (a denominator vanishes / an attribute is 0 there)
            if not bad:
                # the solver's point may sit on a special locus for the exact atoms: try a generic seeded point
                bad, info = generic_replay(build, cfg, run.seed + 1)
        except Exception as e:
            run.harness_error('replay of %s crashed: %s: %s' % (res['group'], type(e).__name__, e))
            continue
        fams = {}
        generic = None
        for sres in sats:
            fams.setdefault(sres['name'].split('[')[0], []).append(sres['name'])
        for fam, names in sorted(fams.items()):
            if fam.endswith('~known'):
                # characterisation of a recorded finding: only meaningful when the property obligation itself fails
                continue
            fbad = [b for b in bad if b[0].split('[')[0] == fam]
            if not fbad:
                # the point of the FIRST sat obligation may be a special one for this family: the generic seeded point decides
                if generic is None:
                    try:
                        generic = generic_replay(build, cfg, run.seed + 1)
                    except Exception:
                        generic = ([], info)
                fbad = [b for b in generic[0] if b[0].split('[')[0] == fam]
            if not fbad:
                run.harness_error('sat obligations %s of %s %s did not reproduce in the exact-rational replay' % (fam, res['group'], cfg))
                continue
            key = '%s/%s/%s' % (res['group'], cfg.get('variant', cfg.get('rel', '-')), fam)
            if (fam + '~known') in fams:
                key += '/differs-from-recorded-finding'
            witness = getattr(importlib.import_module(build.__module__), 'real_witness', None)
            wit = None
            if witness is not None:
                try:
                    wit = witness(cfg, fam)       # the same failure shown on the compiled (float) build, where the module can
                except Exception as e:
                    wit = {'error': '%s: %s' % (type(e).__name__, e)}
            run.violation(key, ('%s m=%d n=%d: %d ' + what + ', e.g. %s impl=%.6g oracle=%.6g') % (
                res['group'], cfg['m'], cfg['n'], len(fbad), fbad[0][0], fbad[0][1], fbad[0][2]),
                dict({'cfg': cfg, 'inputs': info['values'], 'differing_entries': fbad[:10], 'n_sat': len(names)}, **({'compiled_build': wit} if wit else {})),
                **({'signature': signature(cfg, fam, sorted(names))} if signature else {}))
