"""Contract stubs for the eigen-solvers used by compmech (ARPACK eigsh/eigs, LAPACK eigh/eig) and symbolic test
matrices.  A stub returns fresh symbolic eigenvalues mu_i and vectors V[:, i] and records the contract
    A v_i = mu_i M v_i     on the matrices it was ACTUALLY passed,
with the documented shapes (k columns for ARPACK, n for LAPACK); its call arguments are recorded so that the harness
can compare them with the constants the wrapper is documented to use.  ARPACK's precondition (k < N, resp. k < N-1)
is enforced the way scipy does: violating it raises."""
import numpy as np
import z3
from fractions import Fraction
from .sym import Sym, identity_terms
from .shadow import SpMat, ShimCSR


def dense_of(A):
    if isinstance(A, SpMat):
        return A.toarray()
    return np.asarray(A, dtype=object)


class EigWorld:
    def __init__(self, V=Sym.var, fail_first_sparse=False, recip=False):
        self.recip = recip       # eigenvalues returned as -1/l_i with l_i fresh: what lb() reports (-1/mu) is then linear
        self.ells = []
        self.V = V
        self.calls = []
        self.contracts = []      # z3 equalities
        self.contracts_by = {}   # (call, column) -> [z3 equalities]
        self.pairs = []          # (call index, i, mu Sym, v list[Sym])
        self.fail_first_sparse = fail_first_sparse
        self._n = 0
        self.on_fresh = None     # callable(mus) invoked when a solver stub creates its eigenvalues (ordering contract)

    def _fresh(self, kind, A, M, ncols, herm=True):
        n = A.shape[0]
        call = len(self.calls) - 1
        mus = np.zeros(ncols, dtype=object)
        Vm = np.zeros((n, ncols), dtype=object)
        for i in range(ncols):
            if self.recip:
                ell = self.V('ell%d_%d' % (call, i))
                self.ells.append((call, i, ell))
                mus[i] = Sym.lift(-1) / ell
            else:
                mus[i] = self.V('mu%d_%d' % (call, i))
            for r in range(n):
                Vm[r, i] = self.V('v%d_%d_%d' % (call, r, i))
            # contract rows
            for r in range(n):
                lhs = sum((A[r, j] * Vm[j, i] for j in range(n)), Sym.lift(0))
                rhs = mus[i] * sum((M[r, j] * Vm[j, i] for j in range(n)), Sym.lift(0))
                L, R = identity_terms(lhs, rhs)
                if not (isinstance(L, (int, float)) or isinstance(R, (int, float))):
                    self.contracts.append(L == R)
                    self.contracts_by.setdefault((call, i), []).append(L == R)
            self.pairs.append((call, i, mus[i], [Vm[r, i] for r in range(n)]))
        if self.on_fresh is not None:
            self.on_fresh(mus if not self.recip else [e[2] for e in self.ells if e[0] == call])
        return mus, Vm

    # ARPACK ---------------------------------------------------------------------------------------------
    def eigsh(self, A=None, k=6, M=None, sigma=None, which='LM', v0=None, ncv=None, maxiter=None, tol=0, return_eigenvectors=True,
              Minv=None, OPinv=None, mode='normal'):
        self.calls.append({'fn': 'eigsh', 'k': k, 'which': which, 'sigma': sigma, 'mode': mode, 'shape': tuple(A.shape), 'A': A, 'M': M})
        if self.fail_first_sparse and len([c for c in self.calls if c['fn'] == 'eigsh']) == 1:
            raise RuntimeError('Factor is exactly singular (stub: first ARPACK call fails, as with null rows/columns)')
        n = A.shape[0]
        if not (0 < int(k) < n):
            raise TypeError('Cannot use scipy.linalg.eigh for sparse A with k >= N. Use scipy.linalg.eigh(A.toarray()) or reduce k.')
        return self._fresh('eigsh', dense_of(A), dense_of(M), int(k))

    def eigs(self, A=None, k=6, M=None, sigma=None, which='LM', v0=None, ncv=None, maxiter=None, tol=0, return_eigenvectors=True,
             Minv=None, OPinv=None, OPpart=None):
        self.calls.append({'fn': 'eigs', 'k': k, 'which': which, 'sigma': sigma, 'shape': tuple(A.shape), 'A': A, 'M': M})
        n = A.shape[0]
        if not (0 < int(k) < n - 1):
            raise TypeError('Cannot use scipy.linalg.eig for sparse A with k >= N - 1. Use scipy.linalg.eig(A.toarray()) or reduce k.')
        return self._fresh('eigs', dense_of(A), dense_of(M), int(k))

    # LAPACK ---------------------------------------------------------------------------------------------
    def eigh(self, a=None, b=None, **kw):
        a, b = np.asarray(a, dtype=object), np.asarray(b, dtype=object)
        self.calls.append({'fn': 'eigh', 'shape': a.shape, 'A': a, 'M': b})
        if a.ndim != 2 or a.shape[0] != a.shape[1] or b.shape != a.shape:
            raise ValueError('expected square matrices of equal shape')
        return self._fresh('eigh', a, b, a.shape[0])

    def eig(self, a=None, b=None, **kw):
        a, b = np.asarray(a, dtype=object), np.asarray(b, dtype=object)
        self.calls.append({'fn': 'eig', 'shape': a.shape, 'A': a, 'M': b})
        if a.ndim != 2 or a.shape[0] != a.shape[1] or b.shape != a.shape:
            raise ValueError('expected square matrices of equal shape')
        return self._fresh('eig', a, b, a.shape[0])


def sym_matrix(name, n, active, V=Sym.var, symmetric=True, diag_only=False, skip=()):
    """n x n ShimCSR with symbolic entries on active x active (symmetric), zero elsewhere"""
    rr, cc, dd = [], [], []
    vals = {}
    for i in active:
        for j in active:
            if diag_only and i != j:
                continue
            if (i, j) in skip or (symmetric and (j, i) in skip):
                continue        # structurally zero entry
            key = (min(i, j), max(i, j)) if symmetric else (i, j)
            if key not in vals:
                vals[key] = V('%s_%d_%d' % (name, key[0], key[1]))
            rr.append(i)
            cc.append(j)
            dd.append(vals[key])
    data = np.zeros(len(dd), dtype=object)
    for t, v in enumerate(dd):
        data[t] = v
    return ShimCSR((data, (rr, cc)), shape=(n, n))


def sym_to_z3(x):
    """Sym -> z3 real term WITH division (for ordering decisions, where denominators cannot be cleared blindly)"""
    x = Sym.lift(x)
    num = x.n if not isinstance(x.n, Fraction) else z3.Q(x.n.numerator, x.n.denominator)
    den = Sym._mono(x.d)
    return num if den is None else num / den


def fork_policy(kind, lhs, rhs):
    """Sym.POLICY for runs under forksym: every comparison on symbolic values becomes a (possibly forking) decision"""
    from . import forksym as FS
    a, b = sym_to_z3(lhs), sym_to_z3(rhs)
    cond = {'eq': a == b, 'ne': a != b, 'lt': a < b, 'le': a <= b, 'gt': a > b, 'ge': a >= b}[kind]
    return FS.Ctx.cur.decide(cond)
