"""Shared driver for kernel-identity properties: worker job, exact-rational replay, violation handling.
A property module provides  build(cfg, values=None) -> (obligations, assumptions, info)."""
import time, json, importlib
from fractions import Fraction
from .harness import decide_job
from .sym import Sym, reset


def job(arg):
    modname, cfg = arg
    build = importlib.import_module(modname).build
    reset()
    t0 = time.time()
    from .cysym import KernelOOB
    try:
        obs, assumptions, info = build(cfg)
    except KernelOOB as e:
        # boundscheck=False / wraparound=False in the real build: an out-of-range index is silent memory corruption there
        return {'group': cfg['group'], 'n': 1, 'unsat': 0, 'sat': [], 'unknown': [], 'solver_s': 0, 'queries': 0, 'samples': [],
                'extra': {}, 'oob': str(e), 'cfg': cfg}
    except TypeError as e:
        import traceback
        if "'MemView'" in str(e):
            # arithmetic on a typed memoryview returned by a compiled kernel: a TypeError in the real build as well
            tb = traceback.extract_tb(e.__traceback__)
            where = next(('%s:%d %s' % (f.filename, f.lineno, f.line) for f in reversed(tb) if '/compmech/' in f.filename), '')
            return {'group': cfg['group'], 'n': 1, 'unsat': 0, 'sat': [], 'unknown': [], 'solver_s': 0, 'queries': 0, 'samples': [],
                    'extra': {}, 'memview': '%s (%s)' % (e, where), 'cfg': cfg}
        return {'group': cfg['group'], 'n': 0, 'unsat': 0, 'sat': [], 'unknown': [], 'solver_s': 0, 'queries': 0, 'samples': [],
                'extra': {}, 'error': '%s: %s\n%s' % (type(e).__name__, e, traceback.format_exc()[-800:]), 'cfg': cfg}
    except Exception as e:
        import traceback
        return {'group': cfg['group'], 'n': 0, 'unsat': 0, 'sat': [], 'unknown': [], 'solver_s': 0, 'queries': 0, 'samples': [],
                'extra': {}, 'error': '%s: %s\n%s' % (type(e).__name__, e, traceback.format_exc()[-800:]), 'cfg': cfg}
    res = decide_job(cfg['group'], obs, assumptions, timeout_ms=cfg.get('timeout_ms', 60000), extra=info)
    res['cfg'] = cfg
    res['build_s'] = time.time() - t0 - res['solver_s']
    if cfg.get('canary'):
        # perturbed oracle twin: must be sat
        name, lhs, rhs = obs[len(obs) // 2]
        c = decide_job('canary', [(name, lhs, Sym.lift(rhs) * Fraction(3, 2) + Sym.var('canary_eps'))], assumptions)
        res['canary_sat'] = len(c['sat']) == 1
    return res


def concrete_replay(build, cfg, model_values):
    """exact-rational re-run of the same builder at the solver's point (atoms interpreted exactly).
    returns list of (name, lhs, rhs) that differ"""
    vals = {}
    for k, v in (model_values or {}).items():
        if '#' in k or '!' in k:
            continue
        try:
            vals[k] = Fraction(v)
        except (ValueError, ZeroDivisionError):
            try:
                vals[k] = Fraction(float(v))
            except Exception:
                pass
    # positive geometry for the replay
    for g in ('a', 'b', 'r', 'h', 'mu'):
        if g in vals and vals[g] <= 0:
            vals[g] = abs(vals[g]) + Fraction(1, 3)
    reset()
    obs, _, info = build(cfg, values=vals)
    bad = []
    for name, lhs, rhs in obs:
        l, r = Sym.lift(lhs), Sym.lift(rhs)
        d = l - r
        if not d.is_numeric():
            raise RuntimeError('replay left symbolic residue in %s' % name)
        if d.n != 0:
            bad.append((name, float(l.n), float(r.n)))
    return bad, info


def handle(run, results, build, what='entries differ from the oracle', signature=None):
    for res in results:
        if res.get('error'):
            # an exception of the package on an admissible input is a violation -- but only when the property module can show
            # it on the real (compiled, float) build; otherwise it is a harness error (exit 2), never a VIOLATION line
            hook = getattr(importlib.import_module(build.__module__), 'real_exception', None)
            real = None
            if hook is not None and '/repo/compmech/' in res['error']:
                try:
                    real = hook(res['cfg'])
                except Exception as e:
                    real = None
            if real:
                run.obligations += 1
                cfg = res['cfg']
                run.violation('%s/%s/raises-%s' % (res['group'], cfg.get('variant', cfg.get('rel', '-')), res['error'].split(':')[0]),
                              '%s: the call raises on an admissible input -- %s; on the compiled build: %s' % (res['group'], res['error'].split('\n')[0][:200], real),
                              {'cfg': cfg, 'symbolic_run': res['error'][:600], 'compiled_build': real})
            else:
                run.harness_error('%s %s: %s' % (res['group'], res['cfg'], res['error'][:600]))
            continue
        if res.get('oob'):
            from .cysym import KernelOOB
            run.obligations += 1
            cfg = res['cfg']
            try:
                concrete_replay(build, cfg, {})
                again = None
            except KernelOOB as e:
                again = str(e)
            except Exception as e:
                again = None
            if again:
                run.violation('%s/%s/out-of-bounds-access' % (res['group'], cfg.get('variant', cfg.get('rel', '-'))),
                              '%s: a kernel indexes outside its buffer (%s); the compiled code is built without bounds checks' % (res['group'], again),
                              {'cfg': cfg, 'symbolic_run': res['oob'], 'exact_replay': again})
            else:
                run.harness_error('out-of-bounds access of %s did not reproduce in the exact replay: %s' % (res['group'], res['oob']))
            continue
        if res.get('memview'):
            # reproduced against the compiled build by the property module's `real_typeerror(cfg)` before it is reported
            run.obligations += 1
            cfg = res['cfg']
            hook = getattr(importlib.import_module(build.__module__), 'real_typeerror', None)
            real = hook(cfg) if hook else None
            if real:
                run.violation('%s/%s/typed-memoryview-arithmetic' % (res['group'], cfg.get('variant', cfg.get('rel', '-'))),
                              '%s: the call raises instead of returning the result -- %s; on the compiled build: %s' % (res['group'], res['memview'], real),
                              {'cfg': cfg, 'symbolic_run': res['memview'], 'compiled_build': real})
            else:
                run.harness_error('typed-memoryview TypeError of %s did not reproduce on the compiled build: %s' % (res['group'], res['memview']))
            continue
        sats = run.absorb_job(res)
        if 'canary_sat' in res:
            run.canary(res['canary_sat'], res['group'])
        st = res['extra'].get('stats', {})
        for k, v in st.items():
            run.extra.setdefault('int_divisions', 0)
            run.extra['int_divisions'] += v['int_divisions']
            run.extra.setdefault('literal_snaps', {}).update(v['literal_snaps'])
        if not sats:
            continue
        cfg = res['cfg']
        # one exact-rational replay per configuration; violations are keyed by obligation family (name up to '[')
        try:
            try:
                bad, info = concrete_replay(build, cfg, sats[0]['model'])
            except Exception:
                bad = []        # the solver's point is singular for the exact run (a denominator vanishes / an attribute is 0 there)
            if not bad:
                # the solver's point may sit on a special locus for the exact atoms: try a generic seeded point
                bad, info = concrete_replay(build, dict(cfg, seed=run.seed + 1), {})
        except Exception as e:
            run.harness_error('replay of %s crashed: %s: %s' % (res['group'], type(e).__name__, e))
            continue
        fams = {}
        generic = None
        for sres in sats:
            fams.setdefault(sres['name'].split('[')[0], []).append(sres['name'])
        for fam, names in sorted(fams.items()):
            if fam.endswith('~known'):
                # characterisation of a recorded finding: only meaningful when the property obligation itself fails
                continue
            fbad = [b for b in bad if b[0].split('[')[0] == fam]
            if not fbad:
                # the point of the FIRST sat obligation may be a special one for this family: the generic seeded point decides
                if generic is None:
                    try:
                        generic = concrete_replay(build, dict(cfg, seed=run.seed + 1), {})
                    except Exception:
                        generic = ([], info)
                fbad = [b for b in generic[0] if b[0].split('[')[0] == fam]
            if not fbad:
                run.harness_error('sat obligations %s of %s %s did not reproduce in the exact-rational replay' % (fam, res['group'], cfg))
                continue
            key = '%s/%s/%s' % (res['group'], cfg.get('variant', cfg.get('rel', '-')), fam)
            if (fam + '~known') in fams:
                key += '/differs-from-recorded-finding'
            run.violation(key, ('%s m=%d n=%d: %d ' + what + ', e.g. %s impl=%.6g oracle=%.6g') % (
                res['group'], cfg['m'], cfg['n'], len(fbad), fbad[0][0], fbad[0][1], fbad[0][2]),
                {'cfg': cfg, 'inputs': info['values'], 'differing_entries': fbad[:10], 'n_sat': len(names)},
                **({'signature': signature(cfg, fam, sorted(names))} if signature else {}))
