"""Probe: rational-function scalar over z3 polynomial terms; denominators are monomials of atoms."""
import z3
from fractions import Fraction

def _num(x):
    if isinstance(x, bool): raise TypeError
    if isinstance(x, int): return z3.RealVal(x)
    if isinstance(x, float):
        f = Fraction(x).limit_denominator(10**7)
        return z3.Q(f.numerator, f.denominator)
    if isinstance(x, Fraction): return z3.Q(x.numerator, x.denominator)
    raise TypeError(type(x))

class Sym:
    __slots__ = ('n', 'd')
    ATOMS = {}
    def __init__(self, n, d=None):
        self.n = n          # z3 real term (polynomial)
        self.d = d or {}    # {atom_key: power}
    @staticmethod
    def var(name):
        return Sym(z3.Real(name))
    @staticmethod
    def lift(x):
        if isinstance(x, Sym): return x
        return Sym(_num(x))
    @staticmethod
    def _lcm(d1, d2):
        out = dict(d1)
        for k, p in d2.items():
            if out.get(k, 0) < p: out[k] = p
        return out
    @staticmethod
    def _mono(d):
        t = None
        for k, p in d.items():
            a = Sym.ATOMS[k]
            for _ in range(p):
                t = a if t is None else t*a
        return t
    @staticmethod
    def _scale(n, dfrom, dto):
        diff = {k: p - dfrom.get(k, 0) for k, p in dto.items() if p - dfrom.get(k, 0) > 0}
        m = Sym._mono(diff)
        return n if m is None else n*m
    def __add__(self, o):
        o = Sym.lift(o)
        if self.d == o.d: return Sym(self.n + o.n, self.d)
        L = Sym._lcm(self.d, o.d)
        return Sym(Sym._scale(self.n, self.d, L) + Sym._scale(o.n, o.d, L), L)
    __radd__ = __add__
    def __neg__(self): return Sym(-self.n, self.d)
    def __sub__(self, o): return self + (-Sym.lift(o))
    def __rsub__(self, o): return Sym.lift(o) + (-self)
    def __mul__(self, o):
        o = Sym.lift(o)
        d = dict(self.d)
        for k, p in o.d.items(): d[k] = d.get(k, 0) + p
        return Sym(self.n*o.n, d)
    __rmul__ = __mul__
    def _as_atoms(self):
        """decompose numerator into numeric coeff * product of atoms if possible"""
        coeff = Fraction(1); atoms = {}
        def rec(t):
            nonlocal coeff
            if z3.is_rational_value(t):
                coeff *= Fraction(t.numerator_as_long(), t.denominator_as_long()); return True
            if z3.is_mul(t):
                return all(rec(c) for c in t.children())
            if z3.is_const(t) or True:
                k = t.get_id(); Sym.ATOMS[k] = t; atoms[k] = atoms.get(k, 0) + 1; return True
        rec(self.n)
        return coeff, atoms
    def __truediv__(self, o):
        o = Sym.lift(o)
        coeff, atoms = o._as_atoms()
        assert coeff != 0
        inv = Fraction(1)/coeff
        d = dict(self.d)
        for k, p in atoms.items(): d[k] = d.get(k, 0) + p
        n = self.n*z3.Q(inv.numerator, inv.denominator)
        # multiply by o's denominator
        m = Sym._mono(o.d)
        if m is not None: n = n*m
        return Sym(n, d)
    def __rtruediv__(self, o): return Sym.lift(o)/self
    def __pow__(self, k):
        assert isinstance(k, int) and k >= 0
        r = Sym.lift(1)
        for _ in range(k): r = r*self
        return r

def eq_terms(x, y):
    x = Sym.lift(x); y = Sym.lift(y)
    L = Sym._lcm(x.d, y.d)
    return Sym._scale(x.n, x.d, L), Sym._scale(y.n, y.d, L)
