#!/bin/bash
# usage: tools/mkwt.sh <dir>   -- scratch git worktree of /repo HEAD with the prebuilt extension modules copied in
set -e
D=$1
git -C /repo worktree add --detach "$D" HEAD >/dev/null 2>&1
cd /repo && find compmech -name "*.so" -o -name version.py | while read f; do cp -p "$f" "$D/$f"; done
echo "worktree $D ready"
