"""E5 oracles for panel matrices: Hessians of quadratic energies of the Bardell/Ritz displacement series.

Field:  p(x,y) = sum_{i<m, j<n} c[num*(j*m+i)+p] * f_i[flags p,x](xi) * f_j[flags p,y](eta),   p in (u, v, w)
        xi = 2x/a - 1, eta = 2y/b - 1,  d/dx = (2/a) d/dxi,  d/dy = (2/b) d/deta,  dA = (a b/4) dxi deta

An *operator* maps the field to a list of generalised strains: {strain: {comp: [(coef, dx, dy), ...]}}.
The Hessian of 1/2 int eps^T W eps dA  (W symmetric weight matrix over strains) is
    H[(i,j,p),(k,l,q)] = sum_{s,t} W[s][t] sum_{terms} coef_s coef_t (2/a)^(dx+dx') (2/b)^(dy+dy') (ab/4)
                           * I_x(dx,i,Fx_p ; dx',k,Fx_q) * I_y(dy,j,Fy_p ; dy',l,Fy_q)
with I_x, I_y the very atoms the kernels obtain from the integral tables (vf.atoms)."""
from fractions import Fraction
from ..sym import Sym

COMPS = ('u', 'v', 'w')
STRAINS = ('exx', 'eyy', 'gxy', 'kxx', 'kyy', 'kxy')


def donnell_ops(model, r=None, sina=None, cosa=None):
    """linear Donnell strain-displacement operators.  model: 'plate' | 'cpanel' | 'kpanel' (constant-radius section)"""
    one = Sym.lift(1)
    ops = {
        'exx': {'u': [(one, 1, 0)]},
        'eyy': {'v': [(one, 0, 1)]},
        'gxy': {'u': [(one, 0, 1)], 'v': [(one, 1, 0)]},
        'kxx': {'w': [(-one, 2, 0)]},
        'kyy': {'w': [(-one, 0, 2)]},
        'kxy': {'w': [(Sym.lift(-2), 1, 1)]},
    }
    if model == 'cpanel':
        ops['eyy']['w'] = [(one / r, 0, 0)]
    elif model == 'kpanel':
        # Donnell cone, meridional coordinate x measured from the bottom edge (radius decreasing with x):
        ops['eyy']['u'] = [(-sina / r, 0, 0)]       # placeholder sign convention; fixed against the kernel in c02 triage
        ops['eyy']['w'] = [(cosa / r, 0, 0)]
        ops['gxy']['v'].append((sina / r, 0, 0))
        ops['kyy']['w'].append((sina / r, 1, 0))
        ops['kxy']['w'].append((Sym.lift(-2) * sina / r, 0, 1))
    return ops


def weight_from_F(F):
    """6x6 laminate matrix (indexable [s][t]) -> weight dict"""
    return {(s, t): F[a][b] for a, s in enumerate(STRAINS) for b, t in enumerate(STRAINS)}


class Series:
    def __init__(self, m, n, a, b, flags, num=3, comps=COMPS):
        """flags: {comp: {'x': (1t,1r,2t,2r), 'y': (...)}}"""
        self.m, self.n, self.a, self.b, self.flags, self.num, self.comps = m, n, Sym.lift(a), Sym.lift(b), flags, num, comps

    def dof(self, i, j, p):
        return self.num * (j * self.m + i) + self.comps.index(p)

    def dofs(self):
        for j in range(self.n):
            for i in range(self.m):
                for p in self.comps:
                    yield i, j, p


def hessian(atoms, ops, W, S, xlim=None, ylim=None, S2=None, scale=None, only_upper=True):
    """{(row, col): Sym}.  S2: second series (for coupling blocks between two different panels' series on the same
    domain); scale: extra constant factor (default a*b/4)."""
    S2 = S2 or S
    a, b = S.a, S.b
    two = Sym.lift(2)
    jac = scale if scale is not None else a * b / 4
    # pre-compute operator terms per (strain, comp)
    out = {}
    sx = {0: Sym.lift(1), 1: two / a, 2: (two / a) ** 2, 3: (two / a) ** 3, 4: (two / a) ** 4}
    sy = {0: Sym.lift(1), 1: two / b, 2: (two / b) ** 2, 3: (two / b) ** 3, 4: (two / b) ** 4}
    # group weight terms by (comp p, comp q): list of (coef, dx, dy, dx2, dy2)
    pq = {}
    for (s, t), w in W.items():
        if isinstance(w, Sym) and w.is_zero():
            continue
        for p, terms_p in ops.get(s, {}).items():
            for q, terms_q in ops.get(t, {}).items():
                for (c1, dx1, dy1) in terms_p:
                    for (c2, dx2, dy2) in terms_q:
                        pq.setdefault((p, q), []).append((w * c1 * c2 * sx[dx1 + dx2] * sy[dy1 + dy2] * jac, dx1, dy1, dx2, dy2))
    for (i, j, p) in S.dofs():
        row = S.dof(i, j, p)
        for (k, l, q) in S2.dofs():
            col = S2.dof(k, l, q)
            if only_upper and S2 is S and row > col:
                continue
            terms = pq.get((p, q))
            if not terms:
                continue
            acc = Sym.lift(0)
            for (coef, dx1, dy1, dx2, dy2) in terms:
                Ix = atoms.I(dx1, i, S.flags[p]['x'], dx2, k, S2.flags[q]['x'], xlim)
                Iy = atoms.I(dy1, j, S.flags[p]['y'], dy2, l, S2.flags[q]['y'], ylim)
                acc = acc + coef * Ix * Iy
            out[(row, col)] = acc
    return out


def coo_to_dict(rows, cols, vals):
    """sum duplicate entries of a COO triple into {(r,c): Sym}; zero-valued untouched slots are dropped"""
    d = {}
    for r, c, v in zip(rows, cols, vals):
        if isinstance(v, (int, float)) and v == 0:
            continue
        if isinstance(v, Sym) and v.is_zero():
            continue
        k = (int(r), int(c))
        d[k] = d[k] + v if k in d else Sym.lift(v)
    return d
