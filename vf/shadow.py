"""E4: run compmech's real Python layer over symbolic data.

Nothing in /repo is edited: module globals of the imported package are swapped for the duration of a `Shadow()`
context --  DOUBLE -> object, scipy sparse classes -> an object-capable shim, numpy -> a proxy that lets object
arrays through isnan/isinf, logging -> silent, kernel modules (modelDB / connections / stiffener models) -> their
de-Cythonised twins executing on Sym scalars, eigen/linear solvers -> contract stubs supplied by the harness."""
import sys, os, types, importlib, contextlib
from fractions import Fraction
import numpy as _np
from .sym import Sym
from . import cysym
from .harness import REPO


# ------------------------------------------------------------------------------------------------
# sparse shim
# ------------------------------------------------------------------------------------------------
def _iszero(v):
    if isinstance(v, Sym):
        return v.is_zero()
    if hasattr(v, 're') and hasattr(v, 'im') and hasattr(v, 'is_zero'):
        return v.is_zero()
    if isinstance(v, (int, float, complex, Fraction, _np.number)):
        return v == 0
    return False


class SpMat:
    """COO triple with object data; behaves like the handful of scipy.sparse operations compmech uses"""
    format = 'coo'

    def __init__(self, arg=None, shape=None, dtype=None, **kw):
        if isinstance(arg, SpMat):
            self.shape = arg.shape
            r, c, d = arg._canon() if (self._canonical and not arg._canonical) else (arg.row, arg.col, arg.data)
            self.row, self.col, self.data = r.copy(), c.copy(), d.copy()
        elif isinstance(arg, tuple) and len(arg) == 2 and isinstance(arg[1], tuple):
            v, (r, c) = arg
            self.row = _np.asarray(r, dtype=_np.int64).copy()
            self.col = _np.asarray(c, dtype=_np.int64).copy()
            self.data = _np.asarray(v, dtype=object).copy() if not (isinstance(v, _np.ndarray) and v.dtype != object) else _np.asarray(v).astype(object)
            if shape is None:
                shape = (int(self.row.max()) + 1 if len(self.row) else 0, int(self.col.max()) + 1 if len(self.col) else 0)
            self.shape = tuple(int(s) for s in shape)
            if len(self.row) and (self.row.min() < 0 or self.col.min() < 0 or self.row.max() >= self.shape[0] or self.col.max() >= self.shape[1]):
                raise ValueError('row/column index exceeds matrix dimensions')
            if self._canonical:
                self.row, self.col, self.data = self._canon()
        elif isinstance(arg, tuple) and len(arg) == 2 and all(isinstance(x, (int, _np.integer)) for x in arg):
            self.shape = (int(arg[0]), int(arg[1]))
            self.row = _np.zeros(0, dtype=_np.int64)
            self.col = _np.zeros(0, dtype=_np.int64)
            self.data = _np.zeros(0, dtype=object)
        elif isinstance(arg, _np.ndarray) or isinstance(arg, (list,)):
            a = _np.asarray(arg, dtype=object)
            if a.ndim == 1:
                a = a.reshape(1, -1)
            self.shape = a.shape
            rr, cc, dd = [], [], []
            for i in range(a.shape[0]):
                for j in range(a.shape[1]):
                    if not _iszero(a[i, j]):
                        rr.append(i)
                        cc.append(j)
                        dd.append(a[i, j])
            self.row = _np.asarray(rr, dtype=_np.int64)
            self.col = _np.asarray(cc, dtype=_np.int64)
            self.data = _np.asarray(dd + [None], dtype=object)[:-1]
        else:
            # scipy matrices handed in
            try:
                coo = arg.tocoo()
                self.shape = coo.shape
                self.row, self.col = coo.row.astype(_np.int64), coo.col.astype(_np.int64)
                self.data = coo.data.astype(object)
            except AttributeError:
                raise TypeError('SpMat: unsupported constructor argument %r' % type(arg))
        self.dtype = _np.dtype(object)

    _canonical = False

    @property
    def _shape(self):
        return self.shape

    @_shape.setter
    def _shape(self, v):
        self.shape = tuple(int(x) for x in v)

    def _canon(self):
        d = {}
        order = []
        for r, c, v in zip(self.row, self.col, self.data):
            k = (int(r), int(c))
            if k in d:
                d[k] = d[k] + v
            else:
                d[k] = v
                order.append(k)
        order.sort()
        rr = _np.asarray([k[0] for k in order], dtype=_np.int64)
        cc = _np.asarray([k[1] for k in order], dtype=_np.int64)
        dd = _np.zeros(len(order), dtype=object)
        for t, k in enumerate(order):
            dd[t] = d[k]
        return rr, cc, dd

    def todict(self):
        d = {}
        for r, c, v in zip(self.row, self.col, self.data):
            k = (int(r), int(c))
            d[k] = d[k] + v if k in d else v
        return {k: v for k, v in d.items() if not _iszero(v)}

    # conversions
    def tocoo(self, copy=False): return ShimCOO(self)
    def tocsr(self, copy=False): return ShimCSR(self)
    def tocsc(self, copy=False): return ShimCSR(self)
    def copy(self): return type(self)(self)
    def asformat(self, f): return self

    def toarray(self):
        a = _np.zeros(self.shape, dtype=object)
        for r, c, v in zip(self.row, self.col, self.data):
            a[r, c] = a[r, c] + v
        return a
    todense = toarray

    @property
    def nnz(self): return len(self.data)

    @property
    def T(self):
        return type(self)((self.data, (self.col, self.row)), shape=(self.shape[1], self.shape[0]))

    def transpose(self): return self.T

    def nonzero(self):
        keep = _np.asarray([not _iszero(v) for v in self.data], dtype=bool)
        return self.row[keep], self.col[keep]

    def sum(self, axis=None):
        a = self.toarray()
        return a.sum(axis=axis)

    def diagonal(self):
        a = _np.zeros(min(self.shape), dtype=object)
        for r, c, v in zip(self.row, self.col, self.data):
            if r == c:
                a[r] = a[r] + v
        return a

    # arithmetic
    def __add__(self, o):
        if isinstance(o, SpMat):
            if o.shape != self.shape:
                raise ValueError('inconsistent shapes')
            return ShimCSR((_np.concatenate([self.data, o.data]), (_np.concatenate([self.row, o.row]), _np.concatenate([self.col, o.col]))), shape=self.shape)
        if isinstance(o, (int, float)) and o == 0:
            return self.copy()
        if isinstance(o, _np.ndarray):
            return self.toarray() + o
        return NotImplemented
    __radd__ = __add__

    def __iadd__(self, o):
        return self.__add__(o)

    def __sub__(self, o):
        if isinstance(o, SpMat):
            return self + (o * (-1))
        return NotImplemented

    def __neg__(self):
        return self * (-1)

    def __mul__(self, o):
        if isinstance(o, SpMat):
            return self.dot(o)
        if isinstance(o, _np.ndarray):
            return self.dot(o)
        out = type(self)(self)
        out.data = _np.asarray([v * o for v in self.data] + [None], dtype=object)[:-1]
        return out

    def __rmul__(self, o):
        if isinstance(o, _np.ndarray):
            return NotImplemented
        return self.__mul__(o)

    def __truediv__(self, o):
        out = type(self)(self)
        out.data = _np.asarray([v / o for v in self.data] + [None], dtype=object)[:-1]
        return out

    def __matmul__(self, o):
        return self.dot(o)

    def dot(self, o):
        if isinstance(o, SpMat):
            if self.shape[1] != o.shape[0]:
                raise ValueError('dimension mismatch')
            byrow = {}
            for r, c, v in zip(o.row, o.col, o.data):
                byrow.setdefault(int(r), []).append((int(c), v))
            rr, cc, dd = [], [], []
            for r, c, v in zip(self.row, self.col, self.data):
                for c2, v2 in byrow.get(int(c), ()):
                    rr.append(int(r)); cc.append(c2); dd.append(v * v2)
            return ShimCSR((_np.asarray(dd + [None], dtype=object)[:-1], (rr, cc)), shape=(self.shape[0], o.shape[1]))
        o = _np.asarray(o)
        if o.ndim == 1:
            if o.shape[0] != self.shape[1]:
                raise ValueError('dimension mismatch')
            out = _np.zeros(self.shape[0], dtype=object)
            for r, c, v in zip(self.row, self.col, self.data):
                out[r] = out[r] + v * o[c]
            return out
        if o.shape[0] != self.shape[1]:
            raise ValueError('dimension mismatch')
        out = _np.zeros((self.shape[0], o.shape[1]), dtype=object)
        for r, c, v in zip(self.row, self.col, self.data):
            for k in range(o.shape[1]):
                out[r, k] = out[r, k] + v * o[c, k]
        return out

    def __getitem__(self, key):
        if not isinstance(key, tuple) or len(key) != 2:
            raise IndexError('SpMat indexing needs two indices')
        ri, ci = key

        def norm(ix, n):
            if isinstance(ix, slice):
                return list(range(*ix.indices(n))), False
            if isinstance(ix, (int, _np.integer)):
                return [int(ix) % n if ix < 0 else int(ix)], True
            a = _np.asarray(ix)
            if a.dtype == bool:
                return [int(k) for k in _np.where(a)[0]], False
            out = []
            for k in a.ravel():
                k = int(k)
                if not (-n <= k < n):
                    raise IndexError('index (%d) out of range' % k)
                out.append(k % n)
            return out, False
        rsel, rs = norm(ri, self.shape[0])
        csel, cs = norm(ci, self.shape[1])
        if rs and cs:
            tot = 0
            for r, c, v in zip(self.row, self.col, self.data):
                if r == rsel[0] and c == csel[0]:
                    tot = tot + v
            return tot
        rmap = {}
        for new, old in enumerate(rsel):
            rmap.setdefault(old, []).append(new)
        cmap = {}
        for new, old in enumerate(csel):
            cmap.setdefault(old, []).append(new)
        rr, cc, dd = [], [], []
        for r, c, v in zip(self.row, self.col, self.data):
            for nr in rmap.get(int(r), ()):
                for nc in cmap.get(int(c), ()):
                    rr.append(nr); cc.append(nc); dd.append(v)
        return ShimCSR((_np.asarray(dd + [None], dtype=object)[:-1], (rr, cc)), shape=(len(rsel), len(csel)))

    def __repr__(self):
        return '<%s %dx%d, %d stored>' % (type(self).__name__, self.shape[0], self.shape[1], len(self.data))


class ShimCOO(SpMat):
    format = 'coo'
    _canonical = False


class ShimCSR(SpMat):
    format = 'csr'
    _canonical = True    # duplicates summed on construction, sorted (as scipy's csr conversion does)


class ShimCSC(ShimCSR):
    format = 'csc'


# ------------------------------------------------------------------------------------------------
# numpy proxy for the Python layer
# ------------------------------------------------------------------------------------------------
class NpShadow:
    def __getattr__(self, name):
        return getattr(_np, name)

    @staticmethod
    def _obj(a):
        return isinstance(a, _np.ndarray) and a.dtype == object

    def finfo(self, dtype=None):
        return _np.finfo(_np.float64 if (dtype is object or dtype is SymFloat or dtype is None) else dtype)

    def isnan(self, a):
        if self._obj(a):
            return _np.zeros(a.shape, dtype=bool)
        if isinstance(a, Sym):
            return False
        return _np.isnan(a)

    def isinf(self, a):
        if self._obj(a):
            return _np.zeros(a.shape, dtype=bool)
        if isinstance(a, Sym):
            return False
        return _np.isinf(a)

    def zeros(self, shape, dtype=None, **kw):
        if dtype is _np.float64 or dtype is float or dtype is SymFloat:
            dtype = object
        return _np.zeros(shape, dtype=dtype if dtype is not None else object, **kw)

    def ones(self, shape, dtype=None, **kw):
        a = self.zeros(shape, dtype=dtype)
        a[...] = 1
        return a

    def array(self, a, dtype=None, **kw):
        if dtype is _np.float64 or dtype is float or dtype is SymFloat:
            dtype = object
        return _np.array(a, dtype=dtype, **kw)

    def asarray(self, a, dtype=None, **kw):
        if dtype is _np.float64 or dtype is float or dtype is SymFloat:
            dtype = object
        return _np.asarray(a, dtype=dtype, **kw)

    def ascontiguousarray(self, a, dtype=None, **kw):
        if dtype is _np.float64 or dtype is float or dtype is SymFloat:
            dtype = object
        return _np.ascontiguousarray(a, dtype=dtype, **kw)

    def isclose(self, a, b, **kw):
        if isinstance(a, Sym) or isinstance(b, Sym):
            a, b = Sym.lift(a), Sym.lift(b)
            if a.is_numeric() and b.is_numeric():
                return bool(_np.isclose(float(a.n), float(b.n), **kw))
            return a.same(b)          # generic symbolic values: close only if identical
        return _np.isclose(a, b, **kw)

    def allclose(self, a, b, rtol=1e-05, atol=1e-08, equal_nan=False):
        """numpy's |a - b| <= atol + rtol*|b| entry by entry; on symbolic entries the comparison is an ordering comparison like any other of
        the executed code: the policy decides it or the run forks on it (kprop.Fork), the 'all close' outcome first"""
        A, B = _np.broadcast_arrays(_np.asarray(a, dtype=object), _np.asarray(b, dtype=object))
        for x, y in zip(A.ravel(), B.ravel()):
            x, y = Sym.lift(x), Sym.lift(y)
            if x.is_numeric() and y.is_numeric():
                ok = bool(_np.isclose(float(x.n), float(y.n), rtol=rtol, atol=atol))
            elif x.same(y):
                ok = True
            else:
                d = x - y
                tol = Sym.lift(atol) + Sym.lift(rtol) * (abs(y.n) if y.is_numeric() else abs(y))
                ok = bool(d * d <= tol * tol)
            if not ok:
                return False
        return True


def sym_deg2rad(x):
    return x      # angles never reach trigonometric functions in the shadow runs that use this stub


def _noop(*a, **k):
    return None


# ------------------------------------------------------------------------------------------------
# kernel twins
# ------------------------------------------------------------------------------------------------
class KernelSet:
    """de-Cythonised twins of the compiled kernel modules, sharing one Atoms table"""

    def __init__(self, atoms, mode='sym', extra_env=None):
        self.atoms = atoms
        self.mode = mode
        self.mods = {}
        self.extra_env = extra_env or {}

    def env(self):
        e = dict(self.atoms.make_env()) if self.atoms is not None else {}
        e['coo_matrix'] = ShimCOO
        e.update(self.extra_env)
        return e

    def get(self, relpath):
        if relpath not in self.mods:
            self.mods[relpath] = cysym.Module(os.path.join(REPO, relpath), env=self.env(), mode=self.mode)
        return self.mods[relpath]

    def ns(self, relpath):
        m = self.get(relpath)
        return types.SimpleNamespace(**{k: v for k, v in m.ns.items() if callable(v) or isinstance(v, (int, float))})


PANEL_MODELS = {
    'plate_clt_donnell_bardell': ('compmech/panel/models/plate_clt_donnell_bardell.pyx', 'compmech/panel/models/plate_clt_donnell_bardell_num.pyx', 'compmech/panel/models/clt_bardell_field.pyx'),
    'plate_clt_donnell_bardell_w': ('compmech/panel/models/plate_clt_donnell_bardell_w.pyx', None, 'compmech/panel/models/clt_bardell_field_w.pyx'),
    'cpanel_clt_donnell_bardell': ('compmech/panel/models/cpanel_clt_donnell_bardell.pyx', 'compmech/panel/models/cpanel_clt_donnell_bardell_num.pyx', 'compmech/panel/models/clt_bardell_field.pyx'),
    'kpanel_clt_donnell_bardell': ('compmech/panel/models/kpanel_clt_donnell_bardell.pyx', 'compmech/panel/models/kpanel_clt_donnell_bardell_num.pyx', 'compmech/panel/models/clt_bardell_field.pyx'),
}


class _SymFloatMeta(type):
    def __instancecheck__(cls, x):
        return isinstance(x, float)

    def __subclasscheck__(cls, c):
        return issubclass(c, float)

    def __call__(cls, x=0.0):
        # float() of an exact real is that real: a symbolic input stays symbolic (anything else is converted as usual)
        if isinstance(x, Sym) and not x.is_numeric():
            return x
        return float(x)


class SymFloat(metaclass=_SymFloatMeta):
    """what the name `float` stands for inside the package's Python modules during a symbolic run"""


class Shadow:
    """context manager: patch the imported compmech modules, restore on exit"""

    def __init__(self, kernels=None, stubs=None, policy=None, patch_models=True):
        self.kernels = kernels
        self.stubs = stubs or {}
        self.policy = policy
        self.saved = []
        self.patch_models = patch_models

    def _set(self, mod, name, val):
        self.saved.append((mod, name, getattr(mod, name, _MISSING)))
        setattr(mod, name, val)

    def __enter__(self):
        import compmech.sparse as sp
        import compmech.panel._panel as pn
        import compmech.panel.modelDB as mdb
        import compmech.constants as cst
        mods = [sp, pn]
        for name in ('compmech.panel.assembly.assembly', 'compmech.stiffpanelbay.stiffpanelbay', 'compmech.stiffener.bladestiff1d',
                     'compmech.stiffener.bladestiff2d', 'compmech.stiffener.tstiff2d', 'compmech.analysis.static',
                     'compmech.analysis.analysis', 'compmech.analysis.linear_buckling', 'compmech.analysis.freq',
                     'compmech.analysis.newton_raphson', 'compmech.composite.laminate', 'compmech.composite.lamina',
                     'compmech.composite.matlamina', 'compmech.panel.connections.penalty_constants'):
            try:
                mods.append(importlib.import_module(name))
            except Exception:
                pass
        npx = NpShadow()
        for m in mods:
            self._set(m, 'float', SymFloat)
            if hasattr(m, 'np'):
                self._set(m, 'np', npx)
            if hasattr(m, 'DOUBLE'):
                self._set(m, 'DOUBLE', object)
            for nm, shim in (('coo_matrix', ShimCOO), ('csr_matrix', ShimCSR), ('csc_matrix', ShimCSC)):
                if hasattr(m, nm):
                    self._set(m, nm, shim)
            for nm in ('msg', 'warn', 'log', 'error'):
                if hasattr(m, nm) and callable(getattr(m, nm)):
                    self._set(m, nm, _noop)
            for nm, fn in self.stubs.items():
                if '.' in nm:
                    continue
                if hasattr(m, nm):
                    self._set(m, nm, fn)
        for nm, fn in self.stubs.items():
            if '.' in nm:
                modname, attr = nm.rsplit('.', 1)
                self._set(importlib.import_module(modname), attr, fn)
        self._set(cst, 'DOUBLE', object)
        if self.kernels is not None and self.patch_models:
            newdb = {}
            for model, entry in mdb.db.items():
                e = dict(entry)
                if model in PANEL_MODELS:
                    mat, num, fld = PANEL_MODELS[model]
                    e['matrices'] = LazyNS(self.kernels, mat)
                    if num:
                        e['matrices_num'] = LazyNS(self.kernels, num)
                    e['field'] = LazyNS(self.kernels, fld)
                newdb[model] = e
            self._set(mdb, 'db', newdb)
        self._policy_saved = Sym.POLICY
        if self.policy is not None:
            Sym.POLICY = self.policy
        return self

    def __exit__(self, *exc):
        for mod, name, old in reversed(self.saved):
            if old is _MISSING:
                try:
                    delattr(mod, name)
                except AttributeError:
                    pass
            else:
                setattr(mod, name, old)
        self.saved = []
        Sym.POLICY = self._policy_saved
        return False


class LazyNS:
    def __init__(self, kernels, relpath):
        self._k, self._p = kernels, relpath

    def __getattr__(self, name):
        return self._k.get(self._p).ns[name]


_MISSING = object()


class GenericPolicy:
    """comparison policy for E4 runs: a symbolic value is *generic* (not equal to any particular number);
    every decision is recorded so that evidence lists the branch assumptions"""

    def __init__(self, positive=()):
        self.log = []
        self.positive = set(positive)
        self.eq_events = []      # equalities between symbolic values the executed code branched on (decided 'not equal')

    @staticmethod
    def describe(x):
        """('var', name) for a bare symbol, ('num', 'p/q') for a number, None for anything else"""
        import z3
        if x.is_numeric():
            return ('num', str(x.n))
        if not x.d and z3.is_const(x.n) and x.n.decl().kind() == z3.Z3_OP_UNINTERPRETED:
            return ('var', x.n.decl().name())
        return None

    def __call__(self, kind, lhs, rhs):
        if kind in ('eq', 'ne'):
            ev = (self.describe(lhs), self.describe(rhs))
            if ev not in self.eq_events:
                self.eq_events.append(ev)
                import os
                if os.environ.get('VERIF_EQ_LOG'):
                    import traceback
                    fr = [f for f in traceback.extract_stack() if '/repo/compmech/' in f.filename]
                    open(os.environ['VERIF_EQ_LOG'], 'a').write('%s %s :: %s\n' % (ev, (lhs, rhs) if None in ev else '', '%s:%d %s' % (fr[-1].filename, fr[-1].lineno, fr[-1].line) if fr else '?'))
        if kind == 'ne':
            r = True
        elif kind == 'eq':
            r = False
        else:
            raise_from = 'ordering comparison (%s) on symbolic values is not covered by the generic policy' % kind
            from .sym import SymBranch
            raise SymBranch(raise_from)
        self.log.append('%s -> %s' % (kind, r))
        return r
