#!/bin/bash
# usage: tools/try_seed.sh <seed-name> <Cxx> [tier] : apply the seeded patch to /repo, run the check, undo
N=$1; P=$2; T=${3:-quick}
cd /repo && git apply $(ls /verif/seeded/$N/patch_rebased*.diff 2>/dev/null || echo /verif/seeded/$N/patch.diff) || { echo "PATCH FAILED"; exit 3; }
cd /verif && ./check $P --tier $T 2>&1 | grep -E "VIOLATION|KNOWN|HARNESS|tier=" | cut -c1-300 | head -8
echo "exit=${PIPESTATUS[0]}"
git -C /repo checkout -- . ; git -C /repo status --short | head -3
