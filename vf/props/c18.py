"""C18 -- Shell loads, prescribed amplitudes and partitioning are mutually consistent (Donnell / Sanders CLPT and Donnell FSDT, bc1-bc4).

E4: the real ConeCyl object (conecyl.py: _rebuild, exclude_dofs_matrix, calc_full_c, calc_fext, uvw) with symbolic attributes;
E1: clpt_commons_bc*.pyx (fg, fuvw, cfuvw, ...) de-Cythonised, trigonometric values as atoms (vf/trig.py).
 (G) derived geometry: for each admissible pair out of {r1, r2, H, L} plus the angle:  r1 = r2 + L sin(a), H = L cos(a),
     and a second _rebuild changes nothing;
 (P) exclude_dofs_matrix followed by re-insertion is the identity on a symbolic matrix, for every subset of prescribed
     amplitudes the API admits; calc_full_c inverts the removal for any load factor;
 (F) load vector: point forces (constant / incrementable) = virtual work against the package's own uvw at the force point;
     axial load, torque (force controlled) and prescribed shortening / rotation terms against their definitions;
     uniform pressure and a circumferentially varying (harmonic) axial edge load = virtual work integrated exactly over the
     surface / the edge (vf/trigpoly.py);
 (H) the book-keeping follows the CURRENT prescribed-amplitude flags and values when they were defined after a first rebuild."""
import json, itertools
import numpy as np
import z3
from fractions import Fraction
from ..harness import Run, pmap
from .. import kprop
from ..sym import Sym
from ..conesym import ConeCtx, COMMONS
from ..eigstubs import sym_matrix, dense_of
from ..shadow import ShimCOO
import compmech.conecyl.modelDB as _mdb
MDB = _mdb.db


def build(cfg, values=None):
    variant = cfg['variant']
    ctx = ConeCtx(values=values, seed=cfg.get('seed', 0))
    obs = []
    assumptions = []
    with ctx.shadow():
        cc = ctx.new_cone(cfg.get('model', 'clpt_donnell_bc1'), *cfg.get('mn', (1, 1, 1)))
        V = ctx.V
        if variant == 'geometry':
            given = cfg['given']
            cyl = cfg.get('cylinder', False)
            cc.alphadeg = 0. if cyl else V('alphadeg')
            for nm in given:
                setattr(cc, nm, V(nm))
            cc._rebuild()
            sina, cosa = (Sym.lift(0), Sym.lift(1)) if cyl else (cc.sina, cc.cosa)
            obs.append(('geometry[r1=r2+L*sina]', cc.r1, cc.r2 + cc.L * sina))
            obs.append(('geometry[H=L*cosa]', cc.H, cc.L * cosa))
            for nm in given:
                obs.append(('geometry-input-kept[%s]' % nm, getattr(cc, nm), V(nm)))
            first = {nm: getattr(cc, nm) for nm in ('r1', 'r2', 'H', 'L')}
            cc._rebuild()
            for nm, v in first.items():
                obs.append(('geometry-idempotent[%s]' % nm, getattr(cc, nm), v))
        elif variant == 'partition':
            cc.r2, cc.L = V('r2'), V('L')
            cc.alphadeg = V('alphadeg')
            if cfg.get('after_other_settings'):
                # the object was already rebuilt with OTHER prescribed-amplitude settings (flags and values defined later, as after
                # add_SPL / a first analysis): the book-keeping must follow the current ones
                cc.Fc = V('Fc')
                cc.pdC, cc.pdT, cc.pdLA = (not cfg['pd'][0]), (not cfg['pd'][1]), True
                cc.uTM, cc.thetaTdeg, cc.betadeg = V('uTM_before'), V('thetaTdeg_before'), V('betadeg_before')
                cc._rebuild()
            cc.pdC, cc.pdT, cc.pdLA = cfg['pd']
            cc.uTM, cc.thetaTdeg, cc.betadeg = V('uTM'), V('thetaTdeg'), V('betadeg')
            cc._rebuild()
            size = cc.get_size()
            # which amplitudes are prescribed, and to what, follows from the CURRENT flags and values (not from the object's own list)
            want = [(0, cc.uTM)] * bool(cfg['pd'][0]) + [(1, ctx.deg2rad(cc.thetaTdeg))] * bool(cfg['pd'][1]) + [(2, getattr(cc, 'LA', None))] * bool(cfg['pd'][2])
            got = list(zip(cc.excluded_dofs, cc.excluded_dofs_ck))
            obs.append(('prescribed-amplitudes-count', Sym.lift(len(got)), Sym.lift(len(want))))
            for (i1, v1), (i2, v2) in zip(got, want):
                obs.append(('prescribed-amplitude-index[%d]' % i2, Sym.lift(i1), Sym.lift(i2)))
                if v2 is not None and v1 is not None:
                    obs.append(('prescribed-amplitude-value[%d]' % i2, Sym.lift(v1), Sym.lift(v2)))
            ex = sorted(i for i, _ in want)
            K = sym_matrix('K', size, list(range(size)), V, symmetric=False)
            out = cc.exclude_dofs_matrix(ShimCOO(K), return_kkk=True, return_kku=True, return_kuk=True)
            Kd = dense_of(K)
            keep = [i for i in range(size) if i not in ex]
            kuu = dense_of(out['kuu'])
            if kuu.shape != (len(keep), len(keep)):
                obs.append(('kuu-shape', Sym.lift(kuu.shape[0]), Sym.lift(len(keep))))
            else:
                for a, i in enumerate(keep):
                    for b, j in enumerate(keep):
                        obs.append(('kuu[%d,%d]' % (a, b), kuu[a, b], Kd[i, j]))
            num0 = cc.num0
            k0keep = [i for i in range(num0) if i not in ex]
            kkk = np.asarray(out['kkk'], dtype=object)
            for a, i in enumerate(k0keep):
                for b, j in enumerate(k0keep):
                    obs.append(('kkk[%d,%d]' % (a, b), kkk[a, b], Kd[i, j]))
            kku = np.asarray(out['kku'], dtype=object)     # rows 0..num0-1 of k, excluded columns removed
            for i in range(num0):
                for b, j in enumerate(keep):
                    obs.append(('kku[%d,%d]' % (i, b), kku[i, b], Kd[i, j]))
            kuk = np.asarray(out['kuk'], dtype=object)     # columns 0..num0-1 of k, excluded rows removed
            for a, i in enumerate(keep):
                for j in range(num0):
                    obs.append(('kuk[%d,%d]' % (a, j), kuk[a, j], Kd[i, j]))
            # calc_full_c inverts the removal
            inc = V('inc')
            cu = np.zeros(len(keep), dtype=object)
            for a in range(len(keep)):
                cu[a] = V('cu%d' % a)
            cu0 = cu.copy()
            cfull = cc.calc_full_c(cu, inc=inc)
            if len(cfull) != size:
                obs.append(('full-c-length', Sym.lift(len(cfull)), Sym.lift(size)))
            else:
                ck = dict(zip(cc.excluded_dofs, cc.excluded_dofs_ck))
                for a, i in enumerate(keep):
                    obs.append(('full-c-free[%d]' % i, cfull[i], cu0[a]))
                for i in ex:
                    obs.append(('full-c-prescribed[%d]' % i, cfull[i], inc * ck[i]))
            for a in range(len(cu)):
                if cu[a] is not cu0[a]:
                    obs.append(('caller-cu-unchanged[%d]' % a, Sym.lift(1), Sym.lift(0)))
            # a FULL-size vector (what calc_full_c itself returned, or an eigenvector): prescribed amplitudes scaled by the load
            # factor, the rest untouched, the caller's array not modified, and the same answer when asked again
            cf = np.zeros(size, dtype=object)
            for i in range(size):
                cf[i] = V('cf%d' % i)
            cf0 = cf.copy()
            for rep in (1, 2):
                again = cc.calc_full_c(cf, inc=inc)
                if len(again) != size:
                    obs.append(('full-c-of-full-vector-length', Sym.lift(len(again)), Sym.lift(size)))
                    break
                for i in range(size):
                    obs.append(('full-c-of-full-vector-call%d[%d]' % (rep, i), again[i], inc * cf0[i] if i in ex else cf0[i]))
            for i in range(size):
                if cf[i] is not cf0[i]:
                    obs.append(('caller-full-vector-unchanged[%d]' % i, Sym.lift(1), Sym.lift(0)))
        elif variant == 'load-helpers':
            # add_SPL / add_force as the FIRST calls on a freshly defined shell: the stored loads sit at pt * (meridian length of the
            # current definition), at the angle in radians, with the documented components, in the constant / incrementable list asked for
            given = cfg['given']
            cc.alphadeg = 0. if cfg.get('cylinder') else V('alphadeg')
            for nm in given:
                setattr(cc, nm, V(nm))
            PL, pt, th = V('PL'), V('pt'), V('thetadeg')
            cc.add_SPL(PL, pt=pt, thetadeg=th)
            cc.add_SPL(V('PL2'), pt=V('pt2'), thetadeg=V('thetadeg2'), increment=True)
            cc.add_force(V('fx_x'), V('f_thetadeg'), V('fx'), V('ft'), V('fz'))
            cc.add_force(V('gx_x'), V('g_thetadeg'), V('gx'), V('gt'), V('gz'), increment=True)
            cc._rebuild()
            Lm = cc.L
            want_c = [[pt * Lm, ctx.deg2rad(th), 0, 0, -PL], [V('fx_x'), ctx.deg2rad(V('f_thetadeg')), V('fx'), V('ft'), V('fz')]]
            want_i = [[V('pt2') * Lm, ctx.deg2rad(V('thetadeg2')), 0, 0, -V('PL2')], [V('gx_x'), ctx.deg2rad(V('g_thetadeg')), V('gx'), V('gt'), V('gz')]]
            for tag, got, want in (('constant', cc.forces, want_c), ('incrementable', cc.forces_inc, want_i)):
                obs.append(('load-list-length[%s]' % tag, Sym.lift(len(got)), Sym.lift(len(want))))
                for q, (g_, w_) in enumerate(zip(got, want)):
                    for k_, nm in enumerate(('x', 'theta', 'fx', 'ftheta', 'fz')):
                        obs.append(('stored-load[%s,%d,%s]' % (tag, q, nm), Sym.lift(g_[k_]), Sym.lift(w_[k_])))
        elif variant == 'fext':
            cc.r2, cc.L = V('r2'), V('L')
            cc.alphadeg = V('alphadeg')
            cc.tLAdeg = V('tLAdeg')
            cc.pdC, cc.pdT, cc.pdLA = cfg['pd']
            cc.uTM, cc.thetaTdeg = V('uTM'), V('thetaTdeg')
            cc.T, cc.T_inc = (V('T'), V('T_inc')) if not cc.pdT else (0., 0.)
            inc = V('inc')
            F1 = [V('x1'), V('th1'), V('fx1'), V('ft1'), V('fz1')]
            F2 = [V('x2'), V('th2'), V('fx2'), V('ft2'), V('fz2')]
            cc.forces.append(F1)
            cc.forces_inc.append(F2)
            if not cc.pdC:
                cc.Fc = V('Fc')
            # the linear matrices are not the subject here (C16): a placeholder of the right size keeps calc_fext from computing them
            from ..shadow import ShimCSR
            nsz = MDB[cc.model]['num0'] + MDB[cc.model]['num1'] * cc.m1 + MDB[cc.model]['num2'] * cc.m2 * cc.n2
            cc._rebuild()
            from ..conesym import pin_linear
            pin_linear(cc, ShimCSR((nsz, nsz)))
            size = cc.get_size()
            ex = sorted(cc.excluded_dofs)
            keep = [i for i in range(size) if i not in ex]
            kuk = np.zeros((len(keep), cc.num0), dtype=object)
            for a in range(len(keep)):
                for j in range(cc.num0):
                    kuk[a, j] = V('kuk_%d_%d' % (a, j))
            pin_linear(cc, ShimCSR((nsz, nsz)))      # placeholder matrices of the CURRENT definition
            fext = cc.calc_fext(inc=inc, kuk=kuk, silent=True)
            if len(fext) != len(keep):
                obs.append(('fext-length', Sym.lift(len(fext)), Sym.lift(len(keep))))
            # expected: virtual work d/dc of  sum F.(u,v,w)(x_F, theta_F)  via the package's own uvw with unit amplitudes
            cc.out_num_cores = 1
            exp = [Sym.lift(0)] * size
            for (x, th, fx, ft, fz), scale in ((F1, Sym.lift(1)), (F2, inc)):
                for k in range(size):
                    e = np.zeros(size, dtype=object)
                    e[k] = 1
                    u, v, w, _, _ = cc.uvw(e, xs=np.array([x], dtype=object), ts=np.array([th], dtype=object), inc=1)
                    exp[k] = exp[k] + scale * (fx * u[0] + ft * v[0] + fz * w[0])
            # torque (force controlled): T/r2 acting along theta at (x, theta) = (0, 0)
            if not cc.pdT:
                T = cc.T + inc * cc.T_inc
                for k in range(size):
                    e = np.zeros(size, dtype=object)
                    e[k] = 1
                    u, v, w, _, _ = cc.uvw(e, xs=np.array([0], dtype=object), ts=np.array([0], dtype=object), inc=1)
                    exp[k] = exp[k] + (T / cc.r2) * v[0]
            # axial compression given as a force: uniform line load Nxx = Fc/(2 pi r2 cosa) on the top edge, u(0, theta) = c0/cosa + ...
            if 0 not in ex:
                exp[0] = exp[0] + inc * cc.Fc / cc.cosa / cc.cosa      # the axial load is applied with the load factor
            red = [exp[i] for i in keep]
            # prescribed shortening / rotation: -c_k * K_uk[:, k]
            if 0 in ex:
                for a in range(len(keep)):
                    red[a] = red[a] - inc * cc.uTM * kuk[a, 0]
            if 1 in ex:
                for a in range(len(keep)):
                    red[a] = red[a] - inc * cc.thetaTrad * kuk[a, 1]
            for a in range(min(len(fext), len(keep))):
                obs.append(('fext[%d]' % a, fext[a], red[a]))
        elif variant == 'fext-pressure':
            # uniform internal pressure: load vector = virtual work  int int P w_k r dx dtheta  over the shell surface with the exact
            # running radius r = r2 + x sin(alpha), the package's own w field, integrated in closed form (vf/trigpoly.py)
            from .. import cysym
            from ..trigpoly import World, TP
            from ..harness import REPO
            import os
            from ..shadow import ShimCSR
            model = cfg['model']
            cc.r2, cc.L = V('r2'), V('L')
            cc.alphadeg = V('alphadeg')
            cc.tLAdeg = V('tLAdeg')
            cc.pdC, cc.pdT, cc.pdLA = True, True, True
            cc.uTM, cc.thetaTdeg = 0., 0.
            cc.Fc = 0.
            cc.P, cc.P_inc = V('P'), V('P_inc')
            inc = V('inc')
            nsz = MDB[cc.model]['num0'] + MDB[cc.model]['num1'] * cc.m1 + MDB[cc.model]['num2'] * cc.m2 * cc.n2
            cc._rebuild()
            from ..conesym import pin_linear
            pin_linear(cc, ShimCSR((nsz, nsz)))
            size = cc.get_size()
            keep = [i for i in range(size) if i not in sorted(cc.excluded_dofs)]
            kuk = np.zeros((len(keep), cc.num0), dtype=object)
            for a in range(len(keep)):
                for j in range(cc.num0):
                    kuk[a, j] = 0
            pin_linear(cc, ShimCSR((nsz, nsz)))      # placeholder matrices of the CURRENT definition
            fext = cc.calc_fext(inc=inc, kuk=kuk, silent=True)
            W = World(ctx.trig, cc.L, ctx.trig._same)
            W.set_radius(cc.r2, cc.sina, cc.r2)       # only the rotation phit (not used here) divides by r
            cenv = dict(ctx.kernels.extra_env)
            cenv.update({'sin': W.sin, 'cos': W.cos})
            C = cysym.Module(os.path.join(REPO, COMMONS[model]), env=cenv).ns
            r_tp = TP.const(cc.r2, W) + W.x * Sym.lift(cc.sina)
            Ptot = cc.P + inc * cc.P_inc
            for a, k in enumerate(keep):
                e = np.zeros(size, dtype=object)
                e[k] = 1
                out = C['fuvw'](e, cc.m1, cc.m2, cc.n2, cc.alpharad, cc.r2, cc.L, cc.tLArad, np.array([W.x], dtype=object), np.array([W.theta], dtype=object), 1)
                w = np.ravel(out[2])[0]
                w = w if isinstance(w, TP) else TP.const(w, W)
                val = W.integrate(w * r_tp, 0, cc.L)
                obs.append(('fext-pressure[%d]' % k, fext[a], Ptot * val.re))
        elif variant == 'fext-harmonics':
            # circumferentially varying axial line load on the top edge, Nxx(theta) = N[0] + sum_j N[2j-1] sin(j theta) + N[2j] cos(j theta):
            # its load vector against the virtual work  oint Nxx u_k(0, theta) r2 dtheta  of the package's own u field, the integral
            # over theta done exactly (vf/trigpoly.py)
            from .. import cysym
            from ..trigpoly import World, TP
            from ..harness import REPO
            import os
            from ..shadow import ShimCSR
            model = cfg['model']
            cc.r2, cc.L = V('r2'), V('L')
            cc.alphadeg = V('alphadeg')
            cc.tLAdeg = V('tLAdeg')
            cc.pdC, cc.pdT, cc.pdLA = False, True, True
            n2 = cc.n2
            N = np.array([V('N%d' % k) for k in range(2 * n2 + 1)], dtype=object)
            cc.Nxxtop = N.copy()
            inc = V('inc')
            nsz = MDB[cc.model]['num0'] + MDB[cc.model]['num1'] * cc.m1 + MDB[cc.model]['num2'] * cc.m2 * cc.n2
            cc._rebuild()
            from ..conesym import pin_linear
            pin_linear(cc, ShimCSR((nsz, nsz)))
            size = cc.get_size()
            ex = sorted(cc.excluded_dofs)
            keep = [i for i in range(size) if i not in ex]
            kuk = np.zeros((len(keep), cc.num0), dtype=object)
            for a in range(len(keep)):
                for j in range(cc.num0):
                    kuk[a, j] = 0
            pin_linear(cc, ShimCSR((nsz, nsz)))      # placeholder matrices of the CURRENT definition
            fext = cc.calc_fext(inc=inc, kuk=kuk, silent=True)
            W = World(ctx.trig, cc.L, ctx.trig._same)
            cenv = dict(ctx.kernels.extra_env)
            cenv.update({'sin': W.sin, 'cos': W.cos})
            C = cysym.Module(os.path.join(REPO, COMMONS[model]), env=cenv).ns
            Nxx = TP.const(N[0], W)
            for j in range(1, n2 + 1):
                Nxx = Nxx + W.sin(W.theta * j) * N[2 * j - 1] + W.cos(W.theta * j) * N[2 * j]
            num0, num1 = cc.num0, MDB[cc.model]['num1']
            first_double = num0 + num1 * cc.m1
            for a, k in enumerate(keep):
                if k in (1, 2):
                    continue        # torsion / tilt amplitudes: the package's own definition of their load terms (not decided here)
                e = np.zeros(size, dtype=object)
                e[k] = 1
                out = C['fuvw'](e, cc.m1, cc.m2, cc.n2, cc.alpharad, cc.r2, cc.L, cc.tLArad, np.array([0], dtype=object), np.array([W.theta], dtype=object), 1)
                u = np.ravel(out[0])[0]
                u = u if isinstance(u, TP) else TP.const(u, W)
                val = W.integrate(Nxx * u, 0, 1)
                obs.append(('fext-harmonic-axial-load[%d]' % k, fext[a], inc * val.re * cc.r2))
                if not val.im.is_zero():
                    obs.append(('fext-harmonic-real[%d]' % k, val.im, 0))
        else:
            raise ValueError(variant)
    if values is None:
        assumptions = ctx.trig.circle_constraints()
    info = {'values': {k: str(v) for k, v in ctx.used_values.items()}, 'stats': {k: v.stats.as_dict() for k, v in ctx.kernels.mods.items()},
            'trig_classes': len(ctx.trig.classes), 'trig_queries': ctx.trig.queries}
    return obs, assumptions, info


def configs(tier, seed):
    out = []
    quick = tier == 'quick'
    for given in (('r1', 'H'), ('r1', 'L'), ('r2', 'H'), ('r2', 'L'), ('r1', 'r2')):
        out.append({'variant': 'geometry', 'given': given, 'group': 'geometry:%s+%s' % given, 'm': 1, 'n': 1})
    for given in (('r2', 'H'), ('r1', 'H'), ('r2', 'L'), ('r1', 'r2')):
        out.append({'variant': 'load-helpers', 'given': given, 'group': 'load-helpers-first-on-a-fresh-shell:%s+%s' % given, 'm': 1, 'n': 1})
    out.append({'variant': 'load-helpers', 'given': ('r2', 'H'), 'cylinder': True, 'group': 'load-helpers-first-on-a-fresh-shell:cylinder', 'm': 1, 'n': 1})
    for given in (('r1', 'L'), ('r2', 'H'), ('r2', 'L'), ('r1', 'H')):
        out.append({'variant': 'geometry', 'given': given, 'cylinder': True, 'group': 'geometry-cylinder:%s+%s' % given, 'm': 1, 'n': 1})
    models = ['clpt_donnell_bc1', 'clpt_donnell_bc2'] if quick else list(COMMONS)
    for pd in ((False, False, True), (True, False, True), (False, True, True), (True, True, True)):
        out.append({'variant': 'partition', 'pd': pd, 'mn': (1, 1, 1), 'group': 'partition:pdC=%d,pdT=%d' % pd[:2], 'm': 1, 'n': 1})
        out.append({'variant': 'partition', 'pd': pd, 'mn': (1, 1, 1), 'after_other_settings': True, 'group': 'partition-after-other-settings:pdC=%d,pdT=%d' % pd[:2], 'm': 1, 'n': 1})
        for model in models:
            out.append({'variant': 'fext', 'pd': pd, 'model': model, 'mn': (1, 1, 1) if quick else (2, 1, 2), 'group': 'fext:%s:pdC=%d,pdT=%d' % ((model,) + pd[:2]), 'm': 1, 'n': 1,
                        'timeout_ms': 120000})
    for model in (['clpt_donnell_bc1', 'clpt_donnell_bc3'] if quick else [m_ for m_ in COMMONS if m_.startswith('clpt')]):      # the package raises NotImplementedError for FSDT
        out.append({'variant': 'fext-pressure', 'model': model, 'mn': (3, 2, 1), 'group': 'fext-pressure:%s' % model, 'm': 3, 'n': 1, 'timeout_ms': 120000})
    for model in (['clpt_donnell_bc2', 'clpt_donnell_bc4', 'clpt_donnell_bc1'] if quick else list(COMMONS)):
        out.append({'variant': 'fext-harmonics', 'model': model, 'mn': (1, 2, 2), 'group': 'fext-harmonic-axial-load:%s' % model, 'm': 2, 'n': 2, 'timeout_ms': 120000})
    out[0]['canary'] = True
    out[-1]['canary'] = True
    out[10]['canary'] = True
    return out


def main():
    run = Run('C18', 'other', explanation=(
        'Bounded symbolic verification on the real ConeCyl object (classical Donnell models): derived geometry for every admissible '
        'pair of inputs, the partition / re-insertion book-keeping of prescribed amplitudes on a symbolic matrix for every admitted '
        'subset, and the load vector for point forces (constant and incrementable), torque and axial force against the virtual work '
        'computed with the package own displacement recovery (de-Cythonised commons kernels, trigonometric values as atoms), plus '
        'the prescribed-displacement right-hand-side terms; z3 qfnra-nlsat per entry, exact-rational replay.'))
    run.encoded('compmech/conecyl/conecyl.py', 'ConeCyl._rebuild, get_size, exclude_dofs_matrix, calc_full_c, calc_fext, uvw, add_SPL, add_force')
    for rel in COMMONS.values():
        run.encoded(rel, 'fg, cfgss, fuvw, cfuvw, cfwx, cfwt')
    cf = configs(run.tier, run.seed)
    run.bounds = {'models': sorted({c.get('model') for c in cf if c.get('model')}), 'series_orders_(m1,m2,n2)': sorted({c['mn'] for c in cf if 'mn' in c}),
                  'prescribed subsets': ['LA', 'C+LA', 'T+LA', 'C+T+LA'], 'configurations': len(cf)}
    run.assume('trigonometric values enter as atoms per argument class with S^2 + C^2 = 1; multiples of pi/2 exact', 'r2, L non-zero; generic (non-zero) symbolic attributes in truthiness tests of _rebuild',
               'pdLA = True (the only value the API admits)')
    run.outside = ['load terms of the torsion / tilt amplitudes under a harmonic axial load (the package own definition of Nxxtop[2])', 'iso models; quick tier: Donnell CLPT only (thorough: + Sanders CLPT, FSDT Donnell)', 'K_uu c_u = f_u solve (C07 decides sparse.solve)',
                   'orders above the bound']
    res = pmap(kprop.job, [(__name__, c) for c in cf])
    res = kprop.explore_loci(__name__, res, run, max_new=80, per_depth_budget=True)      # further passes: the equality loci the executed code branched on (the geometry configurations alone use dozens of follow-ups that turn out not explorable)
    kprop.handle(run, res, build, 'values differ from the definition')
    return run.finish()


def replay(path):
    d = json.load(open(path))
    cfg = d['replay']['cfg']
    bad, info = kprop.concrete_replay(build, cfg, d['replay'].get('inputs', {}))
    print('replay %s: %d differing entries' % (cfg, len(bad)))
    for b in bad[:10]:
        print('  %s impl=%r oracle=%r' % b)
    return 1 if bad else 0
