"""C17 -- Cone/cylinder non-linear tangent = Jacobian of the internal force (integrand level).

E1: calc_k0L, calc_kG, calc_kLL, calc_fint_0L_L0_LL and their integrand callbacks cfk0L, cfkG, cfkLL, cffint of the
*_nonlinear.pyx modules executed from source.  `integratev` is replaced by a stub that calls the callback once, at ONE
symbolic point (x, theta) with a symbolic weight (alpha) -- hence the identities hold for every integration rule and grid;
sin/cos of the symbolic arguments are atoms (vf/trig.py).  Obligations, as polynomial identities in the amplitudes c and
the direction d (all non-zero), laminate, geometry and the atoms:
   * tangent = Jacobian without calculus: the non-linear internal force is a polynomial of degree <= 3 in c, so, entry by
     entry and with e_j the j-th unit vector,
       12 (k0L + k0L^T + kLL + kG)(c)[k, j] == (-f(c+2e_j) + 8 f(c+e_j) - 8 f(c-e_j) + f(c-2e_j))[k]   (the analytic k0 part
     is common to both sides and drops out);
   * f(0) == 0 for the perfect shell; the tangent part is symmetric after the package's own symmetrisation;
   * the chunking of integratev covers every integration point exactly once (bounded execution of the de-Cythonised
     integratev with a recording callback: npts 0..64 x 1..8 threads -- enumeration, stated as such)."""
import json, os
import numpy as np
import z3
from fractions import Fraction
from ..harness import Run, pmap, REPO
from .. import kprop, cysym
from ..sym import Sym
from ..conesym import ConeCtx
from ..shadow import ShimCOO, ShimCSR
from .c16 import sym_F

NL = {}
for _k in ('clpt_donnell_bc1', 'clpt_donnell_bc2', 'clpt_donnell_bc3', 'clpt_donnell_bc4', 'clpt_sanders_bc1', 'clpt_sanders_bc2',
           'clpt_sanders_bc3', 'clpt_sanders_bc4'):
    NL[_k] = ('compmech/conecyl/clpt/%s_nonlinear.pyx' % _k, 6)
for _k in ('fsdt_donnell_bc1', 'fsdt_donnell_bc2', 'fsdt_donnell_bc3', 'fsdt_donnell_bc4'):
    NL[_k] = ('compmech/conecyl/fsdt/%s_nonlinear.pyx' % _k, 8)


# isotropic short-cut models: their own non-linear module supplies calc_k0L / calc_kLL from (E11, nu, h); calc_kG and the internal
# force come from the general model of the same boundary conditions, fed the matrix F that ConeCyl._rebuild derives from (E11, nu, h)
ISO_NL = {'iso_clpt_donnell_bc2': 'compmech/conecyl/clpt/iso_clpt_donnell_bc2_nonlinear.pyx',
          'iso_clpt_donnell_bc3': 'compmech/conecyl/clpt/iso_clpt_donnell_bc3_nonlinear.pyx'}


GRID_CALLS = []      # (nx, ny, num_cores, method) of every integratev call of the current run


def one_point_integrator(ctx):
    x, t, alpha = ctx.V('xq'), ctx.V('tq'), ctx.V('alphaq')
    del GRID_CALLS[:]

    def integratev(f, fdim, out, xa, xb, nx, ya, yb, ny, args, num_cores, method):
        from ..cysym import CArray, Ptr
        GRID_CALLS.append((int(nx), int(ny), int(num_cores), str(method)))
        xs, ts, al, be = CArray([x]), CArray([t]), CArray([alpha]), CArray([1])
        f(1, Ptr(xs), Ptr(ts), out, Ptr(al), Ptr(be), args)
        return 0
    return integratev


def zero_imperfection(*a):
    """cfw0x / cfw0t(xs, ts, npts, c0, L, m0, n0, out, funcnum): perfect shell -> the output buffer stays zero"""
    return None


def imperfection(ctx, name):
    """cfw0x / cfw0t of an arbitrary initial imperfection: its slope at the integration point is a free symbol"""
    def f(xs, ts, npts, c0, L, m0, n0, out, funcnum):
        for q in range(int(npts)):
            out[q] = ctx.V(name)
    return f


def sym_dict(M, size):
    d = {}
    for r, c, v in zip(M.row, M.col, M.data):
        if isinstance(v, (int, float)) and v == 0:
            continue
        k = (int(r), int(c))
        d[k] = d[k] + v if k in d else Sym.lift(v)
    return d


def load_nl(ctx, model, cfg):
    """the non-linear module of `model` de-Cythonised, with the one-point integrator and the helper kernels cimported from the
    commons module of the same boundary-condition family"""
    import re
    rel, nF = NL[model] if model in NL else (ISO_NL[model], 6)
    env = dict(ctx.kernels.extra_env)
    w0x, w0t = (imperfection(ctx, 'w0x'), imperfection(ctx, 'w0t')) if cfg.get('imperfect') else (zero_imperfection, zero_imperfection)
    if cfg.get('mgi'):
        # the package's own imperfection series (imperfections/mgi.pyx) with orders (m0, n0) and symbolic coefficients
        G = cysym.Module(os.path.join(REPO, 'compmech/conecyl/imperfections/mgi.pyx'),
                         env={k: v for k, v in ctx.kernels.extra_env.items() if k not in ('cfw0x', 'cfw0t')}).ns
        w0x, w0t = G['cfw0x'], G['cfw0t']
    env.update({'integratev': one_point_integrator(ctx), 'trapz_wp': None, 'cfw0x': w0x, 'cfw0t': w0t, 'coo_matrix': ShimCOO})
    src = open(os.path.join(REPO, rel)).read()
    for mm in re.finditer(r'^from\s+([\w\.]+)\s+cimport\s+(.+)$', src, re.M):
        modname, names = mm.group(1), [x.strip() for x in mm.group(2).split(',')]
        base = modname.split('.')[-1]
        if 'commons' not in base:
            continue
        crel = os.path.join(os.path.dirname(rel), base + '.pyx')
        cenv = dict(ctx.kernels.extra_env)
        cenv.update({'cfw0x': w0x, 'cfw0t': w0t})
        C = cysym.Module(os.path.join(REPO, crel), env=cenv)
        for nm in names:
            env[nm] = C.ns[nm]
    return cysym.Module(os.path.join(REPO, rel), env=env)


def build(cfg, values=None):
    model = cfg['model']
    m1, m2, n2 = cfg['mn']
    ctx = ConeCtx(values=values, seed=cfg.get('seed', 0))
    V = ctx.V
    iso = model in ISO_NL
    rel, nF = NL[model] if not iso else (ISO_NL[model], 6)
    M = load_nl(ctx, model, cfg)
    K = M.ns
    size = 3 + 3 * m1 + (6 if nF == 6 else 10) * m2 * n2 if nF == 6 else None
    # size as the module computes it
    num0, num1, num2 = K['num0'], K['num1'], K['num2']
    size = num0 + num1 * m1 + num2 * m2 * n2
    F = sym_F(ctx, nF)
    cone = cfg.get('cone', True)
    alpharad = ctx.deg2rad(V('alphadeg')) if cone else 0
    r2, L, tLA = V('r2'), V('L'), V('tLA')
    c0 = np.zeros(1, dtype=object)
    c0[0] = 0
    state = cfg.get('state', 'generic')

    def vec(name):
        v = np.zeros(size, dtype=object)
        for k in range(size):
            v[k] = V('%s%d' % (name, k))
        return v
    c = vec('c')
    if state == 'axisymmetric':
        for k in range(num0 + num1 * m1, size):
            c[k] = 0
    args = (alpharad, r2, L, tLA, F, m1, m2, n2, 1, 1, 1, 'trapz2d', c0, 0, 0)

    def fint(cv):
        return np.asarray(K['calc_fint_0L_L0_LL'](cv, *args), dtype=object)
    obs = []
    if cfg['variant'] == 'api':
        # the real ConeCyl._calc_NL_matrices / calc_fint (conecyl.py) over the de-Cythonised non-linear module: the partitioned
        # tangent kTuu against the derivative of calc_fint with respect to the FREE amplitudes, k0 an arbitrary symmetric matrix
        import compmech.conecyl.modelDB as mdb
        from ..eigstubs import sym_matrix
        ns = type('NonLinearModule', (), {})()
        newdb = {name: dict(e) for name, e in mdb.db.items()}
        if iso:
            for nm in ('calc_k0L', 'calc_kLL'):
                setattr(ns, nm, K[nm])
            gen = type('NonLinearModule', (), {})()
            Kg = load_nl(ctx, model[4:], cfg).ns
            for nm in ('calc_k0L', 'calc_kLL', 'calc_kG', 'calc_fint_0L_L0_LL'):
                setattr(gen, nm, Kg[nm])
            newdb[model[4:]]['non-linear'] = gen
        else:
            for nm in ('calc_k0L', 'calc_kLL', 'calc_kG', 'calc_fint_0L_L0_LL'):
                setattr(ns, nm, K[nm])
        newdb[model]['non-linear'] = ns
        with ctx.shadow(extra_stubs={'compmech.conecyl.modelDB.db': newdb, 'compmech.conecyl.conecyl.get_model': lambda name: newdb[name]}):
            cc = ctx.new_cone(model, m1, m2, n2)
            cc.r2, cc.L = r2, L
            cc.alphadeg = V('alphadeg') if cone else 0.
            cc.tLAdeg = V('tLAdeg')
            cc.pdC, cc.pdT, cc.pdLA = cfg['pd']
            cc.uTM, cc.thetaTdeg, cc.betadeg = V('uTM'), V('thetaTdeg'), V('betadeg')
            if iso:
                # isotropic input: no laminate; the constitutive matrix is what the real _rebuild derives from (E11, nu, h)
                cc.laminaprop, cc.stack, cc.plyt = None, [0], None
                cc.E11, cc.nu, cc.h = V('E11'), V('nu'), V('h')
            else:
                cc.F = F
            cc.ni_num_cores, cc.ni_method, cc.nx, cc.nt = 1, 'trapz2d', 1, 1
            if cfg.get('grid'):
                cc.ni_num_cores, cc.nx, cc.nt = cfg['grid']
            cc.c0, cc.m0, cc.n0 = c0, 0, 0
            if cfg.get('mgi'):
                m0_, n0_ = cfg['mgi']
                cc.m0, cc.n0, cc.funcnum = m0_, n0_, 2
                cc.c0 = np.array([V('c0_%d' % k) for k in range(2 * m0_ * n0_)], dtype=object)
            cc._rebuild()
            cc.k0 = ShimCSR(sym_matrix('k0', size, list(range(size)), V, symmetric=True))
            ex = sorted(cc.excluded_dofs)
            keep = [i for i in range(size) if i not in ex]
            inc = V('inc')
            cu = np.array([V('cu%d' % a) for a in range(len(keep))], dtype=object)
            # through the public calc_kT, after the same object was asked for the tangent of the same free amplitudes at ANOTHER
            # load level (with prescribed displacements the full state, hence the tangent, depends on the load level)
            cc.calc_kT(cu.copy(), inc=V('inc_before'), silent=True)
            kTuu = cc.calc_kT(cu.copy(), inc=inc, silent=True).todict()
            for j in range(len(keep)):
                fs = {}
                for t_ in (-2, -1, 1, 2):
                    cv = cu.copy()
                    cv[j] = cv[j] + t_
                    fs[t_] = np.asarray(cc.calc_fint(cv, inc=inc, return_u=True, silent=True), dtype=object)
                for k in range(len(keep)):
                    obs.append(('kTuu-is-jacobian-of-calc_fint[%d,%d]' % (k, j), 12 * Sym.lift(kTuu.get((k, j), 0)), -fs[2][k] + 8 * fs[1][k] - 8 * fs[-1][k] + fs[-2][k]))
            # the integration grid handed to the kernels is the one of the definition (nx x nt points), whatever the number of threads
            for q_, (gx, gy, gc, gm) in enumerate(GRID_CALLS):
                if (gx, gy, gc, gm) != (cc.nx, cc.nt, cc.ni_num_cores, cc.ni_method):
                    obs.append(('integration-grid-of-the-definition[call %d: nx=%d nt=%d cores=%d %s]' % (q_, gx, gy, gc, gm), Sym.lift(1), Sym.lift(0)))
                    break
            f0 = np.asarray(cc.calc_fint(np.array([0] * len(keep), dtype=object), inc=0, return_u=True, silent=True), dtype=object)
            for k in range(len(keep)):
                obs.append(('calc_fint-of-undeformed-shell[%d]' % k, f0[k], 0))
    elif cfg['variant'] == 'zero':
        f0 = fint(np.zeros(size, dtype=object) * 0 + np.array([0] * size, dtype=object))
        for k in range(size):
            obs.append(('fint-of-undeformed-perfect-shell[%d]' % k, f0[k], 0))
        # the state-dependent parts of the tangent vanish with the amplitudes: kT(0) = k0, fint(c) = k0 c + O(c^2)
        from compmech.sparse import make_symmetric
        from ..shadow import Shadow, GenericPolicy
        z = np.array([0] * size, dtype=object)
        with Shadow(None, policy=GenericPolicy()):
            for nm, fn in (('k0L', 'calc_k0L'), ('kLL', 'calc_kLL'), ('kG', 'calc_kG')):
                for (r, cc), v in sorted(ShimCSR(K[fn](z, *args)).todict().items()):
                    obs.append(('%s-at-zero-amplitudes[%d,%d]' % (nm, r, cc), v, 0))
    else:
        from compmech.sparse import make_symmetric
        from ..shadow import Shadow, GenericPolicy
        with Shadow(None, policy=GenericPolicy()):
            k0L = ShimCSR(K['calc_k0L'](c, *args))
            kLL = ShimCSR(make_symmetric(K['calc_kLL'](c, *args)))
            kG = ShimCSR(make_symmetric(K['calc_kG'](c, *args)))
            kT = k0L + k0L.T + kLL + kG
        kd = kT.todict()
        # Jacobian column j by the exact stencil in the direction e_j
        for j in range(size):
            fs = {}
            for t_ in (-2, -1, 1, 2):
                cv = np.array(list(c), dtype=object)
                cv[j] = cv[j] + t_
                fs[t_] = fint(cv)
            for k in range(size):
                obs.append(('tangent-is-jacobian[%d,%d]' % (k, j), 12 * Sym.lift(kd.get((k, j), 0)), -fs[2][k] + 8 * fs[1][k] - 8 * fs[-1][k] + fs[-2][k]))
        for (r, cc), v in sorted(kd.items()):
            if r < cc:
                obs.append(('tangent-symmetric[%d,%d]' % (r, cc), v, kd.get((cc, r), 0)))
    assumptions = ctx.trig.circle_constraints() if values is None else []
    info = {'values': {k: str(v) for k, v in ctx.used_values.items()}, 'stats': {rel: M.stats.as_dict()}, 'trig_classes': len(ctx.trig.classes)}
    return obs, assumptions, info


def job_chunks(_):
    """bounded execution of the de-Cythonised integratev: every point index is handed to the callback exactly once"""
    M = cysym.Module(os.path.join(REPO, 'compmech/integrate/integratev.pyx'), mode='float',
                     env={'trapz2d_points': None, 'simps2d_points': None, 'sin': None, 'atan': None})
    bad = []
    n = 0
    import numpy as _np
    for npts in range(0, 65):
        for cores in range(1, 9):
            seen = _np.zeros(max(npts, 1), dtype=int)

            def pts(xmin, xmax, nx, ymin, ymax, ny):
                a = _np.arange(npts, dtype=float)
                return a, a.copy(), _np.ones(npts), _np.ones(npts)

            def cb(k, xs, ys, out, alphas, betas, args=None):
                for q in range(int(k)):
                    seen[int(xs[q])] += 1
                    out[0] = out[0] + (int(xs[q]) + 1)        # the integrand: point number + 1 (weight 1)
            for method in ('trapz2d', 'simps2d'):
                seen[:] = 0
                M.ns['trapz2d_points'] = pts if method == 'trapz2d' else None
                M.ns['simps2d_points'] = pts if method == 'simps2d' else None
                out = _np.zeros(1)
                try:
                    M.ns['integratev'](cb, 1, cysym.Ptr(out), 0., 1., 1, 0., 1., 1, None, cores, method)
                except Exception as e:
                    bad.append((npts, cores, method, '%s: %s' % (type(e).__name__, e)))
                    continue
                n += 1
                if npts and not (seen[:npts] == 1).all():
                    bad.append((npts, cores, method, 'coverage counts %s' % seen[:npts].tolist()))
                elif npts and abs(float(out[0]) - npts * (npts + 1) / 2.) > 1e-9:
                    # ... and the contributions of all points arrive in the caller's result (chunk sums and the remainder)
                    bad.append((npts, cores, method, 'result %r for the sum %r of the contributions' % (float(out[0]), npts * (npts + 1) / 2.)))
    return {'runs': n, 'bad': bad[:10]}


def signature(cfg, fam, names):
    """which entries fail (decided by the solver) and by how much at one fixed exact-rational point: identifies the recorded
    defect, so that another defect in the same kernels is not taken for it"""
    import hashlib
    bad, _ = kprop.concrete_replay(build, dict(cfg, seed=4242), {})
    res = sorted((b[0], '%.12g' % (b[1] - b[2])) for b in bad if b[0].split('[')[0] == fam)
    return hashlib.sha256(json.dumps([list(cfg['mn']), names, res]).encode()).hexdigest()[:16]


def compiled_check(models):
    """the same identity on the COMPILED kernels (floats, small grid): k0L + k0L^T + kLL + kG against the exact stencil of the
    compiled calc_fint_0L_L0_LL, entry by entry; returns per model the entries deviating by more than 1e-8 of the scale"""
    import importlib
    from ..panelsym import so_is_current
    from compmech.sparse import make_symmetric
    out = {}
    F6 = np.array([[10., 3, .5, .2, .1, .05], [3, 8, .4, .1, .3, .02], [.5, .4, 4, .05, .02, .6], [.2, .1, .05, 2, .5, .1], [.1, .3, .02, .5, 1.5, .2], [.05, .02, .6, .1, .2, .8]])
    for model in models:
        rel, nF = NL[model]
        if not so_is_current(rel):
            out[model] = 'extension not current'
            continue
        try:
            M = importlib.import_module(rel[:-4].replace('/', '.'))
            F = F6 if nF == 6 else np.block([[F6, np.zeros((6, 2))], [np.zeros((2, 6)), np.array([[3., .1], [.1, 2.5]])]])
            m1, m2, n2 = 2, 2, 1
            size = M.num0 + M.num1 * m1 + M.num2 * m2 * n2 if hasattr(M, 'num0') else None
            if size is None:
                size = (3 + 3 * m1 + 6 * m2 * n2) if nF == 6 else (3 + 5 * m1 + 10 * m2 * n2)
            rng = np.random.RandomState(3)
            c = rng.rand(size) + 0.5
            args = (np.deg2rad(25.), 1.3, 2.1, 0.3, F, m1, m2, n2, 6, 8, 1, 'trapz2d', np.zeros(1), 0, 0)
            k0L = M.calc_k0L(c, *args).tocsr()
            kT = (k0L + k0L.T + make_symmetric(M.calc_kLL(c, *args)) + make_symmetric(M.calc_kG(c, *args))).toarray()
            J = np.zeros((size, size))
            for j in range(size):
                e = np.zeros(size)
                e[j] = 1.
                f = {t: np.asarray(M.calc_fint_0L_L0_LL(c + t * e, *args)) for t in (-2, -1, 1, 2)}
                J[:, j] = (-f[2] + 8 * f[1] - 8 * f[-1] + f[-2]) / 12.
            scale = max(np.abs(J).max(), np.abs(kT).max())
            dev = np.abs(kT - J) / scale
            out[model] = {'entries': ['%d,%d' % (i, j) for i, j in zip(*np.nonzero(dev > 1e-8))], 'max_relative_deviation': float(dev.max())}
        except Exception as e:
            out[model] = 'error: %s: %s' % (type(e).__name__, e)
    return out


def configs(tier, seed):
    out = []
    quick = tier == 'quick'
    models = ['clpt_donnell_bc1', 'clpt_donnell_bc2', 'clpt_donnell_bc3', 'clpt_donnell_bc4', 'clpt_sanders_bc1', 'fsdt_donnell_bc1'] if quick else sorted(NL)
    for model in models:
        for cone in (True, False):
            out.append({'variant': 'jacobian', 'model': model, 'mn': (2, 2, 1), 'cone': cone, 'group': 'tangent=jacobian:%s:%s' % (model, 'cone' if cone else 'cylinder'), 'm': 2, 'n': 1,
                        'timeout_ms': 600000})
        out.append({'variant': 'zero', 'model': model, 'mn': (2, 2, 1), 'cone': True, 'group': 'fint(0)=0,kT(0)=k0:%s' % model, 'm': 2, 'n': 1})
        out.append({'variant': 'jacobian', 'model': model, 'mn': (2, 2, 1), 'cone': True, 'imperfect': True, 'group': 'tangent=jacobian:%s:cone-imperfect' % model, 'm': 2, 'n': 1,
                    'timeout_ms': 600000})
        if 'clpt_donnell' in model:
            for pd in ((True, True, True), (False, False, True)) if quick else ((True, True, True), (False, False, True), (True, False, True), (False, True, True)):
                out.append({'variant': 'api', 'model': model, 'mn': (2, 2, 1), 'cone': True, 'pd': pd, 'group': 'ConeCyl.kTuu=d calc_fint/dcu:%s:pd=%s' % (model, ''.join('1' if x else '0' for x in pd)),
                            'm': 2, 'n': 1, 'timeout_ms': 600000})
            out.append({'variant': 'api', 'model': model, 'mn': (2, 2, 1), 'cone': True, 'pd': (True, True, True), 'mgi': (2, 3), 'group': 'ConeCyl.kTuu=d calc_fint/dcu:%s:imperfection-series-2x3' % model,
                        'm': 2, 'n': 1, 'timeout_ms': 600000})
        if not quick:
            out.append({'variant': 'jacobian', 'model': model, 'mn': (3, 2, 2), 'cone': True, 'group': 'tangent=jacobian:%s:cone-322' % model, 'm': 3, 'n': 1, 'timeout_ms': 1200000})
    out.append({'variant': 'api', 'model': 'clpt_donnell_bc1', 'mn': (2, 2, 1), 'cone': True, 'pd': (False, False, True), 'grid': (3, 8, 5),
                'group': 'ConeCyl.kTuu=d calc_fint/dcu:clpt_donnell_bc1:grid-8x5-on-3-threads', 'm': 2, 'n': 1, 'timeout_ms': 600000})
    for model in sorted(ISO_NL):
        for cone in ((True,) if quick else (True, False)):
            out.append({'variant': 'api', 'model': model, 'mn': (2, 2, 1), 'cone': cone, 'pd': (True, True, True), 'group': 'ConeCyl.kTuu=d calc_fint/dcu:%s:%s' % (model, 'cone' if cone else 'cylinder'),
                        'm': 2, 'n': 1, 'timeout_ms': 600000})
    out[0]['canary'] = True
    return out


def main():
    run = Run('C17', 'other', explanation=(
        'Bounded symbolic verification at integrand level: the integrand callbacks of the non-linear shell modules are executed from '
        'source at one symbolic integration point with a symbolic weight; the tangent k0L + k0L^T + kLL + kG is proved (z3 qfnra-nlsat) '
        'to be the Jacobian of the non-linear internal force by the exact five-point stencil identity in symbolic amplitudes and '
        'directions, symmetric, and the internal force of the undeformed perfect shell to vanish; holds per point and weight, hence '
        'for both integration rules and every grid.'))
    for m, (rel, _) in NL.items():
        run.encoded(rel, 'calc_k0L, calc_kG, calc_kLL, calc_fint_0L_L0_LL, cfk0L, cfkG, cfkLL, cffint')
    for m, rel in ISO_NL.items():
        run.encoded(rel, 'calc_k0L, calc_kLL, cfk0L, cfkLL')
    run.encoded('compmech/conecyl/conecyl.py', 'ConeCyl._rebuild (isotropic constitutive matrix), _calc_NL_matrices, calc_fint, calc_full_c')
    run.encoded('compmech/integrate/integratev.pyx', 'integratev (chunking)')
    cf = configs(run.tier, run.seed)
    run.bounds = {'models': sorted({c['model'] for c in cf}), 'series_orders_(m1,m2,n2)': sorted({c['mn'] for c in cf}), 'integration points': 'one symbolic point/weight (integrand level)',
                  'imperfection': 'none (c0 = 0)', 'configurations': len(cf)}
    run.assume('trigonometric values at the symbolic point are atoms per argument class with S^2 + C^2 = 1', 'r2, L, cos(alpha) non-zero', 'perfect shell (no initial imperfection)')
    run.outside = ['resolution of the trapezoid / Simpson grids', 'OpenMP scheduling', 'initial imperfections', 'reduction to the linear stiffness for vanishing amplitudes involves the analytic k0 (C16)',
                   'iso_ non-linear modules outside the ConeCyl route (their calc_k0L / calc_kLL are decided through ConeCyl._calc_NL_matrices only)', 'fsdt bcn']
    res = pmap(kprop.job, [(__name__, c) for c in cf])
    res = kprop.explore_loci(__name__, res, run)      # second pass: the equality loci the executed code branched on
    kprop.handle(run, res, build, 'entries violate the tangent/Jacobian identity', signature=signature)
    # replay on the compiled kernels: the entries that fail symbolically for (m1, m2, n2) = (2, 2, 1) on the cone
    sym_fail = {}
    for r in res:
        if r.get('cfg', {}).get('variant') == 'jacobian' and tuple(r['cfg']['mn']) == (2, 2, 1) and r['cfg']['cone']:
            sym_fail[r['cfg']['model']] = sorted(s_['name'].split('[')[1].rstrip(']') for s_ in r.get('sat', []) if s_['name'].startswith('tangent-is-jacobian['))
    comp = compiled_check(sorted(sym_fail))
    run.extra['compiled_kernels_vs_symbolic'] = {m: {'symbolic_failing_entries': sym_fail[m], 'compiled': comp[m]} for m in sym_fail}
    for m in sorted(sym_fail):
        if not isinstance(comp[m], dict):
            continue
        ce = set(comp[m]['entries'])
        if not ce <= set(sym_fail[m]) or (sym_fail[m] and not ce):
            run.harness_error('compiled %s deviates in entries %s, the symbolic run of the source in %s' % (m, sorted(ce)[:8], sym_fail[m][:8]))
    ch = job_chunks(None)
    run.extra['integratev_chunking'] = {'executions': ch['runs'], 'range': 'npts 0..64 x num_cores 1..8 x {trapz2d, simps2d}', 'method': 'bounded execution of the de-Cythonised integratev with a recording callback (enumeration, not a solver query)',
                                        'failures': ch['bad']}
    if ch['bad']:
        run.violation('integratev/chunking', 'integratev does not hand every point to the callback exactly once: %s' % (ch['bad'][:3],), ch)
    return run.finish()


def replay(path):
    d = json.load(open(path))
    cfg = d['replay']['cfg']
    bad, info = kprop.concrete_replay(build, cfg, d['replay'].get('inputs', {}))
    print('replay %s: %d differing entries' % (cfg, len(bad)))
    for b in bad[:10]:
        print('  %s impl=%r oracle=%r' % b)
    return 1 if bad else 0
