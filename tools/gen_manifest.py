#!/usr/bin/env python3
"""Regenerates MANIFEST.json from the table below (single source of truth for what is claimed)."""
import json, os
V = os.path.dirname(os.path.dirname(os.path.abspath(__file__)))
props = [json.loads(l) for l in open(os.path.join(V, 'properties.jsonl'))]

OTHER = 'other'
CHECKS = {
    # pid: (category, technique, level text, level note, design_ref)
    'C10': (OTHER, 'C tables read from source as exact polynomials (own reader) vs exact rational Bardell oracle; z3 LRA decides the deviation bound over the whole parameter box per entry (monomial abstraction); sat -> refine -> replay through gcc-built table',
            'Bounded symbolic verification, exhaustive over the finite index domain (30x30 pairs x 17 families, 3x30 functions, Gauss orders 2..64); for each entry the solver shows |table - exact integral| <= 1e-12*sum|coef| for all flags/limits in the box, or a concrete point is replayed against the compiled table.',
            'Reals not doubles (literals read as stored doubles); tolerance 1e-12 relative to the coefficient sum; z3, CPython, own C-expression reader (cross-checked: worst measured deviation 4e-15) trusted.',
            'DESIGN.md section 4 C10'),
}
NA = {
    'C15': 'eigenvalue monotonicity/convergence for pencils of size 48..768 is not a bounded first-order query any installed solver can decide; the algebraic ingredients (exact Hessians, exact tables, nestedness) are decided under C02-C04 and C10 (DESIGN.md section 5)',
}
man = {
    'version': 1,
    'setup_cmd': './bootstrap.sh',
    'hooks': {'guard': 'COMPMECH_VERIF', 'enable': 'no hooks are needed: checks read /repo sources and import the package unmodified',
              'baseline_off_cmd': 'cd /repo && /venv/bin/python -m pytest -ra -q -p no:cacheprovider --timeout=900 --continue-on-collection-errors',
              'source_commits': [], 'add_only': True},
    'engines': [
        {'name': 'cysym', 'path': 'vf/cysym.py', 'kind_free_text': 'de-Cythoniser + AST instrumentation: executes .pyx kernels from source on exact symbolic scalars (vf/sym.py) with C semantics explicit', 'serves_properties': []},
        {'name': 'ctab', 'path': 'vf/ctab.py', 'kind_free_text': 'reader of the generated C tables as exact polynomials', 'serves_properties': ['C10']},
        {'name': 'solve', 'path': 'vf/solve.py', 'kind_free_text': 'z3 (qfnra-nlsat / LRA / LIA) obligation batches, cvc5 second opinion', 'serves_properties': []},
    ],
    'checks': [], 'notes': 'Solver-based checking (symbolic execution of compmech sources + z3). Exit codes: 0 ok, 1 VIOLATION, 2 harness error. See DESIGN.md.',
    'not_applicable': [],
}
for p in props:
    pid = p['id']
    if pid in CHECKS:
        cat, tech, text, note, ref = CHECKS[pid]
        man['checks'].append({
            'property_id': pid, 'quick_cmd': './check %s --tier quick' % pid, 'thorough_cmd': './check %s --tier thorough' % pid,
            'evidence_file': 'evidence/%s.json' % pid, 'replay_cmd_template': './check %s --replay {path}' % pid,
            'engine': 'vf/props/%s.py' % pid.lower(),
            'level_claimed': {'category': cat, 'text': text, 'design_ref': ref}, 'level_note': note, 'technique': tech})
        for e in man['engines']:
            if pid not in e['serves_properties'] and e['name'] == 'solve':
                e['serves_properties'].append(pid)
    else:
        man['not_applicable'].append({'property_id': pid, 'reason': NA.get(pid, 'check not built yet (framework under construction; planned in DESIGN.md section 4)')})
json.dump(man, open(os.path.join(V, 'MANIFEST.json'), 'w'), indent=1)
print('claimed:', [c['property_id'] for c in man['checks']])
