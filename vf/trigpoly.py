"""Exact trigonometric-polynomial values for the shell oracles (C16 energy clause).

A TP is a finite sum   sum  coeff * x^p * theta^q * exp(i*k*pi*x/L) * exp(i*j*theta)   with CSym coefficients (Sym real and
imaginary parts, so pi, L, radii, laminate entries ... stay symbolic).  The de-Cythonised strain / displacement kernels of the
package are executed with x and theta being TPs: every sin / cos call of the kernels whose argument is a TP must be a linear
form  (k*pi/L)*x + j*theta + phase  with integers k, j (decided by the solver) and is turned into exponentials; a division by
the running radius r = r2 + sina*x (or a scalar multiple of a power of it) is replaced by the division by the FROZEN radius of
the current meridional section, which is how the package's cone kernels are defined (r evaluated at the section middle).
Integration over theta in [0, 2 pi] and x in [xa, xb] is exact and closed-form (integration by parts for x^p exp(i w x))."""
from fractions import Fraction
from .sym import Sym, CSym

ZERO = (0, 0, 0, 0)


def _c(x):
    return x if isinstance(x, CSym) else CSym(x, 0)


class TPError(Exception):
    pass


class TP:
    __slots__ = ('t', 'w')

    def __init__(self, terms, world):
        self.t = {k: v for k, v in terms.items() if not v.is_zero()}
        self.w = world

    # ---- construction -------------------------------------------------------------------
    @staticmethod
    def const(v, world):
        return TP({ZERO: _c(v)}, world)

    def is_const(self):
        return all(k == ZERO for k in self.t)

    def const_value(self):
        return self.t.get(ZERO, CSym(0, 0))

    def _lift(self, o):
        if isinstance(o, TP):
            return o
        if isinstance(o, (int, float, Fraction, Sym, CSym)):
            return TP.const(o, self.w)
        try:
            import numpy as np
            if isinstance(o, (np.integer, np.floating)):
                return TP.const(o.item(), self.w)
        except ImportError:
            pass
        raise TypeError('cannot combine TP with %r' % type(o))

    # ---- ring operations -----------------------------------------------------------------
    def __add__(self, o):
        try:
            o = self._lift(o)
        except TypeError:
            return NotImplemented
        d = dict(self.t)
        for k, v in o.t.items():
            d[k] = d[k] + v if k in d else v
        return TP(d, self.w)
    __radd__ = __add__

    def __neg__(self):
        return TP({k: -v for k, v in self.t.items()}, self.w)

    def __sub__(self, o):
        try:
            return self + (-self._lift(o))
        except TypeError:
            return NotImplemented

    def __rsub__(self, o):
        return (-self) + o

    def __mul__(self, o):
        try:
            o = self._lift(o)
        except TypeError:
            return NotImplemented
        d = {}
        for k1, v1 in self.t.items():
            for k2, v2 in o.t.items():
                k = (k1[0] + k2[0], k1[1] + k2[1], k1[2] + k2[2], k1[3] + k2[3])
                v = v1 * v2
                d[k] = d[k] + v if k in d else v
        return TP(d, self.w)
    __rmul__ = __mul__

    def __pow__(self, n):
        if not isinstance(n, int) or n < 0:
            raise TPError('power %r of a TP' % (n,))
        r = TP.const(1, self.w)
        for _ in range(n):
            r = r * self
        return r

    def scale(self, s):
        """multiply by a real Sym / number"""
        return TP({k: CSym(v.re * s, v.im * s) for k, v in self.t.items()}, self.w)

    def __truediv__(self, o):
        if isinstance(o, TP):
            if o.is_const():
                c = o.const_value()
                if not c.im.is_zero():
                    raise TPError('division by a complex constant')
                return self.scale(Sym.lift(1) / c.re)
            return self.scale(Sym.lift(1) / self.w.frozen_divisor(o))
        if isinstance(o, CSym):
            if not o.im.is_zero():
                raise TPError('division by a complex constant')
            o = o.re
        return self.scale(Sym.lift(1) / Sym.lift(o))

    def __rtruediv__(self, o):
        # scalar / TP
        return TP.const(o, self.w) / self

    def __repr__(self):
        return 'TP(%d terms)' % len(self.t)


class World:
    """x, theta, the frozen radius of the current section and the trigonometric engine for constant phases"""

    def __init__(self, trig, L, same):
        self.trig, self.L, self.same = trig, Sym.lift(L), same
        self.x = TP({(1, 0, 0, 0): CSym(1, 0)}, self)
        self.theta = TP({(0, 1, 0, 0): CSym(1, 0)}, self)
        self.r_expr = None          # TP r2 + sina*x as the kernels form it
        self.r_frozen = None        # Sym: its value at the middle of the current section
        self._pow_cache = {}
        self.int_cache = {}
        self.stats = {'sincos': 0, 'frozen_divisions': 0}

    def set_radius(self, r2, sina, r_frozen):
        self.r_expr = TP.const(r2, self) + self.x * _c(sina)
        self.r_frozen = Sym.lift(r_frozen)
        self._pow_cache = {}

    def frozen_r(self, r):
        """the kernels' `r = r2 + x*sina`: within a section every occurrence of r is the section-middle value"""
        if not isinstance(r, TP):
            return r
        if r.is_const():
            return r.const_value().re
        if self.r_expr is None or set(r.t) != set(self.r_expr.t) or any(not self.same(r.t[k].re, v.re) for k, v in self.r_expr.t.items()):
            raise TPError('unexpected running radius expression')
        self.stats['frozen_divisions'] += 1
        return self.r_frozen

    def frozen_divisor(self, d):
        """d == coef * r_expr^q for a real coef and q in 1..4  ->  coef * r_frozen^q (Sym); anything else is an error"""
        if self.r_expr is None:
            raise TPError('division by a non-constant TP and no running radius registered')
        for q in range(1, 5):
            P = self._pow_cache.get(q)
            if P is None:
                P = self._pow_cache[q] = self.r_expr ** q
            if set(P.t) != set(d.t):
                continue
            c0, p0 = d.t[ZERO], P.t[ZERO]
            if not c0.im.is_zero() or not p0.im.is_zero():
                continue
            coef = c0.re / p0.re
            ok = True
            for k, v in P.t.items():
                dv = d.t[k]
                if not dv.im.is_zero() or not self.same(dv.re, coef * v.re):
                    ok = False
                    break
            if ok:
                self.stats['frozen_divisions'] += 1
                return coef * self.r_frozen ** q if q > 1 else coef * self.r_frozen
        raise TPError('division by a TP that is not a multiple of a power of the running radius: %r' % (sorted(d.t),))

    # ---- sin / cos of a linear form -------------------------------------------------------
    def _int_of(self, s, what):
        s = Sym.lift(s)
        if s.is_numeric():
            if s.n.denominator != 1:
                raise TPError('%s is not an integer: %s' % (what, s.n))
            return int(s.n)
        key = (s.n.get_id(), tuple(sorted(s.d.items())))
        if key in self.int_cache:
            return self.int_cache[key][0]
        for k in range(-16, 17):
            if self.same(s, Sym.lift(k)):
                self.int_cache[key] = (k, s)
                return k
        raise TPError('%s is not a (small) integer' % what)

    def expi(self, arg, sign=1):
        """exp(sign*i*arg) for arg = a*x + b*theta + c"""
        if not isinstance(arg, TP):
            S, C = self.trig.sin(arg), self.trig.cos(arg)
            return TP.const(CSym(C, S * sign), self)
        k = j = 0
        phase = Sym.lift(0)
        for key, v in arg.t.items():
            if not v.im.is_zero():
                raise TPError('complex angle')
            if key == (1, 0, 0, 0):
                k = self._int_of(v.re * self.L / self.trig.pi, 'wave number along x')
            elif key == (0, 1, 0, 0):
                j = self._int_of(v.re, 'circumferential wave number')
            elif key == ZERO:
                phase = v.re
            else:
                raise TPError('argument of sin/cos is not a linear form in x and theta: key %r' % (key,))
        S, C = self.trig.sin(phase), self.trig.cos(phase)
        return TP({(0, 0, sign * k, sign * j): CSym(C, S * sign)}, self)

    def sin(self, arg):
        if not isinstance(arg, TP):
            return self.trig.sin(arg)
        self.stats['sincos'] += 1
        d = self.expi(arg, 1) - self.expi(arg, -1)
        # 1/(2i) = -i/2
        return TP({k: CSym(v.im * Fraction(1, 2), v.re * Fraction(-1, 2)) for k, v in d.t.items()}, self)

    def cos(self, arg):
        if not isinstance(arg, TP):
            return self.trig.cos(arg)
        self.stats['sincos'] += 1
        d = self.expi(arg, 1) + self.expi(arg, -1)
        return TP({k: CSym(v.re * Fraction(1, 2), v.im * Fraction(1, 2)) for k, v in d.t.items()}, self)

    # ---- exact integration ------------------------------------------------------------------
    def _Ix(self, p, k, xa, xb, cache):
        """int_xa^xb x^p exp(i k pi x / L) dx  (CSym)"""
        key = (p, k)
        if key in cache:
            return cache[key]
        if k == 0:
            r = CSym((xb ** (p + 1) - xa ** (p + 1)) / (p + 1), 0)
        else:
            w = self.trig.pi * k / self.L
            ea = CSym(self.trig.cos(w * xa), self.trig.sin(w * xa))
            eb = CSym(self.trig.cos(w * xb), self.trig.sin(w * xb))
            top = eb * _c(xb ** p if p else 1) - ea * _c(xa ** p if p else 1)
            if p:
                top = top - self._Ix(p - 1, k, xa, xb, cache) * _c(p)
            # divide by i*w:  z/(i w) = -i z / w
            r = CSym(top.im / w, -top.re / w)
        cache[key] = r
        return r

    def integrate(self, tp, xa, xb, cache=None):
        """int_0^{2 pi} int_xa^xb tp dx dtheta  ->  CSym"""
        cache = {} if cache is None else cache
        xa, xb = Sym.lift(xa), Sym.lift(xb)
        tot = CSym(0, 0)
        for (p, q, k, j), v in tp.t.items():
            if q != 0:
                raise TPError('theta appears polynomially in an integrand')
            if j != 0:
                continue
            tot = tot + v * self._Ix(p, k, xa, xb, cache)
        two_pi = self.trig.pi * 2
        return CSym(tot.re * two_pi, tot.im * two_pi)
