"""C16 -- Shell linear matrices (cone / cylinder): what is decided here.

E1: fk0, fk0_cyl, fkG0, fkG0_cyl of every *_linear.pyx that the package can import (clpt Donnell bc1-4, clpt Sanders
bc1-4, fsdt Donnell bc1-4, fsdt Sanders bcn, iso clpt Donnell bc2-3) executed from source with symbolic geometry,
laminate and loads; the module constant pi is a symbol and every trigonometric argument of the kernels (pi*i*x/L at the
section ends) is a multiple of pi/2 for s in {1, 2}, decided exactly.
 (i)   cone kernels at zero semi-vertex angle == dedicated cylinder kernels (k0 and kG0);
 (ii)  kG0 is homogeneous of degree 1 in (Fc, P, T) and the split kG0_Fc + kG0_P + kG0_T == kG0 (through the real
       ConeCyl._calc_linear_matrices with combined_load_case);
 (iii) isotropic short-cut models == general models fed the isotropic laminate ConeCyl._rebuild builds;
 (iv)  every entry the kernels write below the diagonal equals its mirror (what make_symmetric would silently discard);
 (v)   the elastic edge-restraint part of k0, obtained through the real ConeCyl._calc_linear_matrices ->
       modelDB.get_linear_matrices -> fk0edges with symbolic restraint values (fk0 / fk0_cyl stubbed to zero), equals the
       Hessian of the edge-spring energy 1/2 oint (ku u^2 + kv v^2 + kw w^2 + kphix phix^2 + kphit phit^2) r dtheta at both
       edges of the package's own displacement field (ConeCyl.uvw), on the series amplitudes; the circumferential integral
       is the 4-point trapezoid rule at multiples of pi/2, exact for n2 = 1.
NOT decided: that the shell part of k0 is the Hessian of the package's strain energy (needs an exact integrator along the
meridian, not built), positive semi-definiteness, sections s > 2, edge restraints for n2 > 1."""
import json, os
import numpy as np
import z3
from fractions import Fraction
from ..harness import Run, pmap, REPO
from .. import kprop
from ..sym import Sym
from ..conesym import ConeCtx
from ..shadow import LazyNS, ShimCSR

MODELS = {}
for _k in ('clpt_donnell_bc1', 'clpt_donnell_bc2', 'clpt_donnell_bc3', 'clpt_donnell_bc4', 'clpt_sanders_bc1', 'clpt_sanders_bc2',
           'clpt_sanders_bc3', 'clpt_sanders_bc4'):
    MODELS[_k] = ('compmech/conecyl/clpt/%s_linear.pyx' % _k, 6)
for _k in ('fsdt_donnell_bc1', 'fsdt_donnell_bc2', 'fsdt_donnell_bc3', 'fsdt_donnell_bc4', 'fsdt_sanders_bcn'):
    MODELS[_k] = ('compmech/conecyl/fsdt/%s_linear.pyx' % _k, 8)
ISO = {'iso_clpt_donnell_bc2': ('compmech/conecyl/clpt/iso_clpt_donnell_bc2_linear.pyx', 'clpt_donnell_bc2'),
       'iso_clpt_donnell_bc3': ('compmech/conecyl/clpt/iso_clpt_donnell_bc3_linear.pyx', 'clpt_donnell_bc3')}


def sym_F(ctx, nF):
    F = np.zeros((nF, nF), dtype=object)
    for i in range(nF):
        for j in range(i, nF):
            if nF == 8 and ((i < 6) != (j < 6)):
                continue
            F[i, j] = F[j, i] = ctx.V('F%d%d' % (i, j))
    return F


def todict(M):
    d = {}
    for r, c, v in zip(M.row, M.col, M.data):
        if isinstance(v, (int, float)) and v == 0:
            continue
        if isinstance(v, Sym) and v.is_zero():
            continue
        k = (int(r), int(c))
        d[k] = d[k] + v if k in d else Sym.lift(v)
    return d


def upper(d):
    """what make_symmetric keeps: the upper triangle"""
    return {k: v for k, v in d.items() if k[0] <= k[1]}


def build(cfg, values=None):
    variant, model = cfg['variant'], cfg['model']
    m1, m2, n2, s = cfg['mn'] + (cfg['s'],)
    ctx = ConeCtx(values=values, seed=cfg.get('seed', 0))
    V = ctx.V
    obs = []
    r2, L = V('r2'), V('L')
    if variant in ('cone0', 'mirror'):
        rel, nF = MODELS[model]
        K = ctx.kernels.get(rel).ns
        F = sym_F(ctx, nF)
        Fc, P, T = V('Fc'), V('P'), V('T')
        if variant == 'cone0':
            if cfg.get('only') != 'kG0':
                k_cone = upper(todict(K['fk0'](0, r2, L, F, m1, m2, n2, s)))
                k_cyl = upper(todict(K['fk0_cyl'](r2, L, F, m1, m2, n2)))
                for k in sorted(set(k_cone) | set(k_cyl)):
                    obs.append(('k0-cone0-vs-cyl[%d,%d]' % k, k_cone.get(k, 0), k_cyl.get(k, 0)))
            g_cone = upper(todict(K['fkG0'](Fc, P, T, r2, 0, L, m1, m2, n2, s)))
            g_cyl = upper(todict(K['fkG0_cyl'](Fc, P, T, r2, L, m1, m2, n2)))
            for k in sorted(set(g_cone) | set(g_cyl)):
                obs.append(('kG0-cone0-vs-cyl[%d,%d]' % k, g_cone.get(k, 0), g_cyl.get(k, 0)))
        else:
            alpha = ctx.deg2rad(V('alphadeg'))
            for nm, M in (('k0', K['fk0'](alpha, r2, L, F, m1, m2, n2, s)), ('k0_cyl', K['fk0_cyl'](r2, L, F, m1, m2, n2)),
                          ('kG0', K['fkG0'](Fc, P, T, r2, alpha, L, m1, m2, n2, s)), ('kG0_cyl', K['fkG0_cyl'](Fc, P, T, r2, L, m1, m2, n2))):
                d = todict(M)
                for (r, c), v in sorted(d.items()):
                    if r > c:
                        obs.append(('%s-lower-equals-mirror[%d,%d]' % (nm, r, c), v, d.get((c, r), 0)))
    elif variant in ('split', 'iso', 'history'):
        import compmech.conecyl.modelDB as mdb
        newdb = {}
        for name, e in mdb.db.items():
            e = dict(e)
            if name in MODELS:
                e['linear'] = LazyNS(ctx.kernels, MODELS[name][0])
            elif name in ISO:
                e['linear'] = LazyNS(ctx.kernels, ISO[name][0])
            newdb[name] = e
        nF = MODELS[model][1] if model in MODELS else 6
        calls = []

        def read_stack(stack, plyts=None, laminaprops=None, **kw):
            calls.append(1)
            lam = type('Lam', (), {})()
            F = sym_F(ctx, 8)
            for t, tag in ((plyts[0] if plyts else None, 'plyt_before'), (laminaprops[0][0] if laminaprops and laminaprops[0] else None, 'E_before')):
                d_ = t.describe() if isinstance(t, Sym) else None
                before = (d_ and d_[0] == 'var' and d_[1].endswith('_before')) if values is None else (
                    isinstance(t, Sym) and tag in ctx.used_values and t.is_numeric() and t.n == ctx.used_values[tag])
                if before:
                    F = F * V('laminate_before_factor_' + tag)       # another ply thickness / material: another laminate
            lam.ABDE = F
            lam.ABD = F[0:6, 0:6].copy()
            return lam
        with ctx.shadow(extra_stubs={'compmech.conecyl.modelDB.db': newdb, 'compmech.composite.laminate.read_stack': read_stack}):
            def cone(model_name):
                cc = ctx.new_cone(model_name, m1, m2, n2)
                cc.s = s
                cc.r2, cc.L = r2, L
                cc.alphadeg = V('alphadeg') if cfg.get('cone', True) else 0.
                cc.P, cc.T = V('P'), V('T')
                cc.Fc = V('Fc')
                for nm in ('kuBot', 'kuTop', 'kvBot', 'kvTop', 'kwBot', 'kwTop', 'kphixBot', 'kphixTop', 'kphitBot', 'kphitTop'):
                    setattr(cc, nm, V(nm))
                cc.bc = None
                return cc
            if variant == 'history':
                # one ConeCyl object evaluated, re-defined, evaluated again == a fresh object with the final definition
                before, after = cfg['redefine']

                def value(val):
                    if val == 'MATRIX':
                        R = np.zeros((8, 8), dtype=object)
                        for i in range(8):
                            for j in range(i, 8):
                                if (i < 6) == (j < 6):
                                    R[i, j] = R[j, i] = V('R%d%d' % (i, j))
                        return R if nF == 8 else R[0:6, 0:6].copy()
                    if val == 'EMPTY':
                        return []
                    if isinstance(val, (list, tuple)):
                        return type(val)(value(x) for x in val)
                    return V(val) if isinstance(val, str) else val
                # via='calc_k0': through the public accessor of the (stored) reduced stiffness that Analysis.static calls
                ev = (lambda o: o.calc_k0(silent=True)) if cfg.get('via') == 'calc_k0' else (lambda o: o._calc_linear_matrices(silent=True))
                cc = cone(model)
                for nm, val in before.items():
                    setattr(cc, nm, value(val))
                ev(cc)
                for nm, val in after.items():
                    setattr(cc, nm, value(val))
                got = ev(cc)
                fresh = cone(model)
                for nm, val in after.items():
                    setattr(fresh, nm, value(val))
                want = ev(fresh)
                if cfg.get('via') == 'calc_k0':
                    A, B = got.todict(), want.todict()
                    for k in sorted(set(A) | set(B)):
                        obs.append(('calc_k0-after-redefinition-vs-fresh[%d,%d]' % (k[0], k[1]), A.get(k, 0), B.get(k, 0)))
                    # the block that carries the prescribed amplitudes to the right-hand side
                    A, B = np.asarray(cc.k0uk, dtype=object), np.asarray(fresh.k0uk, dtype=object)
                    if A.shape != B.shape:
                        obs.append(('k0uk-shape-after-redefinition', Sym.lift(A.size), Sym.lift(B.size)))
                    else:
                        for idx in np.ndindex(*A.shape):
                            if not (isinstance(A[idx], (int, float)) and A[idx] == 0 and isinstance(B[idx], (int, float)) and B[idx] == 0):
                                obs.append(('k0uk-after-redefinition-vs-fresh[%d,%d]' % idx, A[idx], B[idx]))
                for which in ('k0', 'kG0'):
                    A, B = getattr(cc, which).todict(), getattr(fresh, which).todict()
                    for k in sorted(set(A) | set(B)):
                        obs.append(('%s-after-redefinition-vs-fresh[%d,%d]' % (which, k[0], k[1]), A.get(k, 0), B.get(k, 0)))
                for nm in ('r1', 'r2', 'L', 'sina', 'cosa'):     # H is input and derived at once: it keeps its first value (observation, DESIGN 9.3)
                    obs.append(('geometry-after-redefinition-vs-fresh[%s]' % nm, Sym.lift(getattr(cc, nm)), Sym.lift(getattr(fresh, nm))))
            elif variant == 'split':
                cc = cone(model)
                if cfg.get('pd'):
                    cc.pdC, cc.pdT, cc.pdLA = cfg['pd']
                    cc.uTM, cc.thetaTdeg = V('uTM'), V('thetaTdeg')
                cc._calc_linear_matrices(combined_load_case=None, silent=True)
                tot = cc.kG0.todict()
                # the matrix handed to the analyses: k0 on the amplitudes that are not prescribed, in their original order
                ex = sorted(cc.excluded_dofs)
                keep = [i for i in range(cc.get_size()) if i not in ex]
                Kfull, Kuu = cc.k0.todict(), cc.k0uu.todict()
                obs.append(('k0uu-size', Sym.lift(cc.k0uu.shape[0]), Sym.lift(len(keep))))
                for a, i in enumerate(keep):
                    for b, j in enumerate(keep):
                        if (i, j) in Kfull or (a, b) in Kuu:
                            obs.append(('k0uu-is-k0-on-the-free-amplitudes[%d,%d]' % (a, b), Kuu.get((a, b), 0), Kfull.get((i, j), 0)))
                cc2 = cone(model)
                cc2._calc_linear_matrices(combined_load_case=1, silent=True)
                parts = {}
                for M in (cc2.kG0_Fc, cc2.kG0_P, cc2.kG0_T):
                    for k, v in M.todict().items():
                        parts[k] = parts[k] + v if k in parts else v
                for k in sorted(set(tot) | set(parts)):
                    obs.append(('kG0-split[%d,%d]' % k, parts.get(k, 0), tot.get(k, 0)))
                # homogeneity: scale the three loads by t
                t = V('tscale')
                cc3 = cone(model)
                cc3.P, cc3.T, cc3.Fc = cc.P * t, cc.T * t, cc.Fc * t
                cc3._calc_linear_matrices(silent=True)
                sc = cc3.kG0.todict()
                for k in sorted(set(tot) | set(sc)):
                    obs.append(('kG0-homogeneous[%d,%d]' % k, sc.get(k, 0), t * tot.get(k, 0)))
                # the laminate handed to the kernels does not depend on how often the matrices were evaluated (C20 clause)
                F1 = np.array(cc.F, dtype=object).copy()
                cc._calc_linear_matrices(silent=True)
                F2 = cc.F
                for i in range(F1.shape[0]):
                    for j in range(F1.shape[1]):
                        obs.append(('laminate-matrix-stable[%d,%d]' % (i, j), F2[i, j], F1[i, j]))
            else:
                gen = ISO[model][1]
                ci = cone(model)
                ci.laminaprop, ci.stack, ci.plyt = None, [], None
                ci.E11, ci.nu, ci.h = V('E11'), V('nu'), V('h')
                ci._calc_linear_matrices(silent=True)
                Ki = ci.k0.todict()
                cg = cone(gen)
                cg.laminaprop, cg.stack, cg.plyt = None, [], None
                cg.E11, cg.nu, cg.h = ci.E11, ci.nu, ci.h
                cg._calc_linear_matrices(silent=True)
                Kg = cg.k0.todict()
                for k in sorted(set(Ki) | set(Kg)):
                    obs.append(('k0-iso-vs-general[%d,%d]' % k, Ki.get(k, 0), Kg.get(k, 0)))
    elif variant == 'energy':
        # (vi) the shell part of k0 = Hessian of  1/2 int int eps^T F eps r dx dtheta  with eps the package's own LINEAR strain
        # field (cfstrain_* of the commons module, odd part in the amplitudes), integrated exactly (vf/trigpoly.py); for a cone the
        # meridian is cut into the kernel's s sections and r frozen at each section middle (the kernels' own definition)
        from .. import cysym
        from ..trigpoly import World, TP
        rel, nF = (MODELS[model] if model in MODELS else (ISO[model][0], 6))
        base = ISO[model][1] if model in ISO else model
        fam, bc = base.split('_')[0], base.split('_')[-1]
        commons_rel = os.path.join(os.path.dirname(MODELS[base][0]), '%s_commons_%s.pyx' % (fam, bc))
        W = World(ctx.trig, L, ctx.trig._same)
        cenv = dict(ctx.kernels.extra_env)
        cenv.update({'sin': W.sin, 'cos': W.cos, 'cfw0x': (lambda *a: None), 'cfw0t': (lambda *a: None), '_frozen_r': W.frozen_r})
        C = cysym.Module(os.path.join(REPO, commons_rel), env=cenv,
                         extra_src_edit=lambda t: t.replace('r = r2 + x*sina', 'r = _frozen_r(r2 + x*sina)')).ns
        strain = C['cfstrain_sanders' if 'sanders' in base else 'cfstrain_donnell']
        e_num = nF
        K = ctx.kernels.get(rel).ns
        if model in ISO:
            # isotropic short-cut kernels take (E11, nu, h); the same plate constants as a laminate matrix for the oracle
            E11, nu, h = V('E11'), V('nu'), V('h')
            F = np.zeros((6, 6), dtype=object)
            A_ = E11 * h / (1 - nu * nu)
            D_ = E11 * h * h * h / (12 * (1 - nu * nu))
            for off, c_ in ((0, A_), (3, D_)):
                F[off, off] = F[off + 1, off + 1] = c_
                F[off, off + 1] = F[off + 1, off] = c_ * nu
                F[off + 2, off + 2] = c_ * (1 - nu) / 2
            kargs = (E11, nu, h)
        else:
            F = sym_F(ctx, nF)
            # a laminate: the coupling block B is itself symmetric (the kernels read B12, B16, B26 once)
            for (i, j) in ((0, 1), (0, 2), (1, 2)):
                F[j, 3 + i] = F[i, 3 + j]
                F[3 + i, j] = F[3 + j, i] = F[i, 3 + j]
            kargs = (F,)
        cone = cfg.get('cone', True)
        if cone:
            alpha = ctx.deg2rad(V('alphadeg'))
            sina, cosa = ctx.trig.sin(alpha), ctx.trig.cos(alpha)
            kimpl = upper(todict(K['fk0'](alpha, r2, L, *kargs, m1, m2, n2, s)))
            nsec = s
        else:
            sina, cosa = 0, 1
            kimpl = upper(todict(K['fk0_cyl'](r2, L, *kargs, m1, m2, n2)))
            nsec = 1
        num0, num1, num2 = C['num0'], C['num1'], C['num2']
        size = num0 + num1 * m1 + num2 * m2 * n2
        tLA = V('tLA')
        kor = {}
        for sec in range(nsec):
            xa, xb = L * Fraction(sec, nsec), L * Fraction(sec + 1, nsec)
            R = r2 + sina * ((xa + xb) / 2) if cone else r2
            W.set_radius(r2, sina, R)
            B = []
            for a in range(size):
                cols = []
                for sign in (1, -1):
                    cv = cysym.CArray([0] * size)
                    cv[a] = sign
                    es = cysym.CArray([0] * e_num)
                    strain(cysym.Ptr(cv), sina, cosa, tLA, cysym.Ptr(cysym.CArray([W.x])), cysym.Ptr(cysym.CArray([W.theta])), 1, r2, L, m1, m2, n2,
                           cysym.Ptr(cysym.CArray([0])), 0, 0, 0, cysym.Ptr(es))
                    cols.append([e if isinstance(e, TP) else TP.const(e, W) for e in es])
                B.append([(cols[0][i] - cols[1][i]).scale(Fraction(1, 2)) for i in range(e_num)])
            # D = F B
            cache = {}
            for b in range(size):
                Db = []
                for i in range(e_num):
                    acc = None
                    for j in range(e_num):
                        f = F[i, j]
                        if (isinstance(f, (int, float)) and f == 0) or not B[b][j].t:
                            continue
                        term = B[b][j].scale(Sym.lift(f))
                        acc = term if acc is None else acc + term
                    Db.append(acc)
                for a in range(b + 1):
                    integrand = None
                    for i in range(e_num):
                        if Db[i] is None or not B[a][i].t:
                            continue
                        term = B[a][i] * Db[i]
                        integrand = term if integrand is None else integrand + term
                    if integrand is None:
                        continue
                    val = W.integrate(integrand.scale(R), xa, xb, cache)
                    kor[(a, b)] = (kor[(a, b)][0] + val.re, kor[(a, b)][1] + val.im) if (a, b) in kor else (val.re, val.im)
        first_double = num0 + num1 * m1
        for k in sorted(set(kimpl) | set(kor)):
            re, im = kor.get(k, (Sym.lift(0), Sym.lift(0)))
            if k[0] == 2 and k[1] >= first_double:
                # recorded finding: the kernels have no coupling between the tilt amplitude c[2] (cos(theta - thetaLA)) and the
                # double-series amplitudes, although the first circumferential harmonic is not orthogonal to it
                obs.append(('k0-tilt-coupling-vs-energy-hessian[%d,%d]' % k, kimpl.get(k, 0), re))
                obs.append(('k0-tilt-coupling-vs-energy-hessian~known[%d,%d]' % k, kimpl.get(k, 0), 0))
            else:
                obs.append(('k0-vs-energy-hessian[%d,%d]' % k, kimpl.get(k, 0), re))
            if not (isinstance(im, Sym) and im.is_zero()):
                obs.append(('energy-hessian-real[%d,%d]' % k, im, 0))
    elif variant == 'presets':
        # boundary-condition presets: the classical nomenclature (SS/CC 1-4: w restrained; 1: u, v restrained; 2: u free; 3: v free;
        # 4: u and v free; CC: rotation w,x restrained as well; 'free': nothing) for the bottom and the top edge, 'Bot_Top' order
        with ctx.shadow():
            names = ['ss1', 'ss2', 'ss3', 'ss4', 'cc1', 'cc2', 'cc3', 'cc4', 'free']
            want = {}
            for nm in names:
                if nm == 'free':
                    want[nm] = dict(u=0, v=0, w=0, phix=0, phit=0)
                else:
                    k = int(nm[2])
                    want[nm] = dict(u=1 if k in (1, 3) else 0, v=1 if k in (1, 2) else 0, w=1, phix=1 if nm.startswith('cc') else 0, phit=0)
            pairs = [(a, a, a) for a in names] + [('%s_%s' % (a, b), a, b) for a, b in (('ss1', 'cc4'), ('cc2', 'ss3'), ('free', 'cc1'))] + [('ss2-cc3', 'ss2', 'cc3')]
            for text, bot, top in pairs:
                cc = ctx.new_cone(model, m1, m2, n2)
                cc.r2, cc.L, cc.alphadeg = r2, L, V('alphadeg')
                INF, ZERO = Sym(Fraction(123456)), Sym(Fraction(7, 9))     # sentinels below the 1e8 cap of _rebuild
                cc.inf, cc.zero = INF, ZERO
                cc.bc = text
                cc._rebuild()
                for edge, nm in (('Bot', bot), ('Top', top)):
                    for dof, flag in want[nm].items():
                        obs.append(('preset[%s:k%s%s]' % (text, dof, edge), Sym.lift(getattr(cc, 'k%s%s' % (dof, edge))), INF if flag else ZERO))
    elif variant == 'edges':
        # elastic edge restraints: the part of k0 that ConeCyl._calc_linear_matrices obtains through
        # modelDB.get_linear_matrices -> fk0edges, against the Hessian of the edge-spring energy
        #    U = 1/2 sum_edges oint ( ku u^2 + kv v^2 + kw w^2 + kphix phix^2 + kphit phit^2 ) r dtheta
        # of the package's own displacement field (ConeCyl.uvw); the circumferential integral by the N-point trapezoid rule,
        # exact for trigonometric polynomials of degree < N (N = 4: n2 = 1), nodes at multiples of pi/2 (exact values)
        import compmech.conecyl.modelDB as mdb
        rel, nF = (MODELS[model] if model in MODELS else (ISO[model][0], 6))
        base = ISO[model][1] if model in ISO else model
        commons_rel = os.path.join(os.path.dirname(MODELS[base][0]), '%s_commons_%s.pyx' % (base.split('_')[0], base.split('_')[-1]))
        lin = LazyNS(ctx.kernels, rel)
        size_box = []

        class LinearWithoutShellPart:
            """the linear module with fk0 / fk0_cyl replaced by zero matrices (stub): only the edge matrix remains in k0"""
            def __getattr__(self, name):
                if name in ('fk0', 'fk0_cyl'):
                    return lambda *a: ShimCSR((size_box[0], size_box[0]))
                return getattr(lin, name)
        newdb = {}
        for name, e in mdb.db.items():
            e = dict(e)
            if name == model:
                e['linear'] = LinearWithoutShellPart()
                e['commons'] = LazyNS(ctx.kernels, commons_rel)
            if name == base and base != model:
                e['linear'] = LazyNS(ctx.kernels, MODELS[base][0])
            newdb[name] = e

        def read_stack(stack, plyts=None, laminaprops=None, **kw):
            lam = type('Lam', (), {})()
            F = sym_F(ctx, 8)
            for t, tag in ((plyts[0] if plyts else None, 'plyt_before'), (laminaprops[0][0] if laminaprops and laminaprops[0] else None, 'E_before')):
                d_ = t.describe() if isinstance(t, Sym) else None
                before = (d_ and d_[0] == 'var' and d_[1].endswith('_before')) if values is None else (
                    isinstance(t, Sym) and tag in ctx.used_values and t.is_numeric() and t.n == ctx.used_values[tag])
                if before:
                    F = F * V('laminate_before_factor_' + tag)       # another ply thickness / material: another laminate
            lam.ABDE = F
            lam.ABD = F[0:6, 0:6].copy()
            return lam
        ks = ('kuBot', 'kuTop', 'kvBot', 'kvTop', 'kwBot', 'kwTop', 'kphixBot', 'kphixTop', 'kphitBot', 'kphitTop')
        with ctx.shadow(extra_stubs={'compmech.conecyl.modelDB.db': newdb, 'compmech.composite.laminate.read_stack': read_stack,
                                     'compmech.conecyl.conecyl.get_model': lambda name: newdb[name]}):
            cc = ctx.new_cone(model, m1, m2, n2)
            cc.s = s
            cc.r2, cc.L = r2, L
            cc.alphadeg = V('alphadeg') if cfg.get('cone', True) else 0.
            cc.tLAdeg = 0.
            cc.P, cc.T, cc.Fc = 0., 0., 0.
            if model in ISO:
                cc.laminaprop, cc.stack, cc.plyt = None, [], None
                cc.E11, cc.nu, cc.h = V('E11'), V('nu'), V('h')
            for nm in ks:
                setattr(cc, nm, V(nm))
            cc.bc = None
            cc._rebuild()
            size = cc.get_size()
            size_box.append(size)
            cc._calc_linear_matrices(silent=True)
            Kimpl = cc.k0.todict()
            num0 = cc.num0 if hasattr(cc, 'num0') else mdb.db[model]['num0']
            cc.out_num_cores = 1
            cc.pdC = cc.pdT = cc.pdLA = False
            cc.excluded_dofs = []
            cc.excluded_dofs_ck = []
            N = cfg.get('nodes', 4)
            pi = ctx.trig.pi
            G = {}      # (edge, node) -> 5 x size shape-function values
            for edge, xe in (('Bot', L), ('Top', Sym.lift(0))):
                for kk in range(N):
                    te = pi * Fraction(2 * kk, N)
                    rows = np.zeros((5, size), dtype=object)
                    for a in range(num0, size):
                        e = np.zeros(size, dtype=object)
                        e[a] = 1
                        out = cc.uvw(e, xs=np.array([xe], dtype=object), ts=np.array([te], dtype=object), inc=1)
                        for f in range(5):
                            rows[f, a] = Sym.lift(np.ravel(out[f])[0])
                    G[(edge, kk)] = rows
            redge = {'Bot': cc.r1, 'Top': cc.r2}
            kval = {(f, e): getattr(cc, 'k%s%s' % (f, e)) for f in ('u', 'v', 'w', 'phix', 'phit') for e in ('Bot', 'Top')}
            for a in range(num0, size):
                for b in range(a, size):
                    tot = Sym.lift(0)
                    for edge in ('Bot', 'Top'):
                        for kk in range(N):
                            rows = G[(edge, kk)]
                            for fi, f in enumerate(('u', 'v', 'w', 'phix', 'phit')):
                                ga, gb = rows[fi, a], rows[fi, b]
                                if (isinstance(ga, Sym) and ga.is_zero()) or (isinstance(gb, Sym) and gb.is_zero()):
                                    continue
                                tot = tot + kval[(f, edge)] * redge[edge] * ga * gb * (2 * pi / N)
                    obs.append(('k0edges-vs-edge-energy[%d,%d]' % (a, b), Kimpl.get((a, b), 0), tot))
                    if a != b:
                        obs.append(('k0edges-symmetric[%d,%d]' % (a, b), Kimpl.get((b, a), 0), Kimpl.get((a, b), 0)))
            for (a, b), v in sorted(Kimpl.items()):
                if a < num0 or b < num0:
                    obs.append(('k0edges-outside-series-block[%d,%d]' % (a, b), v, 0))
    else:
        raise ValueError(variant)
    assumptions = ctx.trig.circle_constraints() if values is None else []
    info = {'values': {k: str(v) for k, v in ctx.used_values.items()}, 'stats': {k: v.stats.as_dict() for k, v in ctx.kernels.mods.items()},
            'trig_classes': len(ctx.trig.classes)}
    return obs, assumptions, info


def signature(cfg, fam, names):
    """recorded findings of the energy clause without a closed form: which entries fail and their exact residuals at one fixed point"""
    if not ((cfg.get('variant') == 'energy' and fam == 'k0-vs-energy-hessian') or (cfg.get('variant') == 'iso' and cfg['mn'][0] >= 3)):
        return None
    import hashlib
    bad, _ = kprop.concrete_replay(build, dict(cfg, seed=4242), {})
    res = sorted((b[0], '%.12g' % (b[1] - b[2])) for b in bad if b[0].split('[')[0] == fam)
    return hashlib.sha256(json.dumps([list(cfg['mn']), cfg['s'], names, res]).encode()).hexdigest()[:16]


def configs(tier, seed):
    out = []
    quick = tier == 'quick'
    names = sorted(MODELS)
    for q, model in enumerate(names):
        out.append({'variant': 'cone0', 'model': model, 'mn': (2, 2, 1), 's': 1 + (q + seed) % 2, 'group': '(i) cone(0)=cylinder:%s' % model, 'm': 2, 'n': 1, 'timeout_ms': 180000})
        out.append({'variant': 'mirror', 'model': model, 'mn': (2, 2, 1), 's': 1, 'group': '(iv) lower=mirror:%s' % model, 'm': 2, 'n': 1, 'timeout_ms': 180000})
        # three terms along the meridian: the coupling terms with a factor i*k/(i^2 - k^2) need two non-zero indices of odd sum
        out.append({'variant': 'cone0', 'model': model, 'mn': (3, 3, 1), 's': 1, 'only': 'kG0', 'group': '(i) cone(0)=cylinder:%s' % model, 'm': 3, 'n': 1, 'timeout_ms': 180000})
        if not quick:
            out.append({'variant': 'cone0', 'model': model, 'mn': (3, 3, 1), 's': 1, 'group': '(i) cone(0)=cylinder:%s' % model, 'm': 3, 'n': 1, 'timeout_ms': 900000})
            out.append({'variant': 'cone0', 'model': model, 'mn': (2, 2, 2), 's': 2, 'group': '(i) cone(0)=cylinder:%s' % model, 'm': 2, 'n': 2, 'timeout_ms': 600000})
            out.append({'variant': 'mirror', 'model': model, 'mn': (2, 1, 2), 's': 2, 'group': '(iv) lower=mirror:%s' % model, 'm': 2, 'n': 2, 'timeout_ms': 600000})
            out.append({'variant': 'cone0', 'model': model, 'mn': (3, 2, 3), 's': 1, 'group': '(i) cone(0)=cylinder:%s' % model, 'm': 3, 'n': 3, 'timeout_ms': 900000})
    for model in (['clpt_donnell_bc1', 'fsdt_donnell_bc1', 'clpt_sanders_bc2'] if quick else names):
        out.append({'variant': 'split', 'model': model, 'mn': (2, 2, 1), 's': 1, 'cone': True, 'group': '(ii) kG0 split/homogeneous:%s' % model, 'm': 2, 'n': 1, 'timeout_ms': 180000})
        out.append({'variant': 'split', 'model': model, 'mn': (2, 2, 1), 's': 1, 'cone': False, 'group': '(ii) kG0 split/homogeneous (cylinder):%s' % model, 'm': 2, 'n': 1, 'timeout_ms': 180000})
    for pd in ((True, False, True), (True, True, True), (False, False, True)):
        out.append({'variant': 'split', 'model': 'clpt_donnell_bc1', 'mn': (2, 2, 1), 's': 1, 'cone': True, 'pd': pd,
                    'group': '(ii) kG0 split/homogeneous, k0 on the free amplitudes:clpt_donnell_bc1:pdC=%d,pdT=%d' % pd[:2], 'm': 2, 'n': 1, 'timeout_ms': 180000})
    for model in ISO:
        out.append({'variant': 'iso', 'model': model, 'mn': (3, 1, 1), 's': 1, 'cone': True, 'group': '(iii) iso=general:%s:m1=3' % model, 'm': 3, 'n': 1, 'timeout_ms': 180000})
        out.append({'variant': 'iso', 'model': model, 'mn': (3, 1, 1), 's': 1, 'cone': False, 'group': '(iii) iso=general (cylinder):%s:m1=3' % model, 'm': 3, 'n': 1, 'timeout_ms': 180000})
        out.append({'variant': 'iso', 'model': model, 'mn': (2, 2, 1), 's': 1, 'cone': True, 'group': '(iii) iso=general:%s' % model, 'm': 2, 'n': 1, 'timeout_ms': 180000})
        out.append({'variant': 'iso', 'model': model, 'mn': (2, 2, 1), 's': 1, 'cone': False, 'group': '(iii) iso=general (cylinder):%s' % model, 'm': 2, 'n': 1, 'timeout_ms': 180000})
    out.append({'variant': 'presets', 'model': 'clpt_donnell_bc1', 'mn': (1, 1, 1), 's': 1, 'group': '(viii) boundary-condition presets', 'm': 1, 'n': 1})
    # (vi) shell part of k0 against the Hessian of the strain energy of the package's own linear strain field
    emodels = [m for m in sorted(MODELS) + sorted(ISO) if m != 'fsdt_sanders_bcn']
    for model in (['clpt_donnell_bc1', 'clpt_donnell_bc4', 'clpt_sanders_bc1', 'iso_clpt_donnell_bc3', 'fsdt_donnell_bc1'] if quick else emodels):
        for cone, s_ in (((False, 1), (True, 1)) if quick else ((False, 1), (True, 1), (True, 2))):
            out.append({'variant': 'energy', 'model': model, 'mn': (2, 2, 1) if quick else (2, 2, 2), 's': s_, 'cone': cone,
                        'group': '(vi) k0 = energy Hessian:%s:%s' % (model, ('cone-s%d' % s_) if cone else 'cylinder'), 'm': 2, 'n': 1, 'timeout_ms': 600000})
        if not quick:
            out.append({'variant': 'energy', 'model': model, 'mn': (3, 3, 1), 's': 1, 'cone': True, 'group': '(vi) k0 = energy Hessian:%s:cone-s1-331' % model, 'm': 3, 'n': 1, 'timeout_ms': 900000})
    # (vii) re-definition of one ConeCyl object between two evaluations (cylinder -> cone, cone -> cylinder, other radius / length)
    for model in (['clpt_donnell_bc1', 'fsdt_donnell_bc1'] if quick else names):
        for tag, red in (('cylinder-to-cone', ({'alphadeg': 0.}, {'alphadeg': 'alphadeg'})), ('cone-to-cylinder', ({'alphadeg': 'alphadeg'}, {'alphadeg': 0.})),
                         ('other-radius-and-length', ({'r2': 'r2_before', 'L': 'L_before'}, {'r2': 'r2', 'L': 'L'})),
                         ('other-loads', ({'Fc': 'Fc_before', 'P': 'P_before', 'T': 'T_before'}, {'Fc': 'Fc', 'P': 'P', 'T': 'T'})),
                         ('prescribed-rotation-set-later', ({'thetaTdeg': 0., 'uTM': 0.}, {'thetaTdeg': 'thetaTdeg'})),
                         ('axial-load-removed', ({'Fc': 'Fc_before'}, {'Fc': 0.})),
                         ('constitutive-matrix-given-after-a-laminate', ({}, {'F_reuse': 'MATRIX'}))):
            out.append({'variant': 'history', 'model': model, 'mn': (2, 2, 1), 's': 1, 'cone': True, 'redefine': red, 'group': '(vii) re-definition %s:%s' % (tag, model), 'm': 1, 'n': 1, 'timeout_ms': 180000})
            if tag in ('other-radius-and-length', 'constitutive-matrix-given-after-a-laminate', 'cylinder-to-cone', 'prescribed-rotation-set-later'):
                out.append({'variant': 'history', 'via': 'calc_k0', 'model': model, 'mn': (2, 2, 1), 's': 1, 'cone': True, 'redefine': red,
                            'group': '(vii) re-definition %s through calc_k0:%s' % (tag, model), 'm': 1, 'n': 1, 'timeout_ms': 180000})
    # (v) elastic edge restraints through get_linear_matrices / fk0edges against the edge-spring energy
    import compmech.conecyl.modelDB as mdb
    enames = [m for m in sorted(MODELS) + sorted(ISO) if m in mdb.db and hasattr(mdb.db[m]['linear'], 'fk0edges') or (m in ISO and m in mdb.db)]
    for model in enames:
        if model == 'fsdt_sanders_bcn':
            continue
        for cone in (True, False):
            out.append({'variant': 'edges', 'model': model, 'mn': (2, 2, 1), 's': 1, 'cone': cone, 'nodes': 4, 'group': '(v) edge restraints = edge-spring energy:%s:%s' % (model, 'cone' if cone else 'cylinder'),
                        'm': 2, 'n': 1, 'timeout_ms': 300000})
        # three axisymmetric terms: with the series starting at i1 = 0 (bc2..bc4) the first coupling of two non-zero terms is (1, 2)
        out.append({'variant': 'edges', 'model': model, 'mn': (3, 1, 1), 's': 1, 'cone': True, 'nodes': 4, 'group': '(v) edge restraints = edge-spring energy:%s:cone-311' % model,
                    'm': 3, 'n': 1, 'timeout_ms': 300000})
        if not quick:
            out.append({'variant': 'edges', 'model': model, 'mn': (3, 3, 1), 's': 1, 'cone': True, 'nodes': 4, 'group': '(v) edge restraints = edge-spring energy:%s:cone-331' % model,
                        'm': 3, 'n': 1, 'timeout_ms': 600000})
    out[0]['canary'] = True
    out[-1]['canary'] = True
    return out


def main():
    run = Run('C16', 'other', explanation=(
        'Bounded symbolic verification of relational clauses of the shell linear matrices: the *_linear.pyx kernels of 13 shell models '
        'are executed from source (pi symbolic, trigonometric arguments at section ends decided exactly) and, through the real '
        'ConeCyl._calc_linear_matrices, compared entry by entry (z3 qfnra-nlsat): cone at zero angle = cylinder kernels, kG0 split and '
        'homogeneity in (Fc,P,T), isotropic short-cuts = general models on the isotropic laminate, written lower-triangle entries = '
        'their mirror.  The energy-Hessian and PSD clauses are NOT decided (stated in evidence).'))
    for m, (rel, _) in MODELS.items():
        run.encoded(rel, 'fk0, fk0_cyl, fkG0, fkG0_cyl, fk0edges')
    for m, (rel, _) in ISO.items():
        run.encoded(rel, 'fk0, fk0_cyl')
    run.encoded('compmech/conecyl/conecyl.py', 'ConeCyl._calc_linear_matrices, _rebuild, exclude_dofs_matrix')
    run.encoded('compmech/conecyl/modelDB.py', 'get_linear_matrices')
    cf = configs(run.tier, run.seed)
    run.bounds = {'models': sorted(MODELS) + sorted(ISO), 'series_orders_(m1,m2,n2)': sorted({c['mn'] for c in cf}), 'sections_s': sorted({c['s'] for c in cf}), 'configurations': len(cf)}
    run.assume('pi is a symbol; sin/cos of pi*k/2 exact, of the semi-vertex angle a pair of atoms with S^2+C^2=1', 'r2, L non-zero', 'laminate matrix symmetric (A,B,D / shear blocks)')
    run.stubs += ['fk0 / fk0_cyl return a zero matrix in the edge-restraint configurations (v) only', 'laminate.read_stack returns a symbolic ABD/ABDE']
    run.outside = ['positive semi-definiteness as a query (it follows from the energy form where variant (vi) holds)', 'sections s > 2',
                   'edge restraints for n2 > 1 (4-node circumferential rule)',
                   'bcn clpt/fsdt Donnell modules (not importable in this build) and the geier1997 / shadmehri2012 models']
    res = pmap(kprop.job, [(__name__, c) for c in cf])
    res = kprop.explore_loci(__name__, res, run)      # second pass: the equality loci the executed code branched on
    kprop.handle(run, res, build, 'entries differ between the two descriptions', signature=signature)
    # compiled-kernel replay of cone(0) vs cylinder for every model (independent of the symbolic route, floats)
    run.extra['compiled_cone0_vs_cylinder'] = compiled_cone0()
    return run.finish()


def compiled_cone0():
    import importlib, warnings
    from ..panelsym import so_is_current
    out = {}
    F6 = np.array([[10., 3, .5, .2, .1, .05], [3, 8, .4, .1, .3, .02], [.5, .4, 4, .05, .02, .6], [.2, .1, .05, 2, .5, .1], [.1, .3, .02, .5, 1.5, .2], [.05, .02, .6, .1, .2, .8]])
    for model, (rel, nF) in sorted(MODELS.items()):
        if not so_is_current(rel):
            out[model] = 'extension not current'
            continue
        try:
            M = importlib.import_module(rel[:-4].replace('/', '.'))
            F = F6 if nF == 6 else np.block([[F6, np.zeros((6, 2))], [np.zeros((2, 6)), np.array([[3., .1], [.1, 2.5]])]])
            kc = np.triu(M.fk0(0., 1.3, 2.1, F, 2, 2, 2, 4).toarray())
            ky = np.triu(M.fk0_cyl(1.3, 2.1, F, 2, 2, 2).toarray())
            out[model] = {'max_abs_diff_k0': float(np.abs(kc - ky).max()), 'scale': float(np.abs(ky).max())}
        except Exception as e:
            out[model] = 'error: %s' % e
    return out


def replay(path):
    d = json.load(open(path))
    cfg = d['replay']['cfg']
    bad, info = kprop.concrete_replay(build, cfg, d['replay'].get('inputs', {}))
    print('replay %s: %d differing entries' % (cfg, len(bad)))
    for b in bad[:10]:
        print('  %s impl=%r oracle=%r' % b)
    return 1 if bad else 0
