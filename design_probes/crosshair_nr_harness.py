import sys, types
from typing import List
src = open('/repo/compmech/analysis/newton_raphson.py').read()
src = src.replace('import numpy as np', '').replace('from compmech.logger import msg, warn', '').replace('from compmech.sparse import solve', '')
mod = types.ModuleType('nr')
class Vec:
    def __init__(s, desc): s.desc = desc
    def copy(s): return Vec(('copy', s))
    def __add__(s, o): return Vec(('add', s, o))
    __radd__ = __add__
    def __sub__(s, o): return Vec(('sub', s, o))
    def __mul__(s, o): return Vec(('mul', s, o))
    __rmul__ = __mul__
class H: pass
class AbsV:
    def __init__(s, v): s.v = v
    def max(s):
        if H.k < len(H.rs):
            r = H.rs[H.k]; H.k += 1
        else:
            r = 0.0
        H.log.append((s.v, r))
        return r
class NPshim:
    @staticmethod
    def abs(v): return AbsV(v)
def solve(k, f, silent=False): return Vec(('solve', k, f))
mod.__dict__.update(np=NPshim, msg=lambda *a, **k: None, warn=lambda *a, **k: None, solve=solve)
exec(compile(src, 'newton_raphson.py', 'exec'), mod.__dict__)
class Run:
    def __init__(s):
        s.modified_NR = True; s.initialInc = 0.3; s.minInc = 0.05; s.maxInc = 1.; s.absTOL = 1e-3
        s.maxNumIter = 3; s.too_slow_TOL = 0.01; s.line_search = False; s.max_iter_line_search = 2
        s.kT_initial_state = True; s.compute_every_n = 6
        s.increments = []; s.cs = []
    def calc_fext(s, inc=None, silent=False): v = Vec(('fext', inc)); v.inc = inc; return v
    def calc_k0(s, silent=False): return Vec(('k0',))
    def calc_kT(s, c=None, inc=None, silent=False): return Vec(('kT', c))
    def calc_fint(s, c=None, inc=None, silent=False):
        v = Vec(('fint', c, inc)); v.c = c; v.inc = inc; return v

def drive(rs: List[float]) -> bool:
    """
    pre: len(rs) == 4
    pre: all(1e-9 <= r <= 1e7 for r in rs)
    post: _ == True
    """
    H.rs = rs; H.k = 0; H.log = []
    run = Run()
    mod._solver_NR(run, silent=True)
    incs = run.increments
    ok = all(0 < incs[i] <= 1 and (i == 0 or incs[i] > incs[i-1]) for i in range(len(incs)))
    for tot, c in zip(incs, run.cs):
        src_c = c.desc[1]
        last = None
        for (Rv, r) in H.log:
            fext, fint = Rv.desc[1], Rv.desc[2]
            if fint.c is src_c and fint.inc == tot and fext.inc == tot:
                last = r
        ok = ok and last is not None and last < run.absTOL
    return ok

def drive_canary(rs: List[float]) -> bool:
    """
    pre: len(rs) == 4
    pre: all(1e-9 <= r <= 1e7 for r in rs)
    post: _ == True
    """
    drive(rs)
    return False
