"""E5 oracles evaluated at a point (xi, eta): the Ritz series, its derivatives, Donnell strains (linear / von Karman),
stress resultants, and the quadrature sums built from them (state-based geometric stiffness, internal force,
tangent).  Function values are the atoms the kernels obtain from calc_f/calc_fxi/calc_fxixi."""
from ..sym import Sym
from . import energy as E


def basis(atoms, S, p, i, j, dx, dy, xi, eta):
    """(d/dx)^dx (d/dy)^dy of the (i,j) basis function of component p at (xi, eta), physical derivatives"""
    two = Sym.lift(2)
    v = atoms.Fv(dx, i, xi, S.flags[p]['x']) * atoms.Fv(dy, j, eta, S.flags[p]['y'])
    if dx:
        v = v * (two / S.a) ** dx
    if dy:
        v = v * (two / S.b) ** dy
    return v


def field(atoms, S, c, p, dx, dy, xi, eta, col0=0):
    tot = Sym.lift(0)
    for (i, j, q) in S.dofs():
        if q != p:
            continue
        tot = tot + c[col0 + S.dof(i, j, p)] * basis(atoms, S, p, i, j, dx, dy, xi, eta)
    return tot


def strains(atoms, S, ops, c, xi, eta, NL=0, col0=0):
    out = []
    for s in E.STRAINS:
        tot = Sym.lift(0)
        for p, terms in ops.get(s, {}).items():
            if p not in S.comps:
                continue
            for (coef, dx, dy) in terms:
                tot = tot + coef * field(atoms, S, c, p, dx, dy, xi, eta, col0)
        out.append(tot)
    if NL:
        wx = field(atoms, S, c, 'w', 1, 0, xi, eta, col0)
        wy = field(atoms, S, c, 'w', 0, 1, xi, eta, col0)
        half = Sym.lift(1) / 2
        out[0] = out[0] + half * wx * wx
        out[1] = out[1] + half * wy * wy
        out[2] = out[2] + wx * wy
    return out


def dstrains(atoms, S, ops, c, i, j, p, xi, eta, NL=0, col0=0):
    """derivative of the six strains w.r.t. the amplitude of basis function (i,j,p) at state c"""
    out = []
    for s in E.STRAINS:
        tot = Sym.lift(0)
        for (coef, dx, dy) in ops.get(s, {}).get(p, []):
            tot = tot + coef * basis(atoms, S, p, i, j, dx, dy, xi, eta)
        out.append(tot)
    if NL and p == 'w':
        wx = field(atoms, S, c, 'w', 1, 0, xi, eta, col0)
        wy = field(atoms, S, c, 'w', 0, 1, xi, eta, col0)
        bx = basis(atoms, S, 'w', i, j, 1, 0, xi, eta)
        by = basis(atoms, S, 'w', i, j, 0, 1, xi, eta)
        out[0] = out[0] + wx * bx
        out[1] = out[1] + wy * by
        out[2] = out[2] + wx * by + wy * bx
    return out


def resultants(F, eps):
    return [sum((F[r][k] * eps[k] for k in range(6)), Sym.lift(0)) for r in range(6)]


def kG_state(atoms, S, ops, Ffun, c, pts_x, pts_y, NL=0, col0=0):
    """state-based geometric stiffness: sum_pts w (ab/4) [Nxx wA,x wB,x + Nxy (wA,x wB,y + wA,y wB,x) + Nyy wA,y wB,y]
    with N = (A eps + B kappa)(c) at the point.  pts_* = [(xi, weight)]; Ffun(ix, iy) -> 6x6"""
    jac = S.a * S.b / 4
    out = {}
    wd = [(i, j) for (i, j, p) in S.dofs() if p == 'w']
    for ix, (xi, wx_) in enumerate(pts_x):
        for iy, (eta, wy_) in enumerate(pts_y):
            F = Ffun(ix, iy)
            N = resultants(F, strains(atoms, S, ops, c, xi, eta, NL, col0))
            Nxx, Nyy, Nxy = N[0], N[1], N[2]
            dwx = {ij: basis(atoms, S, 'w', ij[0], ij[1], 1, 0, xi, eta) for ij in wd}
            dwy = {ij: basis(atoms, S, 'w', ij[0], ij[1], 0, 1, xi, eta) for ij in wd}
            wt = wx_ * wy_ * jac
            for A in wd:
                ra = S.dof(A[0], A[1], 'w')
                for B in wd:
                    cb = S.dof(B[0], B[1], 'w')
                    if ra > cb:
                        continue
                    v = wt * (Nxx * dwx[A] * dwx[B] + Nxy * (dwx[A] * dwy[B] + dwy[A] * dwx[B]) + Nyy * dwy[A] * dwy[B])
                    out[(ra, cb)] = out[(ra, cb)] + v if (ra, cb) in out else v
    return out


def fint_state(atoms, S, ops, Ffun, c, pts_x, pts_y, NL=1, col0=0):
    """internal force = gradient of 1/2 int eps^T F eps:  sum_pts w (ab/4) (d eps/d c_A)^T F eps"""
    jac = S.a * S.b / 4
    out = {}
    for ix, (xi, wx_) in enumerate(pts_x):
        for iy, (eta, wy_) in enumerate(pts_y):
            F = Ffun(ix, iy)
            sig = resultants(F, strains(atoms, S, ops, c, xi, eta, NL, col0))
            wt = wx_ * wy_ * jac
            for (i, j, p) in S.dofs():
                de = dstrains(atoms, S, ops, c, i, j, p, xi, eta, NL, col0)
                v = wt * sum((de[k] * sig[k] for k in range(6)), Sym.lift(0))
                r = S.dof(i, j, p)
                out[r] = out[r] + v if r in out else v
    return out


def kL_state(atoms, S, ops, Ffun, c, pts_x, pts_y, NL=1, col0=0):
    """'constitutive' part of the tangent: sum_pts w (ab/4) (d eps/d c_A)^T F (d eps/d c_B)  (upper triangle)"""
    jac = S.a * S.b / 4
    out = {}
    dofs = list(S.dofs())
    for ix, (xi, wx_) in enumerate(pts_x):
        for iy, (eta, wy_) in enumerate(pts_y):
            F = Ffun(ix, iy)
            wt = wx_ * wy_ * jac
            de = {d: dstrains(atoms, S, ops, c, d[0], d[1], d[2], xi, eta, NL, col0) for d in dofs}
            Fde = {d: resultants(F, de[d]) for d in dofs}
            for A in dofs:
                ra = S.dof(*A)
                for B in dofs:
                    cb = S.dof(*B)
                    if ra > cb:
                        continue
                    v = wt * sum((de[A][k] * Fde[B][k] for k in range(6)), Sym.lift(0))
                    out[(ra, cb)] = out[(ra, cb)] + v if (ra, cb) in out else v
    return out
