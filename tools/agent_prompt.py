import json,sys
pid=sys.argv[1]
tag=sys.argv[2] if len(sys.argv)>2 else pid
extra=sys.argv[3] if len(sys.argv)>3 else ''
p=[json.loads(l) for l in open('/verif/properties.jsonl') if json.loads(l)['id']==pid][0]
print(f"""You are helping to evaluate a verification framework by writing a *seeded defect* for the open-source Python/Cython package saullocastro/compmech (semi-analytical Ritz models for composite panels, shells, stiffened panels).

Your scratch copy of the repository is the git worktree at /tmp/mut/{tag} (work ONLY there; never touch /repo or /verif, and do not read /verif). The prebuilt extension modules (*.so) are already copied into it, so `cd /tmp/mut/{tag} && /venv/bin/python -c "import compmech"` imports the worktree's package (always run python from inside the worktree directory so that the worktree's `compmech` is the one imported; check `compmech.__file__`).

PROPERTY {pid} -- {p['title']}
Statement: {p['statement']}
Quantified over: {p['quantifier']['text']}
Code it is anchored in: {', '.join(p['anchors']['files'])}

TASK: make ONE small, realistic change to the package's source in your worktree (the kind of slip a maintainer could make in a refactoring or a 'performance fix') that BREAKS this property, while
  (a) everything still imports/"compiles", and
  (b) the existing test suite still passes: `cd /tmp/mut/{tag} && /venv/bin/python -m pytest -q -p no:cacheprovider --timeout=900 --continue-on-collection-errors compmech` must give the same result as on the unchanged tree (34 passed; the collection error for compmech/integrate/tests/test_integratev is pre-existing and expected). The full suite takes ~4-5 minutes; run at least the tests that touch the files you changed, and preferably all of it once at the end.
The change must need something SPECIFIC to manifest -- an unusual input (e.g. unsymmetric laminate, non-default flag, unequal panel sizes, particular ordering, a second stiffener, a particular sequence of solver outcomes, a multi-step sequence of calls, two cooperating sites that each look fine alone) -- not something ordinary use or the existing tests would expose at once. Do not add new files to the package, do not change tests, do not change the public API.

Practical constraints of this sandbox: there is NO Cython and no network. Pure-Python files (*.py) can be changed freely and are the preferred place. `.pyx`/`.pxi`/`lib/src/*.c` files cannot be recompiled with Cython here; if (and only if) you want to change a `.pyx` kernel you must make the same change by hand in the Cython-generated `.c` file (copy it from the same path under /repo, it is git-ignored there) and rebuild that one extension with gcc against /root/.pyenv/versions/3.12.1/include/python3.12 and numpy's include dir so that the demonstration really runs the changed code -- this is allowed but costly (the panel-model extensions are 20 MB each); prefer Python-level changes unless the .pyx route is clearly more interesting and you are confident.

DELIVERABLES (write them into /tmp/mut/{tag}/_seed/):
  1. patch.diff  -- `git diff` of your change (source files only, no binaries), applicable with `git apply` on a clean checkout.
  2. demo.py     -- a small self-contained program (run as `cd <tree> && /venv/bin/python _seed/demo.py`, or a path you document) that exercises the public API, exits 0 and prints PASS on the UNCHANGED tree and exits non-zero / prints FAIL with your change applied. It must test the *property* (e.g. compare against an independent calculation or a relation that must hold), not merely detect your edit.
  3. meta.json   -- {{"property": "{pid}", "files_changed": [...], "what_it_breaks": "...", "needs_to_manifest": "...", "tests_run": "command + result summary", "demo_unchanged": "PASS/FAIL observed", "demo_changed": "PASS/FAIL observed"}}
Verify yourself (do NOT use `git stash` -- the stash is shared between worktrees and other people work in sibling worktrees; use `git diff > _seed/patch.diff; git apply -R _seed/patch.diff; ...; git apply _seed/patch.diff` instead): demo passes with unchanged sources, fails with the change, and the test suite result is unchanged with the change applied. Leave the worktree with your change APPLIED. Be economical: one well-chosen change is enough. In your final answer give a 5-line summary (what you changed, where, what is needed to trigger it, test-suite result, demo results).""" + (("\n\nADDITIONAL REQUIREMENT FOR THIS RUN: " + extra) if extra else ""))
