import sys, time, itertools
import os; sys.path.insert(0, os.path.dirname(os.path.abspath(__file__)))
from pyxsym import *
import z3
from sym import Sym, eq_terms

src = open('/repo/compmech/panel/models/plate_clt_donnell_bardell_num.pyx').read()
env = {}
R = z3.RealSort(); I = z3.IntSort()
ufs = {n: z3.Function(n, I, R, R, R, R, R, R) for n in ('calc_f', 'calc_fxi', 'calc_fxixi')}
UFC = {}
def mkuf(n):
    def f(i, xi, a, b, c, d):
        key = (n, i) + tuple(z3.simplify(t.n).sexpr() for t in (xi, a, b, c, d))
        if key not in UFC: UFC[key] = Sym.var('%s_%d' % (n, len(UFC)))
        return UFC[key]
    return f
for n in ufs: env[n] = mkuf(n)
def leggauss_quad(n, pts, wts):
    for k in range(n):
        pts[k] = z3.Real('gp_%d_%d' % (n, k)); wts[k] = z3.Real('gw_%d_%d' % (n, k))
# distinct symbols for x and y direction even with same n
cnt = [0]
def leggauss_quad(n, pts, wts):
    cnt[0] += 1
    tag = 'xy'[(cnt[0]-1) % 2]
    for k in range(n):
        pts[k] = Sym.var('gp%s_%d' % (tag, k)); wts[k] = Sym.var('gw%s_%d' % (tag, k))
env.update(np=NP(), coo_matrix=coo_matrix, DOUBLE='f8', INT='i8', num=3, leggauss_quad=leggauss_quad)
for fn in ('calc_fint', 'fkL_num', 'fkG_num'):
    name, code = translit(extract_func(src, fn))
    exec(compile(code, fn, 'exec'), env)

class Panel:  # class name must contain 'Panel'
    pass
def mkpanel(m, n):
    p = Panel()
    p.a = Sym.var('a'); p.b = Sym.var('b'); p.m = m; p.n = n
    for u in 'uvw':
        for e in '12':
            for t in 'tr':
                for d in 'xy':
                    nm = u+e+t+d
                    setattr(p, nm, Sym.var(nm))
    return p

def run(m, n, nx, ny):
    p = mkpanel(m, n)
    size = 3*m*n
    F = Arr((6, 6))
    names = {}
    for i in range(6):
        for j in range(i, 6):
            s = Sym.var('F%d%d' % (i, j)); F[i, j] = s; F[j, i] = s
    c = [Sym.var('c%d' % i) for i in range(size)]
    d = [Sym.var('d%d' % i) for i in range(size)]
    def fint_at(cs):
        cnt[0] = 0
        return env['calc_fint'](Arr((size,), list(cs)), F, p, size, 0, nx, ny).data
    def kT_at(cs):
        cnt[0] = 0
        kL = env['fkL_num'](Arr((size,), list(cs)), F, p, size, 0, 0, nx, ny, 1)
        cnt[0] = 0
        kG = env['fkG_num'](Arr((size,), list(cs)), F, p, size, 0, 0, nx, ny, 1)
        M = [[0]*size for _ in range(size)]
        for k in (kL, kG):
            for v, r, cc in zip(k.v.data, k.r.data, k.c.data):
                if isinstance(v, int) and v == 0: continue
                if cc >= r:
                    M[r][cc] = M[r][cc] + v
                    if cc > r:
                        M[cc][r] = M[cc][r] + v
        return M
    t0 = time.time()
    f0 = fint_at(c)
    fp1 = fint_at([ci+di for ci, di in zip(c, d)])
    fm1 = fint_at([ci-di for ci, di in zip(c, d)])
    fp2 = fint_at([ci+2*di for ci, di in zip(c, d)])
    fm2 = fint_at([ci-2*di for ci, di in zip(c, d)])
    kT = kT_at(c)
    print('symbolic exec %.1fs' % (time.time()-t0))
    pre = [p.a.n > 0, p.b.n > 0]
    res = []
    for row in range(size):
        lhs = 0
        for j in range(size): lhs = lhs + kT[row][j]*d[j]*12
        rhs = -fp2[row] + 8*fp1[row] - 8*fm1[row] + fm2[row]
        s = z3.Tactic(TAC).solver(); s.set('timeout', 120000)
        import os
        if os.environ.get("MUT"): lhs = lhs + kT[row][0]*d[0]
        l, r = eq_terms(lhs, rhs)
        s.add(*pre); s.add(l != r)
        t1 = time.time(); r = s.check(); dt = time.time()-t1
        res.append((row, str(r), round(dt, 2)))
        print(row, r, '%.2fs' % dt, flush=True)
    return res

if __name__ == '__main__':
    m, n, nx, ny = map(int, sys.argv[1:5]); TAC = sys.argv[5] if len(sys.argv)>5 else 'qfnra-nlsat'
    run(m, n, nx, ny)
