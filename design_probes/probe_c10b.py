import re, sys, time
import os; sys.path.insert(0, os.path.dirname(os.path.abspath(__file__)))
from fractions import Fraction as Fr
from probe_c10 import bardell, parse_switch, P

class MP:
    """multivariate poly: dict {(e1,e2,...): Fr} over named vars"""
    vars = []
    def __init__(s, d=None): s.d = d or {}
    @staticmethod
    def const(c):
        c = Fr(c)
        return MP({(): c} if c != 0 else {})
    @staticmethod
    def var(name):
        return MP({((name, 1),): Fr(1)})
    @staticmethod
    def lift(x): return x if isinstance(x, MP) else MP.const(x)
    def __add__(s, o):
        o = MP.lift(o); d = dict(s.d)
        for k, v in o.d.items():
            nv = d.get(k, 0) + v
            if nv == 0: d.pop(k, None)
            else: d[k] = nv
        return MP(d)
    __radd__ = __add__
    def __neg__(s): return MP({k: -v for k, v in s.d.items()})
    def __sub__(s, o): return s + (-MP.lift(o))
    def __rsub__(s, o): return MP.lift(o) + (-s)
    def __mul__(s, o):
        o = MP.lift(o); d = {}
        for k1, v1 in s.d.items():
            for k2, v2 in o.d.items():
                e = dict(k1)
                for n, p in k2: e[n] = e.get(n, 0) + p
                k = tuple(sorted(e.items()))
                nv = d.get(k, 0) + v1*v2
                if nv == 0: d.pop(k, None)
                else: d[k] = nv
        return MP(d)
    __rmul__ = __mul__
    def __pow__(s, k):
        r = MP.const(1)
        for _ in range(int(k)): r = r*s
        return r

NUM = re.compile(r'(?<![\w.])(\d+\.\d*(?:[eE][+-]?\d+)?|\d+[eE][+-]?\d+|\d+)(?![\w.])')
def ev(expr, names):
    e = NUM.sub(lambda m: 'C("%s")' % m.group(1), expr)
    env = {'C': lambda s: MP.const(Fr(s)), 'pow': lambda x, k: MP.lift(x)**int(list(MP.lift(k).d.values())[0]) }
    for n in names: env[n] = MP.var(n)
    return eval(e, {}, env)

if __name__ == '__main__':
    u = bardell(30)
    fam = sys.argv[1] if len(sys.argv) > 1 else 'ff'
    der = {'ff': (0,0), 'ffxi': (0,1), 'ffxixi': (0,2), 'fxifxi': (1,1), 'fxifxixi': (1,2), 'fxixifxixi': (2,2)}[fam]
    t0 = time.time()
    tabs = parse_switch('/repo/compmech/lib/src/bardell_integral_%s_12.c' % fam)
    tab = tabs['integral_%s_12' % fam]
    print(len(tab), 'entries parsed', time.time()-t0)
    flags = [p+f for p in 'xy' for f in ('1t','1r','2t','2r')]
    worst = (0, None)
    pairs = [(0,0),(1,3),(4,4),(3,7),(10,12),(20,21),(29,29),(28,29),(5,29)] if len(sys.argv) < 3 else [(i,j) for i in range(30) for j in range(30)]
    for (i, j) in pairs:
        e = tab.get((i, j))
        if e is None: e = '0'
        impl = ev(e, ['xi1', 'xi2'] + flags)
        a = u[i]; b = u[j]
        for _ in range(der[0]): a = a.deriv()
        for _ in range(der[1]): b = b.deriv()
        prod = a*b
        # antiderivative
        anti = [Fr(0)] + [c/(k+1) for k, c in enumerate(prod.c)]
        fa = {0: 'x1t', 1: 'x1r', 2: 'x2t', 3: 'x2r'}.get(i); fb = {0: 'y1t', 1: 'y1r', 2: 'y2t', 3: 'y2r'}.get(j)
        ex = MP()
        for k, c in enumerate(anti):
            if c == 0: continue
            ex = ex + MP.var('xi2')**k*c - MP.var('xi1')**k*c
        if fa: ex = ex*MP.var(fa)
        if fb: ex = ex*MP.var(fb)
        diff = impl - ex
        s_abs = sum(abs(v) for v in ex.d.values())
        s_diff = sum(abs(v) for v in diff.d.values())
        rel = float(s_diff/s_abs) if s_abs else float(s_diff)
        if rel > worst[0]: worst = (rel, (i, j))
        print((i, j), 'terms', len(impl.d), 'sum|coef|=%.3g' % float(s_abs), 'sum|diff|=%.3g' % float(s_diff), 'rel=%.3g' % rel)
    print('worst', worst, time.time()-t0)
