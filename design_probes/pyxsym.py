"""Throwaway probe: transliterate a Cython kernel function to Python and run it on z3 terms."""
import re, ast, sys, time
import z3

def extract_func(src, name):
    lines = src.split('\n')
    start = None
    for i, l in enumerate(lines):
        if re.match(r'(def|cdef\s+\w+|cpdef\s+\w+)\s+%s\(' % re.escape(name), l) or re.match(r'cdef void %s\(' % re.escape(name), l):
            start = i
            break
    assert start is not None, name
    end = len(lines)
    for j in range(start+1, len(lines)):
        if re.match(r'(def|cdef|cpdef)\s', lines[j]):
            end = j
            break
    return lines[start:end]

TYPES = r'(?:double|int|long|object|void)'

def translit(lines):
    out = []
    # join signature
    i = 0
    sig = ''
    while True:
        sig += lines[i].strip() + ' '
        if lines[i].rstrip().endswith(':'):
            i += 1
            break
        i += 1
    m = re.match(r'(?:def|cdef\s+\w+|cpdef\s+\w+)\s+(\w+)\((.*)\)\s*(?:nogil)?\s*:', sig)
    name, args = m.group(1), m.group(2)
    pargs = []
    for a in args.split(','):
        a = a.strip()
        a = re.sub(r'^(?:double|int|long|object)\s*(\[[^\]]*\])?\s*\*?', '', a).strip()
        pargs.append(a)
    out.append('def %s(%s):' % (name, ', '.join(pargs)))
    decl_arrays = []
    body = lines[i:]
    k = 0
    while k < len(body):
        l = body[k]
        s = l.strip()
        if s.startswith('cdef '):
            # c array decl
            mi = re.match(r'cdef (?:double|int|long) (\w+) = (.*)', s)
            if mi:
                out.append(l[:len(l)-len(l.lstrip())] + '%s = %s' % (mi.group(1), mi.group(2)))
            mm = re.match(r'cdef double (\w+)\[(.*)\]', s)
            if mm:
                out.append(l[:len(l)-len(l.lstrip())] + '%s = [0]*(%s)' % (mm.group(1), mm.group(2)))
            # continuation lines ending with comma
            while body[k].rstrip().endswith(','):
                k += 1
                if not body[k+1].strip().startswith('cdef') and not body[k].rstrip().endswith(','):
                    break
            k += 1
            continue
        l = re.sub(r'with nogil:', 'if True:', l)
        l = re.sub(r'&(\w+)\[0\]', r'\1', l)
        out.append(l)
        k += 1
    return name, '\n'.join(out)

class Arr:
    """n-d array shim with concrete shape, object entries"""
    def __init__(self, shape, data=None):
        self.shape = tuple(shape)
        n = 1
        for s in self.shape: n *= s
        self.data = data if data is not None else [0]*n
    def _idx(self, key):
        if not isinstance(key, tuple): key = (key,)
        assert len(key) == len(self.shape), (key, self.shape)
        idx = 0
        for k, s in zip(key, self.shape):
            assert isinstance(k, int) and 0 <= k < s, ('OOB', key, self.shape)
            idx = idx*s + k
        return idx
    def __getitem__(self, key): return self.data[self._idx(key)]
    def __setitem__(self, key, v): self.data[self._idx(key)] = v

class NP:
    float64 = 'f8'
    def zeros(self, shape, dtype=None):
        if isinstance(shape, int): shape = (shape,)
        return Arr(shape)
    def asarray(self, a, dtype=None): return a
    def ascontiguousarray(self, a, dtype=None): return a
    def empty(self, shape, dtype=None): return Arr(shape)

class Result:
    def __init__(self, v, rc, shape): self.v, self.r, self.c, self.shape = v, rc[0], rc[1], shape
def coo_matrix(t, shape=None):
    v, (r, c) = t
    return Result(v, (r, c), shape)
