"""E1: de-Cythoniser.  Turns a .pyx (with its .pxi includes) into plain Python source, AST-instruments it and
exec()s it so that the kernels run on symbolic (Sym) or float scalars with C semantics made explicit:

  * cdef declarations -> dropped (types recorded: int names per function; C arrays allocated)
  * `with nogil:` -> `if True:`; prange -> range; casts removed; malloc/free -> list / no-op
  * `&x[i,0]` -> Ptr view (bounds-checked flat view into the row-major buffer)
  * every subscript load/store goes through _ld/_st (bounds checks, no wraparound: boundscheck/wraparound=False
    in the real build means an out-of-range index is silent memory corruption -- here it is an error)
  * `/` -> _div: C truncating division when both operands are *statically* int-typed (counted), exact otherwise
  * float literals -> _lit(text): exact rational of the decimal text; long decimals are snapped to p/q (recorded)
  * extern C functions are supplied by the caller (symbolic atoms, exact tables, or the gcc-built library)
"""
import re, ast, os, hashlib
from fractions import Fraction
import numpy as _np

CTYPES = r'(?:unsigned\s+)?(?:double|int|long|float|void|object|str|bint|f_type|cc_attributes|size_t|Py_ssize_t|cDOUBLE|cINT|char)'


_SCALAR_TYPES = {'double', 'int', 'long', 'float', 'object', 'bint', 'str', 'list', 'dict', 'tuple', 'void', 'char', 'size_t', 'Py_ssize_t', 'bool',
                 'cDOUBLE', 'cINT', 'f_type', 'unsigned', 'short', 'complex'}


class KernelOOB(Exception):
    pass


class DeCythonError(Exception):
    pass


# ------------------------------------------------------------------------------------------------
# runtime helpers visible to the translated code
# ------------------------------------------------------------------------------------------------
class Ptr:
    """C pointer into a contiguous numpy buffer / C array: p[k] == base.flat[off + k]"""
    __slots__ = ('base', 'off')

    def __init__(self, base, off=0):
        if isinstance(base, Ptr):
            off += base.off
            base = base.base
        self.base = base
        self.off = off

    def _flat(self):
        return self.base.reshape(-1) if isinstance(self.base, _np.ndarray) else self.base

    def _chk(self, k):
        k = _as_index(k)
        n = self.base.size if isinstance(self.base, _np.ndarray) else len(self.base)
        if not (0 <= self.off + k < n):
            raise KernelOOB('pointer access %d+%d outside buffer of %d' % (self.off, k, n))
        return self.off + k

    def __getitem__(self, k):
        i = self._chk(k)
        if isinstance(self.base, _np.ndarray):
            return self.base.reshape(-1)[i]
        return self.base[i]

    def __setitem__(self, k, v):
        i = self._chk(k)
        if isinstance(self.base, _np.ndarray):
            if not self.base.flags['C_CONTIGUOUS']:
                raise KernelOOB('pointer into non-contiguous buffer')
            self.base.reshape(-1)[i] = v
        else:
            self.base[i] = v

    def __add__(self, k):
        return Ptr(self.base, self.off + _as_index(k))


class CArray(list):
    """C stack/heap array of fixed length"""
    pass


def _as_index(k):
    if isinstance(k, (bool,)):
        raise KernelOOB('bool index')
    if isinstance(k, (int, _np.integer)):
        return int(k)
    if isinstance(k, Fraction) and k.denominator == 1:
        return int(k)
    raise KernelOOB('non-integer index %r' % (k,))


def _norm_idx(x, idx):
    if isinstance(idx, tuple):
        if any(isinstance(i, slice) or i is None or i is Ellipsis for i in idx):
            return None
        return tuple(_as_index(i) for i in idx)
    if isinstance(idx, slice) or idx is None or idx is Ellipsis:
        return None
    if isinstance(idx, (int, _np.integer)):
        return int(idx)
    if isinstance(idx, Fraction) and idx.denominator == 1:
        return int(idx)
    return None


def _chk_nd(x, idx):
    if isinstance(idx, tuple):
        if len(idx) > x.ndim:
            raise KernelOOB('too many indices %r for shape %r' % (idx, x.shape))
        for k, s in zip(idx, x.shape):
            if not (0 <= k < s):
                raise KernelOOB('index %r out of bounds for shape %r' % (idx, x.shape))
    else:
        if x.ndim == 0 or not (0 <= idx < x.shape[0]):
            raise KernelOOB('index %r out of bounds for shape %r' % (idx, x.shape))


def _ld(x, idx):
    if isinstance(x, _np.ndarray):
        n = _norm_idx(x, idx)
        if n is None:
            return x[idx]
        _chk_nd(x, n)
        v = x[n]
        if isinstance(v, _np.integer):
            return int(v)
        if isinstance(v, _np.floating):
            return float(v)
        return v
    if isinstance(x, CArray):
        k = _as_index(idx)
        if not (0 <= k < len(x)):
            raise KernelOOB('C array index %d outside [0,%d)' % (k, len(x)))
        return list.__getitem__(x, k)
    return x[idx]


def _st(x, idx, v):
    if isinstance(x, _np.ndarray):
        n = _norm_idx(x, idx)
        if n is None:
            x[idx] = v
            return
        _chk_nd(x, n)
        x[n] = v
        return
    if isinstance(x, CArray):
        k = _as_index(idx)
        if not (0 <= k < len(x)):
            raise KernelOOB('C array index %d outside [0,%d)' % (k, len(x)))
        list.__setitem__(x, k, v)
        return
    x[idx] = v


def _addr(x, idx):
    if isinstance(x, (Ptr, CArray)):
        k = idx[0] if isinstance(idx, tuple) else idx
        return Ptr(x, _as_index(k))
    if isinstance(x, _np.ndarray):
        if not isinstance(idx, tuple):
            idx = (idx,)
        idx = tuple(_as_index(i) for i in idx)
        if x.size == 0:
            return Ptr(x, 0)
        if not x.flags['C_CONTIGUOUS']:
            raise KernelOOB('address of element of non-contiguous array')
        off = 0
        for k, s in zip(idx, x.shape):
            if not (0 <= k < s):
                raise KernelOOB('address index %r out of bounds for shape %r' % (idx, x.shape))
            off = off * s + k
        for s in x.shape[len(idx):]:
            off *= s
        return Ptr(x, off)
    raise DeCythonError('address-of unsupported object %r' % type(x))


class Ref:
    """&scalar or &struct (captures the value at the time the address is taken; the kernels never write through it)"""
    def __init__(self, v):
        object.__setattr__(self, 'v', v)

    def __getitem__(self, k):
        if _as_index(k) != 0:
            raise KernelOOB('pointer to a scalar indexed with %r' % (k,))
        return self.v

    def __getattr__(self, name):
        return getattr(object.__getattribute__(self, 'v'), name)

    def __call__(self, *a, **kw):
        # &function: a C function pointer, called like the function itself
        return object.__getattribute__(self, 'v')(*a, **kw)


class CStruct:
    """cdef struct instance: plain attribute bag"""
    pass


class MemView:
    """what a `def` function of a Cython module hands back when it returns a variable declared as a typed memoryview
    (`cdef double [:] fint ... return fint`): indexable and convertible to an array (buffer protocol), but WITHOUT arithmetic
    operators -- `0 + view` is a TypeError in the compiled module, `ndarray + view` and `view + ndarray` work through numpy"""
    def __init__(self, a):
        self._a = a

    def __array__(self, dtype=None, copy=None):
        import numpy as _np
        return _np.asarray(self._a) if dtype is None else _np.asarray(self._a, dtype=dtype)

    def __getitem__(self, k):
        return self._a[k]

    def __setitem__(self, k, v):
        self._a[k] = v

    def __len__(self):
        return len(self._a)

    def __iter__(self):
        return iter(self._a)

    shape = property(lambda self: self._a.shape)
    ndim = property(lambda self: self._a.ndim)
    size = property(lambda self: self._a.size)
    base = property(lambda self: self._a)
    T = property(lambda self: MemView(self._a.T))

    def copy(self):
        return MemView(self._a.copy())


def _memview(a):
    return a if isinstance(a, (MemView, CArray, Ptr)) or not hasattr(a, 'shape') else MemView(a)


def _malloc(n):
    return CArray([0] * int(n))


def _free(p):
    return None


def _carray(n):
    return CArray([0] * int(n))


def prange(*a, **kw):
    return range(*[int(x) for x in a])


class Stats:
    def __init__(self):
        self.int_divisions = 0
        self.literal_snaps = {}
        self.literals = 0

    def as_dict(self):
        return {'int_divisions': self.int_divisions, 'literal_snaps': dict(list(self.literal_snaps.items())[:40]),
                'n_literal_snaps': len(self.literal_snaps), 'literals': self.literals}


def snap_literal(text, stats=None):
    """decimal literal text -> Fraction.  >= 12 significant digits: snapped to the unique p/q (q <= 10^4) within
    relative 2^-46 if one exists (generated code prints rationals to 15 digits); else exact decimal."""
    t = text.rstrip('fFlL')
    exact = Fraction(t)
    digits = re.sub(r'[eE].*', '', t).replace('.', '').lstrip('0')
    if len(digits) >= 12 and exact != 0:
        cand = exact.limit_denominator(10 ** 4)
        if abs(cand - exact) <= abs(exact) * Fraction(1, 2 ** 46) and cand != exact:
            if stats is not None:
                stats.literal_snaps[text] = '%s (dev %.1e)' % (cand, float(abs(cand - exact) / abs(exact)))
            return cand
    return exact


def make_runtime(stats, mode):
    """mode: 'sym' (exact: ints/Fractions/Sym) or 'float'"""
    def _lit(text):
        stats.literals += 1
        if mode == 'float':
            return float(text)
        return snap_literal(text, stats)

    def _div(l, r, static_int):
        if static_int and isinstance(l, (int, _np.integer)) and isinstance(r, (int, _np.integer)):
            stats.int_divisions += 1
            l, r = int(l), int(r)
            q = abs(l) // abs(r)
            return q if (l >= 0) == (r >= 0) else -q
        if mode == 'float':
            return l / r
        if isinstance(l, (int, _np.integer)):
            l = Fraction(int(l))
        if isinstance(r, (int, _np.integer)):
            r = Fraction(int(r))
        if isinstance(l, float):
            l = Fraction(l)
        if isinstance(r, float):
            r = Fraction(r)
        return l / r

    def _toint(v):
        if isinstance(v, (int, _np.integer)):
            return int(v)
        if isinstance(v, Fraction):
            return int(v)      # truncation toward zero, as a C conversion
        if isinstance(v, float):
            return int(v)
        if isinstance(v, bool):
            return int(v)
        try:
            return int(v)
        except TypeError:
            raise DeCythonError('symbolic value assigned to a C int')

    return {'_lit': _lit, '_div': _div, '_toint': _toint, '_ld': _ld, '_st': _st, '_addr': _addr,
            '_malloc': _malloc, 'free': _free, '_carray': _carray, 'prange': prange, '_ref': Ref, '_Struct': CStruct, '_memview': _memview,
            'Ptr': Ptr, 'CArray': CArray}


# ------------------------------------------------------------------------------------------------
# text level: Cython -> Python
# ------------------------------------------------------------------------------------------------
def _split_top(s, sep=','):
    out, depth, cur = [], 0, ''
    for ch in s:
        if ch in '([{':
            depth += 1
        elif ch in ')]}':
            depth -= 1
        if ch == sep and depth == 0:
            out.append(cur)
            cur = ''
        else:
            cur += ch
    if cur.strip():
        out.append(cur)
    return out


ARG_RE = re.compile(r'^(?P<type>.*?)(?P<name>[A-Za-z_]\w*)\s*(?:=(?P<default>.*))?$', re.S)


def _parse_arg(a):
    a = a.strip()
    if not a:
        return None
    if a in ('self',) or a.startswith('*'):
        return a, '', None
    # split off default at top level
    parts = _split_top(a, '=')
    default = None
    if len(parts) > 1:
        a, default = parts[0].strip(), '='.join(parts[1:]).strip()
    m = re.match(r'^(?P<type>.*?)(?P<name>[A-Za-z_]\w*)$', a, re.S)
    if not m:
        raise DeCythonError('cannot parse argument %r' % a)
    return m.group('name'), m.group('type').strip(), default


def _int_type(t):
    t = t.strip()
    return re.fullmatch(r'(?:unsigned\s+)?(?:int|long|size_t|Py_ssize_t|cINT|bint)', t) is not None


HEADER_RE = re.compile(r'^(?P<ind>\s*)(?:(?P<def>def)\s+|(?:cdef|cpdef)(?:\s+inline)?\s+(?:(?P<ret>[\w ]+?)[\s\*]+)??\**)(?P<name>\w+)\s*\((?P<args>.*)\)\s*(?P<tail>[^:()]*):\s*$', re.S)


def _join_logical(lines, i):
    """join physical lines starting at i until brackets balance; returns (text, next_i)"""
    txt = lines[i]
    depth = 0

    def upd(s, depth):
        s = re.sub(r"'[^']*'|\"[^\"]*\"", '', s)
        s = s.split('#')[0]
        return depth + sum(s.count(c) for c in '([{') - sum(s.count(c) for c in ')]}')
    depth = upd(lines[i], 0)
    j = i + 1
    while depth > 0 and j < len(lines):
        txt += '\n' + lines[j]
        depth = upd(lines[j], depth)
        j += 1
    return txt, j


def _subst(l2):
    """statement-level rewrites (also applied to initialisers of cdef declarations)"""
    l2 = re.sub(r'\bwith\s+(nogil|gil)\s*:', 'if True:', l2)
    l2 = re.sub(r'<\s*%s\s*\**\s*>\s*malloc\((.*)\*\s*sizeof\([^)]*\)\s*\)' % CTYPES, r'_malloc(\1)', l2)
    l2 = re.sub(r'<\s*(?:int|long)\s*>', '_toint', l2) if re.search(r'<\s*(?:int|long)\s*>\s*\(', l2) else l2
    l2 = re.sub(r'<\s*%s\s*\**\s*>' % CTYPES, '', l2)
    l2 = re.sub(r'&(\w+)\[([^\]]*)\]', r'_addr(\1, (\2,))', l2)
    l2 = re.sub(r'(?<![\w\)\]&])&(\w+)\b(?!\s*\[)', r'_ref(\1)', l2)
    return l2


def preprocess(src, path=None, info=None):
    """Cython text -> python text.  info: dict collecting {'ints': {func: set(names)}, 'includes': [...]}"""
    if info is None:
        info = {}
    info.setdefault('ints', {})
    info.setdefault('includes', [])
    info.setdefault('cfuncs', [])
    # textual includes
    def inc(m):
        fn = m.group(2)
        p = os.path.join(os.path.dirname(path), fn) if path else fn
        info['includes'].append(p)
        txt = open(p).read()
        ind = m.group(1)
        return '\n'.join(ind + l for l in txt.split('\n'))
    for _ in range(4):
        src = re.sub(r'^([ \t]*)include\s+[\'"]([^\'"]+)[\'"]\s*$', inc, src, flags=re.M)
    lines = src.split('\n')
    out = []
    i = 0
    cur_func = None
    func_indent = -1
    n = len(lines)
    while i < n:
        l = lines[i]
        s = l.strip()
        ind = l[:len(l) - len(l.lstrip())]
        if cur_func is not None and s and not s.startswith('#') and len(ind) <= func_indent:
            cur_func = None
        # extern blocks / struct / enum
        if re.match(r'cdef\s+extern\s+from', s) or re.match(r'cdef\s+(struct|enum|union)\b', s) or re.match(r'ctypedef\s+(struct|enum)', s):
            if s.endswith(':'):
                i += 1
                while i < n and (not lines[i].strip() or len(lines[i]) - len(lines[i].lstrip()) > len(ind)):
                    i += 1
                continue
        if re.match(r'(from\s+\S+\s+)?cimport\b', s) or re.match(r'from\s+cython', s) or re.match(r'import\s+cython\b', s):
            i += 1
            continue
        if s.startswith('ctypedef'):
            _, i = _join_logical(lines, i)
            continue
        if s.startswith('@cython') or s.startswith('@boundscheck') or s.startswith('@wraparound'):
            i += 1
            continue
        # function headers
        if re.match(r'(def|cdef|cpdef)\b', s) and '(' in s and not re.match(r'cdef\s+[\w \*\[\]:,]+=', s):
            txt, j = _join_logical(lines, i)
            flat = ' '.join(x.strip() for x in txt.split('\n'))
            m = HEADER_RE.match(ind + flat)
            if m and (m.group('def') or not re.match(r'cdef\s+(?:%s)\s*[\*\s]*\w+\s*(\[|,|$)' % CTYPES, s)):
                name = m.group('name')
                pargs = []
                ints = set()
                for a in _split_top(m.group('args')):
                    pa = _parse_arg(a)
                    if pa is None:
                        continue
                    an, at, ad = pa
                    if _int_type(at):
                        ints.add(an)
                    pargs.append(an + ('=' + ad if ad is not None else ''))
                out.append('%sdef %s(%s):' % (ind, name, ', '.join(pargs)))
                cur_func = name
                func_indent = len(ind)
                info['ints'][name] = ints
                if not m.group('def'):
                    info['cfuncs'].append(name)
                i = j
                continue
        # cdef declarations
        if re.match(r'cdef\b', s):
            txt, j = _join_logical(lines, i)
            # continuation because of trailing commas
            while txt.rstrip().endswith(',') and j < n and not re.match(r'\s*cdef\b', lines[j]) and lines[j].strip():
                txt += ' ' + lines[j].strip()
                j += 1
            body = re.sub(r'^cdef\s+', '', ' '.join(x.strip() for x in txt.split('\n'))).rstrip(',').strip()
            body = re.sub(r'^(public|readonly)\s+', '', body)
            mt = re.match(r'(?P<type>(?:unsigned\s+)?[\w\.]+(?:\s*\[[^\]]*\])?)\s*(?P<rest>.*)$', body)
            if not mt:
                raise DeCythonError('cannot parse cdef: %r' % txt)
            ctype, rest = mt.group('type'), mt.group('rest')
            is_int = _int_type(re.sub(r'\s*\[.*', '', ctype)) and '[' not in ctype
            is_mv = bool(re.match(r'(?:unsigned\s+)?(?:double|float|int|long)\s*\[[^\]]*:[^\]]*\]$', ctype))
            for d in _split_top(rest):
                d = d.strip()
                if not d:
                    continue
                init = None
                parts = _split_top(d, '=')
                if len(parts) > 1:
                    d, init = parts[0].strip(), '='.join(parts[1:]).strip()
                ptr_decl = d.startswith('*')
                d = d.lstrip('*').strip()
                ma = re.match(r'(\w+)\s*\[(.+)\]$', d)
                if ma:   # C array
                    out.append('%s%s = _carray(%s)' % (ind, ma.group(1), ma.group(2)))
                    continue
                if not re.fullmatch(r'\w+', d):
                    raise DeCythonError('cannot parse declarator %r in %r' % (d, txt))
                if init is None and re.fullmatch(r'\w+', ctype) and ctype not in _SCALAR_TYPES and not ptr_decl:
                    out.append('%s%s = _Struct()' % (ind, d))      # instance of a cdef struct
                if is_mv and cur_func is not None:
                    info.setdefault('memviews', {}).setdefault(cur_func, set()).add(d)
                if is_int and cur_func is not None:
                    info['ints'].setdefault(cur_func, set()).add(d)
                if is_int and cur_func is None:
                    info['ints'].setdefault('<module>', set()).add(d)
                if init is not None:
                    out.append('%s%s = %s' % (ind, d, _subst(init)))
            i = j
            continue
        # statements
        l2 = _subst(l)
        mr = re.match(r'(\s*)return\s+(\w+)\s*$', l2)
        if mr and cur_func is not None and cur_func not in info['cfuncs'] and mr.group(2) in info.get('memviews', {}).get(cur_func, ()):
            l2 = '%sreturn _memview(%s)' % (mr.group(1), mr.group(2))     # a def function returning a typed memoryview
        out.append(l2)
        i += 1
    return '\n'.join(out), info


# ------------------------------------------------------------------------------------------------
# AST level
# ------------------------------------------------------------------------------------------------
class _Instr(ast.NodeTransformer):
    def __init__(self, src, ints_by_func, module_ints, drop_imports):
        self.src = src
        self.lines = src.split('\n')
        self.ints_by_func = ints_by_func
        self.module_ints = module_ints
        self.drop_imports = drop_imports
        self.cur_ints = set(module_ints)

    # static int typing -----------------------------------------------------------------------
    def is_int(self, node):
        if isinstance(node, ast.Constant):
            return isinstance(node.value, int) and not isinstance(node.value, bool)
        if isinstance(node, ast.Name):
            return node.id in self.cur_ints
        if isinstance(node, ast.UnaryOp) and isinstance(node.op, (ast.USub, ast.UAdd)):
            return self.is_int(node.operand)
        if isinstance(node, ast.BinOp) and isinstance(node.op, (ast.Add, ast.Sub, ast.Mult, ast.FloorDiv, ast.Mod, ast.Div)):
            return self.is_int(node.left) and self.is_int(node.right)
        return False

    def visit_FunctionDef(self, node):
        saved = self.cur_ints
        self.cur_ints = set(self.module_ints) | set(self.ints_by_func.get(node.name, ()))
        self.generic_visit(node)
        self.cur_ints = saved
        return node

    def visit_ImportFrom(self, node):
        if node.module and any(node.module == d or node.module.startswith(d + '.') for d in self.drop_imports):
            return ast.Pass()
        return node

    def visit_Import(self, node):
        names = [a for a in node.names if not any(a.name == d or a.name.startswith(d + '.') for d in self.drop_imports)]
        if not names:
            return ast.Pass()
        node.names = names
        return node

    def visit_Constant(self, node):
        if isinstance(node.value, float):
            seg = ast.get_source_segment(self.src, node) or repr(node.value)
            return ast.copy_location(ast.Call(ast.Name('_lit', ast.Load()), [ast.Constant(seg)], []), node)
        return node

    def visit_BinOp(self, node):
        static_int = isinstance(node.op, ast.Div) and self.is_int(node.left) and self.is_int(node.right)
        self.generic_visit(node)
        if isinstance(node.op, ast.Div):
            return ast.copy_location(ast.Call(ast.Name('_div', ast.Load()), [node.left, node.right, ast.Constant(static_int)], []), node)
        return node

    def visit_Subscript(self, node):
        self.generic_visit(node)
        if isinstance(node.ctx, ast.Load):
            return ast.copy_location(ast.Call(ast.Name('_ld', ast.Load()), [node.value, self._idx(node.slice)], []), node)
        return node

    @staticmethod
    def _idx(sl):
        if isinstance(sl, ast.Slice):
            return ast.Call(ast.Name('slice', ast.Load()), [sl.lower or ast.Constant(None), sl.upper or ast.Constant(None), sl.step or ast.Constant(None)], [])
        if isinstance(sl, ast.Tuple):
            return ast.Tuple([_Instr._idx(e) for e in sl.elts], ast.Load())
        return sl

    def visit_Assign(self, node):
        self.generic_visit(node)
        if len(node.targets) == 1:
            t = node.targets[0]
            if isinstance(t, ast.Subscript):
                call = ast.Call(ast.Name('_st', ast.Load()), [t.value, self._idx(t.slice), node.value], [])
                return ast.copy_location(ast.Expr(call), node)
            if isinstance(t, ast.Name) and t.id in self.cur_ints:
                node.value = ast.Call(ast.Name('_toint', ast.Load()), [node.value], [])
        return node

    def visit_AugAssign(self, node):
        static_int = isinstance(node.op, ast.Div) and isinstance(node.target, ast.Name) and node.target.id in self.cur_ints and self.is_int(node.value)
        self.generic_visit(node)
        t = node.target
        if isinstance(t, ast.Subscript):
            load = ast.Call(ast.Name('_ld', ast.Load()), [t.value, self._idx(t.slice)], [])
            val = self._binop(node.op, load, node.value, False)
            call = ast.Call(ast.Name('_st', ast.Load()), [t.value, self._idx(t.slice), val], [])
            return ast.copy_location(ast.Expr(call), node)
        if isinstance(t, ast.Name):
            val = self._binop(node.op, ast.Name(t.id, ast.Load()), node.value, static_int)
            if t.id in self.cur_ints:
                val = ast.Call(ast.Name('_toint', ast.Load()), [val], [])
            return ast.copy_location(ast.Assign([ast.Name(t.id, ast.Store())], val), node)
        return node

    @staticmethod
    def _binop(op, l, r, static_int):
        if isinstance(op, ast.Div):
            return ast.Call(ast.Name('_div', ast.Load()), [l, r, ast.Constant(static_int)], [])
        return ast.BinOp(l, op, r)


DROP_IMPORTS = ('scipy', 'compmech.integrate', 'libc', 'cython', 'numpy')


class Module:
    """a de-Cythonised module: .ns is the namespace after exec"""

    def __init__(self, path, env=None, mode='sym', drop_imports=DROP_IMPORTS, np_proxy=None, extra_src_edit=None):
        self.path = path
        self.stats = Stats()
        self.mode = mode
        raw = open(path).read()
        self.sha = hashlib.sha256(raw.encode()).hexdigest()[:16]
        if extra_src_edit:
            raw = extra_src_edit(raw)
        self.info = {}
        self.py, self.info = preprocess(raw, path, self.info)
        try:
            tree = ast.parse(self.py, filename=path)
        except SyntaxError as e:
            ctx = self.py.split('\n')[max(0, (e.lineno or 1) - 3):(e.lineno or 1) + 1]
            raise DeCythonError('de-Cythonised source of %s does not parse at line %s: %s\n%s' % (path, e.lineno, e.msg, '\n'.join(ctx)))
        tr = _Instr(self.py, self.info['ints'], self.info['ints'].get('<module>', set()), drop_imports)
        tree = tr.visit(tree)
        ast.fix_missing_locations(tree)
        self.code = compile(tree, path, 'exec')
        ns = {'__name__': 'decy_' + os.path.basename(path).replace('.', '_')}
        ns.update(make_runtime(self.stats, mode))
        ns['np'] = np_proxy if np_proxy is not None else NpProxy(mode)
        if env:
            ns.update(env)
        self._pre = dict(ns)
        exec(self.code, ns)
        # names supplied by the caller win over what the module imported/defined at top level
        if env:
            for k, v in env.items():
                ns[k] = v
        ns['np'] = self._pre['np']
        self.ns = ns

    def __getattr__(self, name):
        try:
            return self.__dict__['ns'][name]
        except KeyError:
            raise AttributeError(name)

    def functions(self):
        return sorted(self.info['ints'].keys())


class NpProxy:
    """numpy as seen by translated kernels: float64 is `object` in symbolic mode so that arrays carry exact values"""

    def __init__(self, mode):
        self._mode = mode

    def __getattr__(self, name):
        if name == 'float64' and self._mode == 'sym':
            return object
        return getattr(_np, name)

    def zeros(self, shape, dtype=None, **kw):
        if dtype is float or dtype is _np.float64:
            dtype = object if self._mode == 'sym' else _np.float64
        a = _np.zeros(shape, dtype=dtype if dtype is not None else (object if self._mode == 'sym' else float), **kw)
        return a

    def empty(self, shape, dtype=None, **kw):
        return self.zeros(shape, dtype=dtype)

    def asarray(self, a, dtype=None, **kw):
        if self._mode == 'sym' and (dtype is object or dtype is _np.float64 or dtype is float):
            if isinstance(a, _np.ndarray) and a.dtype == object:
                return a
            return _np.asarray(a, dtype=object)
        return _np.asarray(a, dtype=dtype, **kw)

    def ascontiguousarray(self, a, dtype=None, **kw):
        if self._mode == 'sym' and (dtype is object or dtype is _np.float64 or dtype is float or dtype is None):
            a = a if isinstance(a, _np.ndarray) else _np.asarray(a, dtype=object)
            return _np.ascontiguousarray(a)
        return _np.ascontiguousarray(a, dtype=dtype, **kw)

    def linspace(self, a, b, n, **kw):
        if self._mode == 'sym':
            n = int(n)
            out = _np.zeros(n, dtype=object)
            for k in range(n):
                out[k] = a + (b - a) * Fraction(k, n - 1) if n > 1 else a
            return out
        return _np.linspace(a, b, n, **kw)
