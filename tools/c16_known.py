#!/usr/bin/env python3
"""maintenance helper (never run by a check): turn triaged VIOLATION lines of C16 logs (energy clause, iso m1>=3) into
KNOWN_FINDINGS entries.  usage: tools/c16_known.py <log> [<log> ...]"""
import json, re, sys
p = '/verif/KNOWN_FINDINGS.json'
d = json.load(open(p))
found = {}
for log in sys.argv[1:]:
    for line in open(log):
        m = re.match(r'VIOLATION property=C16 replay=\S+\s+# (.+?/(?:energy|iso)/[\w-]+): ', line)
        if not m:
            continue
        key = m.group(1)
        sg = re.search(r'\[signature (\w+)\]', line)
        found.setdefault(key, set())
        if sg:
            found[key].add(sg.group(1))
NOFIX = ('machine-generated Cython kernels (or the strain routine they must agree with); no Cython in the sandbox to rebuild the extensions; '
         'a repair means re-deriving the closed-form integrals for the special cases the symbolic integration dropped -- not a small and safe patch')
def what(key):
    model = key.split(':')[1]
    if key.endswith('k0-tilt-coupling-vs-energy-hessian'):
        return ('%s: k0 has no coupling between the tilt amplitude c[2] (u ~ cos(theta - thetaLA)) and the double-series amplitudes, but the first circumferential '
                'harmonic (and, where present, the i2 = 0 terms) is not orthogonal to it: the energy Hessian of the package own strain field has non-zero entries '
                '(2, k) there (e.g. -4 A16 cos(thetaLA) ...); every other entry of these models agrees unless listed separately' % model)
    if '/iso/' in key:
        return ('%s: the isotropic short-cut kernel differs from the general model fed the same isotropic laminate as soon as m1 >= 3 (entries (0,6),(0,8),(1,7),... of the '
                'axisymmetric block; confirmed on the compiled kernels: relative difference 1e-4..3e-3), and from the energy Hessian' % model)
    if 'fsdt' in model:
        return ('%s: k0 differs from the Hessian of the strain energy of the package own linear strain field cfstrain_donnell (fsdt commons): the strain routine orders the '
                'axisymmetric-series amplitudes differently from fuvw / the k0 kernel (its exx uses the amplitude fuvw treats as v, ...), so more than 20 entries of the '
                'axisymmetric block and the rows of c[0], c[1] disagree' % model)
    if 'sanders_bc3' in model:
        return ('%s: k0 differs from the Hessian of the strain energy of cfstrain_sanders (clpt commons bc3) in entries of the u/v double-series amplitudes '
                '(e.g. [15,15]: the kernel has the A11 u,x^2 term, the strain routine does not produce it)' % model)
    if 'donnell_bc2' in model:
        return ('%s: cone kernel differs from the energy Hessian in the i2 = 0 circumferential-harmonic entries (the cylinder kernel agrees): same defect as the recorded '
                'cone(0) != cylinder finding' % model)
    return '%s: k0 differs from the energy Hessian of the package own linear strain field' % model
keep = [f for f in d['findings'] if not (f['property'] == 'C16' and ('/energy/' in f['key'] or ('/iso/' in f['key'] and 'm1=3' in f['key'])))]
for key in sorted(found):
    e = {'property': 'C16', 'key': key, 'what': what(key), 'why_not_fixed': NOFIX}
    if found[key]:
        e['signature'] = sorted(found[key])
    keep.append(e)
d['findings'] = keep
json.dump(d, open(p, 'w'), indent=1)
print('C16 energy/iso findings:', len(found))
