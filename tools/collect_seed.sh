#!/bin/bash
# usage: tools/collect_seed.sh <worktree-tag> <seed-name>   -- copy a sub-agent's deliverables into seeded/<name>, drop its worktree, confirm in the background
T=$1; N=$2; W=/tmp/mut/$T; S=/verif/seeded/$N
mkdir -p $S
for f in patch.diff demo.py meta.json rebuild.sh; do [ -f $W/_seed/$f ] && cp $W/_seed/$f $S/; done
if [ -f $W/_seed/mutated.so ]; then cp $W/_seed/mutated.so /tmp/_m.so; strip /tmp/_m.so; xz -9c /tmp/_m.so > $S/mutated.so.xz; rm -f /tmp/_m.so; fi
ls $W/_seed/
git -C /repo worktree remove --force $W; rm -rf $W
(nohup /verif/tools/confirm_seed.sh $N >/dev/null 2>&1 &)
ls -la $S
