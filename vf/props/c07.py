"""C07 -- Static analysis: the load vector is the loads' virtual work; K c = f is solved.

E4 over E1: Panel.calc_fext / PanelAssembly.calc_fext (real Python) over de-Cythonised fg and fuvw with symbolic force
positions, components, load factor, amplitudes, flags and geometry; sparse.solve / analysis.static / Analysis.static with
a contract stub for spsolve.  Virtual work:  fext . c == sum_forces scale * F . (u, v, w)(x_F, y_F), where (u, v, w) come
from the package's own uvw executed on the same symbols, and additionally each entry equals force times the oracle basis."""
import json
import numpy as np
import z3
from fractions import Fraction
from ..harness import Run, pmap, decide_job
from .. import kprop
from ..sym import Sym, identity_terms
from ..panelsym import PanelCtx, positivity, series_of
from ..oracles import pointwise as PW
from ..shadow import ShimCSR
from ..eigstubs import sym_matrix, dense_of


def add_forces(ctx, p, tag, ncte, ninc, coincident=False):
    """coincident: the LAST constant force and every incrementable force act at the position of the first constant force
    (several loads on one point, other points evaluated in between)"""
    out = []
    first = None
    for k in range(ncte):
        f = [ctx.V('%s_x%d' % (tag, k)), ctx.V('%s_y%d' % (tag, k)), ctx.V('%s_fx%d' % (tag, k)), ctx.V('%s_fy%d' % (tag, k)), ctx.V('%s_fz%d' % (tag, k))]
        if first is None:
            first = f
        elif coincident and k == ncte - 1 and ncte > 2:
            f[0], f[1] = first[0], first[1]
        p.add_force(*f, cte=True)
        out.append((f, Sym.lift(1)))
    for k in range(ninc):
        f = [ctx.V('%s_xi%d' % (tag, k)), ctx.V('%s_yi%d' % (tag, k)), ctx.V('%s_fxi%d' % (tag, k)), ctx.V('%s_fyi%d' % (tag, k)), ctx.V('%s_fzi%d' % (tag, k))]
        if coincident and first is not None:
            f[0], f[1] = first[0], first[1]
        p.add_force(*f, cte=False)
        out.append((f, 'inc'))
    return out


def build(cfg, values=None):
    variant = cfg['variant']
    ctx = PanelCtx(values=values, seed=cfg.get('seed', 0))
    obs = []
    assumptions = []
    with ctx.shadow():
        inc = ctx.V('inc')
        if variant == 'panel':
            model, m, n = cfg['model'], cfg['m'], cfg['n']
            p = ctx.new_panel(model, m, n)
            forces = add_forces(ctx, p, 'F', cfg['ncte'], cfg['ninc'], cfg.get('coincident', False))
            size0 = 3 * m * n
            off = cfg.get('off', 0)
            fext = p.calc_fext(inc=inc, size=size0 + off + (1 if off else 0), col0=off, silent=True)
            if len(fext) != size0 + off + (1 if off else 0):
                obs.append(('fext-length', Sym.lift(len(fext)), Sym.lift(size0 + off + (1 if off else 0))))
            S = series_of(p, model)
            exp = [Sym.lift(0)] * len(fext)
            for (x, y, fx, fy, fz), sc in forces:
                scale = inc if sc == 'inc' else sc
                xi, eta = 2 * x / p.a - 1, 2 * y / p.b - 1
                for (i, j, comp) in S.dofs():
                    F = {'u': fx, 'v': fy, 'w': fz}[comp]
                    k = off + S.dof(i, j, comp)
                    exp[k] = exp[k] + scale * F * PW.basis(ctx.atoms, S, comp, i, j, 0, 0, xi, eta)
            for k in range(len(fext)):
                obs.append(('fext[%d]' % k, fext[k], exp[k]))
            # virtual work against the package's own displacement recovery
            c = np.zeros(size0, dtype=object)
            for k in range(size0):
                c[k] = ctx.V('c%d' % k)
            p.calc_k0(silent=True)
            p.out_num_cores = 2
            xs = np.array([f[0][0] for f in forces], dtype=object)
            ys = np.array([f[0][1] for f in forces], dtype=object)
            u, v, w, _, _ = p.uvw(c, xs=xs, ys=ys)
            work = Sym.lift(0)
            for q, ((x, y, fx, fy, fz), sc) in enumerate(forces):
                scale = inc if sc == 'inc' else sc
                work = work + scale * (fx * u[q] + fy * v[q] + fz * w[q])
            dot = sum((fext[off + k] * c[k] for k in range(size0)), Sym.lift(0))
            obs.append(('virtual-work', dot, work))
        elif variant == 'assembly':
            from compmech.panel.assembly import PanelAssembly
            specs = cfg['panels']
            panels, allf = [], []
            for q, (m, n, ncte, ninc) in enumerate(specs):
                p = ctx.new_panel('plate', m, n, prefix='p%d_' % q)
                p._rebuild()
                allf.append(add_forces(ctx, p, 'p%dF' % q, ncte, ninc))
                panels.append(p)
            asm = PanelAssembly(panels)
            if cfg.get('loads_changed_in_place'):
                # an earlier request on the same assembly, then the loads are edited in place (same number of loads, same load factor)
                asm.calc_fext(inc=inc, silent=True)
                for q, p in enumerate(panels):
                    for lst, tag in ((p.forces, 'c'), (p.forces_inc, 'i')):
                        for k, f in enumerate(lst):
                            f[4] = ctx.V('p%d_new_fz_%s%d' % (q, tag, k))
                            f[0] = ctx.V('p%d_new_x_%s%d' % (q, tag, k))
            fext = asm.calc_fext(inc=inc, silent=True)
            size = asm.get_size()
            obs.append(('assembly-fext-length', Sym.lift(len(fext)), Sym.lift(sum(3 * p.m * p.n for p in panels))))
            obs.append(('assembly-size', Sym.lift(size), Sym.lift(sum(3 * p.m * p.n for p in panels))))
            for q, p in enumerate(panels):
                alone = p.calc_fext(inc=inc, silent=True)
                for k in range(len(alone)):
                    obs.append(('assembly-slice-p%d[%d]' % (q, k), fext[p.col_start + k], alone[k]))
                if p.col_end - p.col_start != len(alone):
                    obs.append(('assembly-range-p%d' % q, Sym.lift(p.col_end - p.col_start), Sym.lift(len(alone))))
        else:
            raise ValueError(variant)
    if values is None:
        for nm in ('a', 'b', 'p0_a', 'p0_b', 'p1_a', 'p1_b', 'p2_a', 'p2_b'):
            assumptions.append(z3.Real(nm) > 0)
    info = {'atoms': len(ctx.atoms.table), 'stats': {k: v.stats.as_dict() for k, v in ctx.kernels.mods.items()},
            'values': {k: str(v) for k, v in ctx.used_values.items()}}
    return obs, assumptions, info


# ---- solve / static -------------------------------------------------------------------------------------------------
def job_solve(cfg):
    return kprop.forked(job_solve1, cfg)


def job_solve1(cfg):
    """sparse.solve, analysis.static and Analysis.static(NLgeom=False) with a contract stub for spsolve"""
    from ..sym import reset
    from ..shadow import Shadow, GenericPolicy
    reset()
    n, active = cfg['n'], cfg['active']
    V = Sym.var
    K = sym_matrix('K', n, active, V, skip={(r_, r_) for r_ in cfg.get('zero_diag', ())})
    f = np.zeros(n, dtype=object)
    for r in range(n):
        f[r] = V('f%d' % r)
    contracts = []
    calls = []

    def spsolve(a, b, **kw):
        A = dense_of(a)
        bb = np.asarray(b, dtype=object)
        if A.shape[0] != A.shape[1] or A.shape[0] != bb.shape[0]:
            raise ValueError('spsolve: shapes %r %r' % (A.shape, bb.shape))
        x = np.zeros(A.shape[0], dtype=object)
        for r in range(A.shape[0]):
            x[r] = V('x%d_%d' % (len(calls), r))
        for r in range(A.shape[0]):
            L, R = identity_terms(sum((A[r, j] * x[j] for j in range(A.shape[0])), Sym.lift(0)), bb[r])
            contracts.append(L == R)
        calls.append((A.shape, bb.shape))
        return x
    class LU:
        def __init__(self, a):
            self.a = a

        def solve(self, b, *a_, **k_):
            return spsolve(self.a, b)

    def splu(a, **kw):
        return LU(a)
    out = None
    target = cfg['target']
    try:
        with Shadow(None, stubs={'spsolve': spsolve, 'splu': splu, 'factorized': lambda a: LU(a).solve}, policy=GenericPolicy()):
            if target == 'sparse.solve':
                from compmech.sparse import solve
                c = solve(K, f, silent=True)
            elif target == 'analysis.static':
                from compmech.analysis import static
                incs, cs = static(K, f, silent=True)
                c = cs[-1]
                if list(incs) != [1.]:
                    out = [('static-increments', Sym.lift(len(incs)), Sym.lift(1))]
            else:
                from compmech.analysis import Analysis
                state = {'K': K, 'f': f}
                A = Analysis(calc_fext=lambda silent=False: state['f'], calc_k0=lambda silent=False: state['K'])
                incs, cs = A.static(NLgeom=False, silent=True)
                c = cs[-1]
                if cfg.get('second'):
                    # the structure is re-defined between two runs of the SAME analysis object (its callables now return the new
                    # stiffness and loads): the second solution must solve the CURRENT system
                    active = cfg['second']
                    K = sym_matrix('K2_', n, active, V)
                    if cfg.get('same_diagonal'):
                        # another structure with the very same diagonal entries (e.g. the mirror-image laminate)
                        K = sym_matrix('K2_', n, active, lambda nm: V(nm.replace('K2_', 'K')) if nm.split('_')[-1] == nm.split('_')[-2] else V(nm))
                    f = np.zeros(n, dtype=object)
                    for r in range(n):
                        f[r] = V('g%d' % r)
                    state['K'], state['f'] = K, f
                    incs, cs = A.static(NLgeom=False, silent=True)
                    c = cs[-1]
                    if len(cs) != 1:
                        out = (out or []) + [('states-reported-by-the-second-run', Sym.lift(len(cs)), Sym.lift(1))]
                if list(incs) != [1.]:
                    out = [('static-increments', Sym.lift(len(incs)), Sym.lift(1))]
    except Exception as e:
        import traceback
        return {'group': cfg['group'], 'n': 0, 'unsat': 0, 'sat': [], 'unknown': [], 'solver_s': 0, 'queries': 0, 'samples': [], 'extra': {},
                'error': '%s: %s %s' % (type(e).__name__, e, traceback.format_exc()[-400:]), 'cfg': cfg}
    obs = out or []
    Kd = dense_of(K)
    c = np.asarray(c, dtype=object)
    if c.shape != (n,):
        obs.append(('solution-length', Sym.lift(c.size), Sym.lift(n)))
    else:
        for r in range(n):
            if r in active:
                obs.append(('Kc=f[%d]' % r, sum((Kd[r, j] * c[j] for j in range(n)), Sym.lift(0)), f[r]))
            else:
                obs.append(('zero-on-null-amplitude[%d]' % r, c[r], 0))
    # ordering comparisons of the executed code on symbolic entries (a tolerance test on the load vector): one run per outcome,
    # each under its condition
    res = decide_job(cfg['group'], obs, contracts + (list(Sym.FORK.constraints) if Sym.FORK is not None else []), timeout_ms=60000)
    res['cfg'] = cfg
    return res


def configs(tier, seed):
    out = []
    quick = tier == 'quick'
    for model in ('plate', 'cpanel'):
        out.append({'variant': 'panel', 'model': model, 'm': 2, 'n': 2, 'ncte': 1, 'ninc': 1, 'group': 'fext:%s' % model})
        out.append({'variant': 'panel', 'model': model, 'm': 3, 'n': 2, 'ncte': 2, 'ninc': 0, 'group': 'fext:%s' % model})
        out.append({'variant': 'panel', 'model': model, 'm': 2, 'n': 3, 'ncte': 0, 'ninc': 2, 'off': 3 + seed % 3, 'group': 'fext-offset:%s' % model})
        out.append({'variant': 'panel', 'model': model, 'm': 2, 'n': 2, 'ncte': 3, 'ninc': 1, 'coincident': True, 'group': 'fext-coincident-points:%s' % model})
        if not quick:
            out.append({'variant': 'panel', 'model': model, 'm': 3, 'n': 3, 'ncte': 3, 'ninc': 3, 'group': 'fext:%s' % model})
    out.append({'variant': 'assembly', 'panels': [(2, 1, 1, 1), (1, 2, 0, 2), (2, 2, 1, 0)], 'm': 2, 'n': 2, 'group': 'assembly-fext'})
    out.append({'variant': 'assembly', 'panels': [(1, 2, 0, 1), (2, 1, 0, 0)], 'm': 1, 'n': 2, 'group': 'assembly-fext'})
    out.append({'variant': 'assembly', 'panels': [(1, 2, 1, 1), (2, 1, 0, 1)], 'loads_changed_in_place': True, 'm': 1, 'n': 2, 'group': 'assembly-fext-after-loads-were-changed-in-place'})
    if not quick:
        out.append({'variant': 'assembly', 'panels': [(2, 2, 2, 0), (3, 1, 0, 1), (1, 3, 1, 1), (2, 1, 0, 2)], 'm': 2, 'n': 2, 'group': 'assembly-fext'})
    out[0]['canary'] = True
    out[-1]['canary'] = True
    return out


def real_solve_replay(cfg, model=None):
    """the real solver route on a float system of the same pattern: residual of K c = f on the active rows, value on the null rows;
    with a solver model, the load vectors are the model's (a branch taken for small / special loads only)"""
    def loads(prefix, f):
        for r in range(len(f)):
            v = (model or {}).get('%s%d' % (prefix, r))
            if v is not None:
                try:
                    f[r] = float(Fraction(str(v)))
                except (ValueError, ZeroDivisionError):
                    pass
        return f
    import scipy.sparse as sp
    rng = np.random.RandomState(4)
    n, active = cfg['n'], cfg['active']
    u = len(active)
    extra = {}
    A = rng.rand(u, u)
    Kr = A.dot(A.T) + u * np.eye(u)
    for r in cfg.get('zero_diag', ()):
        Kr[active.index(r), active.index(r)] = 0.
    K = np.zeros((n, n))
    K[np.ix_(active, active)] = Kr
    f = np.zeros(n)
    f[active] = rng.rand(u) + 0.5
    f = loads('f', f)
    try:
        if cfg['target'] == 'sparse.solve':
            from compmech.sparse import solve
            c = solve(sp.csr_matrix(K), f, silent=True)
        elif cfg['target'] == 'analysis.static':
            from compmech.analysis import static
            c = static(sp.csr_matrix(K), f, silent=True)[1][-1]
        else:
            from compmech.analysis import Analysis
            st = {'K': sp.csr_matrix(K), 'f': f}
            A_ = Analysis(calc_fext=lambda silent=False: st['f'], calc_k0=lambda silent=False: st['K'])
            c = A_.static(NLgeom=False, silent=True)[1][-1]
            if cfg.get('second'):
                active = cfg['second']
                u = len(active)
                A2 = rng.rand(u, u)
                Knew = A2.dot(A2.T) + u * np.eye(u)
                if cfg.get('same_diagonal'):
                    Kold = K[np.ix_(active, active)]
                    Knew = Kold * np.where(np.eye(u) > 0, 1., -0.5)      # same diagonal, other couplings (still diagonally dominant)
                K = np.zeros((n, n))
                K[np.ix_(active, active)] = Knew
                f = np.zeros(n)
                f[active] = rng.rand(u) + 0.5
                f = loads('g', f)
                st['K'], st['f'] = sp.csr_matrix(K), f
                incs2, cs2 = A_.static(NLgeom=False, silent=True)
                c = cs2[-1]
                extra['increments_of_the_second_run'] = [float(x) for x in incs2]
                extra['states_reported_by_the_second_run'] = len(cs2)
    except Exception as e:
        return {'error': '%s: %s' % (type(e).__name__, e)}
    c = np.asarray(c)
    res = K.dot(c) - f
    null = [r for r in range(n) if r not in active]
    return dict({'max_relative_residual': float(np.abs(res[active]).max() / np.abs(f).max()), 'max_on_null': float(np.abs(c[null]).max()) if null else 0.}, **extra)


def solve_configs(tier):
    out = []
    for target in ('sparse.solve', 'analysis.static', 'Analysis.static'):
        for n, active in ((4, [0, 1, 2, 3]), (5, [0, 2, 3]), (5, [1, 4])):
            out.append({'target': target, 'n': n, 'active': active, 'group': 'solve:%s' % target})
        # a non-null row whose diagonal entry is structurally zero (constraint / Lagrange-multiplier row): still an equation to solve
        out.append({'target': target, 'n': 5, 'active': [0, 1, 3, 4], 'zero_diag': [3], 'group': 'solve-zero-diagonal-row:%s' % target})
        if tier != 'quick':
            out.append({'target': target, 'n': 6, 'active': [0, 1, 3, 5], 'group': 'solve:%s' % target})
    # two linear runs of one Analysis object with the structure re-defined in between (same size; same and different null pattern)
    out.append({'target': 'Analysis.static', 'n': 4, 'active': [0, 1, 2, 3], 'second': [0, 1, 2, 3], 'group': 'solve-second-run-after-redefinition:Analysis.static'})
    out.append({'target': 'Analysis.static', 'n': 5, 'active': [0, 2, 3], 'second': [0, 1, 3, 4], 'group': 'solve-second-run-after-redefinition:Analysis.static'})
    out.append({'target': 'Analysis.static', 'n': 4, 'active': [0, 1, 2, 3], 'second': [0, 1, 2, 3], 'same_diagonal': True, 'group': 'solve-second-run-same-diagonal:Analysis.static'})
    return out


def main():
    run = Run('C07', 'other', explanation=(
        'Bounded symbolic verification: Panel.calc_fext and PanelAssembly.calc_fext (real Python) over de-Cythonised fg/fuvw with '
        'symbolic force positions/components/load factor: every entry of the load vector equals force times basis function (constant '
        'forces unscaled, incrementable ones times inc), its product with symbolic amplitudes equals the virtual work against the '
        'package own uvw at the force points, assembly slices equal the stand-alone vectors at the panel ranges; sparse.solve, '
        'analysis.static and Analysis.static(NLgeom=False) satisfy K c = f on active rows and c = 0 on null columns under the spsolve contract.'))
    run.encoded('compmech/panel/models/clt_bardell_field.pyx', 'fg, cfg, fuvw, cfuvw')
    run.encoded('compmech/panel/_panel.py', 'Panel.calc_fext, Panel.add_force, Panel.uvw')
    run.encoded('compmech/panel/assembly/assembly.py', 'PanelAssembly.calc_fext, get_size, __init__')
    run.encoded('compmech/sparse.py', 'solve, remove_null_cols')
    run.encoded('compmech/analysis/static.py', 'static')
    run.encoded('compmech/analysis/analysis.py', 'Analysis.static (linear branch)')
    cf = configs(run.tier, run.seed)
    run.bounds = {'forces_per_kind': '0..3', 'series_orders': sorted({(c['m'], c['n']) for c in cf}), 'assemblies': '2..4 panels', 'solve sizes': '4..6 with null patterns'}
    run.assume('a, b > 0', 'spsolve contract: returned x satisfies a x = b', 'linearity in the loads is a corollary of K c = f for a non-singular reduced matrix')
    run.outside = ['StiffPanelBay.calc_fext is decided by C13 (bay-fext)', 'orders above the bound']
    res = pmap(kprop.job, [(__name__, c) for c in cf])
    res = kprop.explore_loci(__name__, res, run)      # second pass: the equality loci the executed code branched on
    kprop.handle(run, res, build, 'load vector entries differ from the virtual work of the loads')
    sres = pmap(job_solve, solve_configs(run.tier))
    for r in sres:
        if r.get('error'):
            run.harness_error('%s: %s' % (r['group'], r['error'][:400]))
            continue
        sats = run.absorb_job(r)
        if not sats:
            # float twin of the configuration on the real solver route (one run, sampling -- stated as such): code that tells float
            # arrays from the symbolic ones (dtype tests, typed fast paths) takes another branch there than in the symbolic run
            real = real_solve_replay(r['cfg'])
            run.extra.setdefault('float_twins_of_the_solve_configurations', []).append({'cfg': r['cfg']['group'], 'result': real})
            if (real.get('error') or real.get('max_relative_residual', 0) > 1e-9 or real.get('max_on_null', 0) > 0
                    or real.get('increments_of_the_second_run', [1.]) != [1.] or real.get('states_reported_by_the_second_run', 1) != 1):
                run.obligations += 1
                run.violation('%s/float-twin' % r['group'], '%s: the float twin of the configuration fails on the real solver route although the symbolic run passed (the code distinguishes float input): %s' % (
                    r['cfg']['target'], real), {'cfg': r['cfg'], 'real_function': real, 'decided_by': 'one float run on the real route (no solver verdict for this branch)'})
        if sats:
            real = real_solve_replay(r['cfg'])
            if not (real.get('error') or real.get('max_relative_residual', 0) > 1e-9 or real.get('max_on_null', 0) > 0) and sats[0].get('branch'):
                real = real_solve_replay(r['cfg'], sats[0].get('model'))      # a branch of the executed code: the solver's load vector
            if (real.get('error') or real.get('max_relative_residual', 0) > 1e-9 or real.get('max_on_null', 0) > 0
                    or real.get('increments_of_the_second_run', [1.]) != [1.] or real.get('states_reported_by_the_second_run', 1) != 1):
                run.violation('%s/%s' % (r['group'], sats[0]['name'].split('[')[0]), '%s: %s fails for n=%d active=%s; real function: %s' % (
                    r['cfg']['target'], sats[0]['name'], r['cfg']['n'], r['cfg']['active'], real), {'cfg': r['cfg'], 'failed': [s['name'] for s in sats], 'model': sats[0]['model'], 'real_function': real})
            else:
                run.harness_error('failed obligations of %s did not reproduce on the real function: %s' % (r['cfg'], real))
    return run.finish()


def replay(path):
    d = json.load(open(path))
    cfg = d['replay']['cfg']
    if 'variant' in cfg:
        bad, info = kprop.concrete_replay(build, cfg, d['replay'].get('inputs', {}))
        print('replay %s: %d differing entries' % (cfg, len(bad)))
        return 1 if bad else 0
    print(json.dumps(d, indent=1)[:1500])
    return 0
