"""Discharging obligations with z3 (qfnra-nlsat for polynomial identities, default for LRA/LIA).

An obligation is a *negated claim*: a list of z3 constraints that must be UNSAT for the property to
hold on the encoded code within the bound.  `sat` comes back with a model (concrete counterexample),
`unknown`/timeouts are inconclusive -- never success.
"""
import time
import os
import z3
from fractions import Fraction
from .sym import Sym, identity_terms


class Result:
    __slots__ = ('name', 'verdict', 'model', 'ms', 'info')

    def __init__(self, name, verdict, model=None, ms=0.0, info=None):
        self.name, self.verdict, self.model, self.ms, self.info = name, verdict, model, ms, info

    def to_json(self):
        return {'name': self.name, 'verdict': self.verdict, 'ms': round(self.ms, 2),
                'model': self.model, 'info': self.info}


def model_to_dict(m, limit=400):
    out = {}
    for d in m.decls():
        v = m[d]
        try:
            if z3.is_rational_value(v):
                out[d.name()] = str(Fraction(v.numerator_as_long(), v.denominator_as_long()))
            elif z3.is_int_value(v):
                out[d.name()] = str(v.as_long())
            elif z3.is_algebraic_value(v):
                out[d.name()] = v.approx(20).as_decimal(17).rstrip('?')
            else:
                out[d.name()] = str(v)
        except Exception:
            out[d.name()] = str(v)
        if len(out) >= limit:
            break
    return out


class Batch:
    """collects obligations and discharges them with one incremental solver (push/pop)"""

    def __init__(self, tactic='qfnra-nlsat', timeout_ms=60000, assumptions=(), budget_s=None):
        self.tactic = tactic
        self.timeout_ms = timeout_ms
        self.budget_s = budget_s
        self.assumptions = list(assumptions)
        self.items = []          # (name, [constraints], info)
        self.results = []
        self.solver_s = 0.0
        self.queries = 0
        self.second = {'checked': 0, 'agree': 0, 'disagree': 0, 'no_answer': 0, 'seconds': 0.0}

    def _second_opinion(self, cons, verdict):
        """cvc5 on the same query (a fixed sample of every batch): a contradiction between the two solvers makes the obligation
        inconclusive, never a verdict"""
        if os.environ.get('VERIF_NO_CVC5'):
            return True
        t0 = time.time()
        s2 = z3.Solver()
        for a in self.assumptions:
            s2.add(a)
        for c in cons:
            s2.add(c)
        res = cvc5_recheck(s2.to_smt2(), 20000)
        self.second['seconds'] += time.time() - t0
        if res in ('sat', 'unsat'):
            self.second['checked'] += 1
            if res == verdict:
                self.second['agree'] += 1
                return True
            self.second['disagree'] += 1
            return False
        self.second['no_answer'] += 1
        return True

    def add_identity(self, name, lhs, rhs, info=None):
        """claim lhs == rhs (Sym / numbers).  Obligation: cleared-denominator numerators differ -> must be unsat."""
        L, R = identity_terms(lhs, rhs)
        self.items.append((name, [L != R], info))

    def add_zero(self, name, x, info=None):
        self.add_identity(name, x, 0, info)

    def add_unsat(self, name, constraints, info=None):
        self.items.append((name, list(constraints), info))

    def _solver(self):
        if self.tactic:
            s = z3.Tactic(self.tactic).solver()
        else:
            s = z3.Solver()
        s.set('timeout', self.timeout_ms)
        for a in self.assumptions:
            s.add(a)
        return s

    def run(self, stop_on_sat=False):
        s = self._solver()
        step = max(1, len(self.items) // 2 + 1)      # second opinion on the first and the middle obligation of every batch
        t_start = time.time()
        for name, cons, info in self.items:
            if self.budget_s is not None and time.time() - t_start > self.budget_s:
                # wall budget of this batch exhausted: the remaining obligations are undecided (never counted as discharged)
                self.results.append(Result(name, 'unknown', None, 0.0, 'batch time budget of %d s exhausted' % self.budget_s))
                continue
            t0 = time.time()
            # cheap syntactic pre-pass: identical sides (still recorded as discharged by simplification)
            s.push()
            for c in cons:
                s.add(c)
            r = s.check()
            dt = (time.time() - t0) * 1000
            self.queries += 1
            idx = len(self.results)
            sample = (idx % step == 0) and r in (z3.unsat, z3.sat)
            if sample and not self._second_opinion(cons, 'unsat' if r == z3.unsat else 'sat'):
                self.results.append(Result(name, 'unknown', None, dt, {'reason': 'z3 (%s) and cvc5 disagree' % r, 'info': info}))
            elif r == z3.unsat:
                self.results.append(Result(name, 'unsat', None, dt, info))
            elif r == z3.sat:
                self.results.append(Result(name, 'sat', model_to_dict(s.model()), dt, info))
            else:
                self.results.append(Result(name, 'unknown', None, dt, {'reason': s.reason_unknown(), 'info': info}))
            s.pop()
            self.solver_s += dt / 1000
            if stop_on_sat and r == z3.sat:
                break
        self.items = []
        return self.results

    def counts(self):
        c = {'unsat': 0, 'sat': 0, 'unknown': 0}
        for r in self.results:
            c[r.verdict] += 1
        return c


def check_once(constraints, tactic='qfnra-nlsat', timeout_ms=60000):
    b = Batch(tactic, timeout_ms)
    b.add_unsat('q', constraints)
    return b.run()[0]


def cvc5_recheck(smt2_text, timeout_ms=60000):
    """second opinion from cvc5 (python wheel) on an SMT-LIB2 text; returns 'unsat'|'sat'|'unknown'"""
    try:
        import cvc5
    except ImportError:
        return 'unavailable'
    try:
        tm = cvc5.TermManager() if hasattr(cvc5, 'TermManager') else None
        slv = cvc5.Solver(tm) if tm is not None else cvc5.Solver()
        slv.setOption('tlimit-per', str(timeout_ms))
        slv.setLogic('QF_NRA')
        parser = cvc5.InputParser(slv)
        parser.setStringInput(cvc5.InputLanguage.SMT_LIB_2_6, smt2_text, 'q')
        sm = parser.getSymbolManager()
        res = 'unknown'
        while True:
            cmd = parser.nextCommand()
            if cmd.isNull():
                break
            out = cmd.invoke(slv, sm)
            o = str(out).strip()
            if o in ('sat', 'unsat', 'unknown'):
                res = o
        return res
    except Exception as e:  # noqa
        return 'error:' + type(e).__name__
