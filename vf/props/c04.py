"""C04 -- Mass matrix = kinetic-energy Hessian; total mass; reference-surface convention.

Real Panel.calc_kM (E4) over de-Cythonised fkM / fkMy1y2 (E1).  Oracle (E5): Hessian of
T = 1/2 mu int int int (u - z w,x)^2 + (v - z w,y)^2 + w^2 dz dA with the material in z in [e - h/2, e + h/2];
the position e of the mid-plane relative to the reference surface is +offset, the convention of
composite.laminate.read_stack(offset) (z_bottom = -h/2 + offset), which is what makes 'moving only the reference
surface' meaningful (K is built from that laminate)."""
import json
import numpy as np
from fractions import Fraction
from ..harness import Run, pmap
from .. import kprop
from ..sym import Sym
from ..panelsym import (PanelCtx, oracle_kM, symmetric_completion, positivity, _eta, series_of, compiled_vs_twin)

MODELS = {'plate': 'compmech/panel/models/plate_clt_donnell_bardell.pyx',
          'plate_w': 'compmech/panel/models/plate_clt_donnell_bardell_w.pyx',
          'cpanel': 'compmech/panel/models/cpanel_clt_donnell_bardell.pyx',
          'kpanel': 'compmech/panel/models/kpanel_clt_donnell_bardell.pyx'}


def is_coupling(k, num):
    if num != 3:
        return False
    r, c = k
    return {r % 3, c % 3} in ({0, 2}, {1, 2})


def build_blade(cfg, values=None):
    """mass of the flange of a BladeStiff1D: beam of section bf (along z) x hf on the line y = ys, on the negative-z side of the
    skin, centroid at distance df = bf/2 + hb + h/2 from the skin mid-plane"""
    from . import c13
    from ..oracles import penalty as PEN
    from ..panelsym import series_of
    ctx = PanelCtx(values=values, seed=cfg.get('seed', 0))
    obs = []
    with ctx.shadow(extra_stubs=c13.stiff_stubs(ctx), policy=c13.BayPolicy()):
        bay, comps = c13.make_bay(ctx, dict(cfg, stiffeners=[('B1', {'base': False})]))
        if cfg.get('unequal_skins'):
            # the two skin panels that meet at the stiffener have different thicknesses: the skin surface the flange sits on is the
            # one of the MEAN thickness (the stiffener's own definition, _rebuild), for the first and the second moment alike
            t2 = ctx.V('skin_plyt_other_side')
            bay.panels[1].plyts = [t2, t2]
        bay._rebuild()
        s = comps[0][1]
        size = bay.get_size()
        s.calc_kM(size=size, row0=0, col0=0, silent=True, finalize=True)
        K = s.kM.todict()
        h = (sum(bay.panels[0].plyts) + sum(bay.panels[1].plyts)) / 2
        hb = Sym.lift(0)
        bf, hf, mu = s.bf, s.hf, s.mu
        e = -(bf / 2 + hb + h / 2)                 # centroid position (flange below the skin)
        zb = h / 2 + hb
        I2 = ((zb + bf) ** 3 - zb ** 3) / 3         # int z^2 dz over the flange height
        mh = mu * hf
        one = Sym.lift(1)
        terms = [(mh * bf, [(1, 'u', 0, 0, one), (1, 'w', 1, 0, -e)]), (mh * (I2 - bf * e * e), [(1, 'w', 1, 0, one)]),
                 (mh * bf, [(1, 'v', 0, 0, one), (1, 'w', 0, 1, -e)]), (mh * (I2 - bf * e * e), [(1, 'w', 0, 1, one)]),
                 (mh * bf, [(1, 'w', 0, 0, one)])]
        S = {1: series_of(bay.panels[0], 'plate')}
        S[1].b = bay.b
        eta_s = 2 * s.ys / bay.b - 1
        H = PEN.hessian(ctx.atoms, 'x-line', terms, S, {1: eta_s}, bay.a, bay.b)
        Hd = {}
        for ((pa, da), (pb, db)), v in H.items():
            Hd[(da, db)] = Hd[(da, db)] + v if (da, db) in Hd else v
        for k in sorted(set(Hd) | set(K)):
            coupling = is_coupling(k, 3)
            if coupling:
                obs.append(('blade-kM-coupling[%d,%d]' % k, K.get(k, 0), Hd.get(k, 0)))
                # recorded finding: the coupling terms of fkMf are twice the kinetic-energy value
                obs.append(('blade-kM-coupling~known[%d,%d]' % k, K.get(k, 0), 2 * Hd.get(k, 0)))
            else:
                obs.append(('blade-kM[%d,%d]' % k, K.get(k, 0), Hd.get(k, 0)))
    info = {'values': {k: str(v) for k, v in ctx.used_values.items()}, 'stats': {k: v.stats.as_dict() for k, v in ctx.kernels.mods.items()}}
    return obs, [], info


def build(cfg, values=None):
    if cfg['variant'] == 'blade1d':
        return build_blade(cfg, values)
    model, m, n, variant = cfg['model'], cfg['m'], cfg['n'], cfg['variant']
    s = cfg.get('s', 2)
    atom_mode = 'exact' if variant == 'rigid' else 'atom'
    ctx = PanelCtx(atom_mode=atom_mode, values=values, seed=cfg.get('seed', 0))
    obs = []
    num = 1 if model == 'plate_w' else 3
    with ctx.shadow():
        p = ctx.new_panel(model, m, n, symbolic_flags=(variant != 'rigid'))
        if model == 'kpanel':
            ctx.override_sections(s)
        p.offset = ctx.V('d')
        d = p.offset
        p._rebuild()     # model selection (what calc_k0 would do first; a fresh-object call order is C20's subject)
        size0 = num * m * n
        yl = None
        off = 0
        if variant == 'rigid':
            # unrestrained flat panel: all 24 flags = 1; unit rigid translation along u, v or w
            for nm in [a for a in p.__dict__ if len(a) == 4 and a[0] in 'uvw' and a[1] in '12' and a[2] in 'tr' and a[3] in 'xy']:
                setattr(p, nm, 1)
            if cfg.get('sub'):
                p.y1, p.y2 = ctx.V('y1'), ctx.V('y2')
            M = p.calc_kM(silent=True)
            comps = ('w',) if model == 'plate_w' else ('u', 'v', 'w')
            for ci, comp in enumerate(comps):
                t = np.zeros(size0, dtype=object)
                for j in (0, 2):
                    for i in (0, 2):
                        if i < m and j < n:
                            t[num * (j * m + i) + ci] = 1
                q = t.dot(M.dot(t))
                width = (p.y2 - p.y1) if cfg.get('sub') else p.b
                obs.append(('total-mass[%s]' % comp, q, p.mu * sum(p.plyts) * p.a * width))
            assumptions = positivity(ctx, p, model) if values is None else []
            return obs, assumptions, {'values': {k: str(v) for k, v in ctx.used_values.items()}, 'stats': {}}
        if variant == 'y1y2':
            p.y1, p.y2 = ctx.V('y1'), ctx.V('y2')
            yl = (_eta(p.y1, p.b), _eta(p.y2, p.b))
        if variant == 'offset':
            off = cfg.get('off', 3)
            raw = p.calc_kM(size=size0 + off + 1, row0=off, col0=off, silent=True, finalize=False)
            from compmech.sparse import finalize_symmetric_matrix
            K = finalize_symmetric_matrix(raw).todict()
        elif variant in ('tiling', 'fullwidth'):
            if variant == 'tiling':
                y1, y2, y3 = ctx.V('y1'), ctx.V('y2'), ctx.V('y3')
                Ks = []
                for (lo, hi) in ((y1, y2), (y2, y3), (y1, y3)):
                    p.y1, p.y2 = lo, hi
                    Ks.append(p.calc_kM(silent=True).todict())
                K = dict(Ks[0])
                for k, v in Ks[1].items():
                    K[k] = K[k] + v if k in K else v
                H = Ks[2]
            else:
                p.y1, p.y2 = 0, p.b
                K = p.calc_kM(silent=True).todict()
                p.y1 = p.y2 = None
                H = p.calc_kM(silent=True).todict()
            for k in sorted(set(H) | set(K)):
                obs.append(('kM[%d,%d]' % k, K.get(k, 0), H.get(k, 0)))
            assumptions = positivity(ctx, p, model) if values is None else []
            if variant == 'tiling' and values is None:
                assumptions = assumptions + ctx.atoms.additivity_constraints()
            return obs, assumptions, {'values': {k: str(v) for k, v in ctx.used_values.items()}, 'stats': {k: v.stats.as_dict() for k, v in ctx.kernels.mods.items()}}
        else:
            if cfg.get('after_offset_redefinition'):
                # the stiffness was evaluated with another reference surface before: kM follows the CURRENT offset
                p.offset = ctx.V('d_before')
                p.calc_k0(silent=True)
                p.offset = d
            K = p.calc_kM(silent=True).todict()
        Hp = symmetric_completion(oracle_kM(ctx, p, model, d, ylim=yl, s=s), shift=off)       # property: e = +offset
        Hm = symmetric_completion(oracle_kM(ctx, p, model, -d, ylim=yl, s=s), shift=off)      # same magnitude, other sign
    for k in sorted(set(Hp) | set(K)):
        kk = (k[0] - off, k[1] - off)
        if is_coupling(kk, num):
            obs.append(('kM-coupling-sign[%d,%d]' % k, K.get(k, 0), Hp.get(k, 0)))
            obs.append(('kM-coupling-magnitude[%d,%d]' % k, K.get(k, 0) * K.get(k, 0), Hm.get(k, 0) * Hm.get(k, 0)))
        else:
            obs.append(('kM[%d,%d]' % k, K.get(k, 0), Hp.get(k, 0)))
    assumptions = positivity(ctx, p, model) if values is None else []
    info = {'atoms': len(ctx.atoms.table), 'stats': {k: v.stats.as_dict() for k, v in ctx.kernels.mods.items()},
            'values': {k: str(v) for k, v in ctx.used_values.items()}}
    return obs, assumptions, info


def configs(tier, seed):
    out = []
    quick = tier == 'quick'
    pairs = [(2, 2), (3, 1), (1, 3), (4, 1), (1, 5)] if quick else [(1, 1), (2, 2), (3, 2), (2, 3), (3, 3), (4, 4), (5, 6), (8, 7), (12, 3), (3, 12)]
    for model in MODELS:
        for (m, n) in pairs:
            if model == 'kpanel' and m * n > (4 if quick else 16):
                continue
            out.append({'model': model, 'm': m, 'n': n, 'variant': 'full', 'group': 'kM:%s' % model})
        out.append({'model': model, 'm': 2, 'n': 2, 'variant': 'y1y2', 'group': 'kMy1y2:%s' % model})
        if model != 'kpanel':
            out.append({'model': model, 'm': 2, 'n': 1, 'variant': 'full', 'after_offset_redefinition': True, 'group': 'kM-after-offset-redefinition:%s' % model})
        # four terms along one direction: all four boundary flags (1t, 1r, 2t, 2r) of that direction enter the integrals
        out.append({'model': model, 'm': 1, 'n': 4, 'variant': 'y1y2', 'group': 'kMy1y2:%s' % model, 's': 1 if model == 'kpanel' else 2})
        out.append({'model': model, 'm': 4, 'n': 1, 'variant': 'y1y2', 'group': 'kMy1y2:%s' % model, 's': 1 if model == 'kpanel' else 2})
        out.append({'model': model, 'm': 2, 'n': 2, 'variant': 'offset', 'off': 1 + seed % 4, 'group': 'placement:%s' % model})
        out.append({'model': model, 'm': 2, 'n': 2, 'variant': 'tiling', 'group': 'tiling:%s' % model, 's': 1 if model == 'kpanel' else 2})
        out.append({'model': model, 'm': 2, 'n': 2, 'variant': 'fullwidth', 'group': 'fullwidth:%s' % model, 's': 1 if model == 'kpanel' else 2})
    for model in ('plate', 'plate_w'):
        out.append({'model': model, 'm': 3, 'n': 3, 'variant': 'rigid', 'group': 'total-mass:%s' % model})
        out.append({'model': model, 'm': 3, 'n': 3, 'variant': 'rigid', 'sub': True, 'group': 'total-mass-subinterval:%s' % model})
        if not quick:
            out.append({'model': model, 'm': 5, 'n': 4, 'variant': 'rigid', 'sub': True, 'group': 'total-mass-subinterval:%s' % model})
    out.append({'model': 'bay', 'm': 2, 'n': 2, 'variant': 'blade1d', 'group': 'kM:bladestiff1d-flange'})
    out.append({'model': 'bay', 'm': 1, 'n': 5, 'variant': 'blade1d', 'group': 'kM:bladestiff1d-flange'})
    out.append({'model': 'bay', 'm': 4, 'n': 1, 'variant': 'blade1d', 'group': 'kM:bladestiff1d-flange'})
    out.append({'model': 'bay', 'm': 2, 'n': 2, 'variant': 'blade1d', 'unequal_skins': True, 'group': 'kM:bladestiff1d-flange'})
    out[0]['canary'] = True
    out[-3]['canary'] = True
    return out


def main():
    run = Run('C04', 'other', explanation=(
        'Bounded symbolic verification: Panel.calc_kM (real Python) over de-Cythonised fkM/fkMy1y2 of the four models; every '
        'entry is proved (z3 qfnra-nlsat) equal to the Hessian of the kinetic energy with translational, coupling and rotary '
        'terms for symbolic mu, ply thicknesses, offset d of either sign, geometry, flags and sub-interval; coupling entries carry '
        'two obligations (sign per the laminate offset convention; magnitude) so that the recorded sign finding does not hide '
        'anything else; total mass of a unit rigid translation is proved with exactly interpreted integral tables.'))
    for rel in MODELS.values():
        run.encoded(rel, 'fkM')
        run.encoded(rel, 'fkMy1y2')
    run.encoded('compmech/panel/_panel.py', 'Panel.calc_kM')
    run.encoded('compmech/stiffener/models/bladestiff1d_clt_donnell_bardell.pyx', 'fkMf')
    run.encoded('compmech/stiffener/bladestiff1d.py', 'BladeStiff1D.calc_kM, _rebuild')
    run.encoded('compmech/sparse.py', 'finalize_symmetric_matrix, make_symmetric')
    cf = configs(run.tier, run.seed)
    run.bounds = {'series_orders_(m,n)': sorted({(c['m'], c['n']) for c in cf}), 'configurations': len(cf), 'variants': sorted({c['variant'] for c in cf})}
    run.assume('a, b, r > 0', 'integral tables = exact Bardell integrals (C10)', 'mid-plane at z = +offset from the reference surface (read_stack convention, decided by C01)',
               'positive definiteness and frequency invariance are corollaries of the energy form (not queries)')
    run.outside = ['orders above the bound', 'BladeStiff1D with a base (the base is a Panel, decided above; BladeStiff1D never stores hb)', 'BladeStiff2D/TStiff2D are Panels joined by penalty matrices (C12/C13)', 'floating point']
    res = pmap(kprop.job, [(__name__, c) for c in cf])
    res = kprop.explore_loci(__name__, res, run)      # second pass: the equality loci the executed code branched on
    kprop.handle(run, res, build, 'entries differ from the kinetic-energy Hessian')
    tv = {}
    for model in ('plate', 'plate_w', 'cpanel'):
        r = compiled_vs_twin(model, 3, 2, 'fkM', seed=run.seed + 1, extra_args=('1/7',))
        tv[model] = 'compiled extension not current: skipped' if r is None else {'max_rel_dev': r[0], 'entries': r[1]}
        if r is not None and r[0] > 1e-10:
            run.harness_error('translator validation failed for %s fkM: deviation %.2e' % (model, r[0]))
    run.extra['translator_validation_compiled_vs_twin'] = tv
    return run.finish()


def replay(path):
    d = json.load(open(path))
    cfg = d['replay']['cfg']
    bad, info = kprop.concrete_replay(build, cfg, d['replay'].get('inputs', {}))
    print('replay %s: %d differing entries' % (cfg, len(bad)))
    for b in bad[:10]:
        print('  %s impl=%r oracle=%r' % b)
    return 1 if bad else 0
