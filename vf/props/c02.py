"""C02 -- Panel constitutive stiffness = Hessian of the shell strain energy.

E1+E4: the real Panel.calc_k0 (+ finalize_symmetric_matrix / make_symmetric) is executed over symbolic geometry,
laminate (18 ABD reals), all 24 edge flags as reals, pre-loads and sub-interval limits, with the .pyx kernels
de-Cythonised from source; E5: Hessian of the Donnell energy built on the same integral atoms; z3 (qfnra-nlsat)
decides kernel == oracle per entry."""
import os, sys, time, json
from fractions import Fraction
from ..harness import Run, REPO, pmap, decide_job
from .. import kprop
from ..sym import Sym, reset
from ..panelsym import (PanelCtx, oracle_k0, oracle_kG0, symmetric_completion, positivity, _eta)

MODELS = {'plate': 'compmech/panel/models/plate_clt_donnell_bardell.pyx',
          'plate_w': 'compmech/panel/models/plate_clt_donnell_bardell_w.pyx',
          'cpanel': 'compmech/panel/models/cpanel_clt_donnell_bardell.pyx',
          'kpanel': 'compmech/panel/models/kpanel_clt_donnell_bardell.pyx'}


def build(cfg, values=None):
    """-> (obligations [(name, lhs, rhs)], assumptions, info).  Same code for the symbolic run and for the
    exact-rational replay (values given)."""
    model, m, n, variant = cfg['model'], cfg['m'], cfg['n'], cfg['variant']
    s = cfg.get('s', 2)
    ctx = PanelCtx(values=values, seed=cfg.get('seed', 0))
    obs = []
    with ctx.shadow():
        p = ctx.new_panel(model, m, n)
        if model == 'kpanel':
            ctx.override_sections(s)
        num = 1 if model == 'plate_w' else 3
        size0 = num * m * n
        if variant == 'full':
            if cfg.get('offset_history'):
                # the reference surface is re-defined between two evaluations of the same panel: k0 follows the CURRENT offset
                # (laminate of the shifted reference surface: A, B + d A, D + 2 d B + d^2 A -- the relation C01 decides)
                p.offset = ctx.V('d_before')
                p.calc_k0(silent=True)
                d_ = ctx.V('d')
                p.offset = d_
                K = p.calc_k0(silent=True).todict()
                base = p._verif_lam.ABD
                sh = base.copy()
                for i in range(3):
                    for j in range(3):
                        sh[i, 3 + j] = sh[3 + j, i] = base[i, 3 + j] + d_ * base[i, j]
                        sh[3 + i, 3 + j] = base[3 + i, 3 + j] + 2 * d_ * base[i, 3 + j] + d_ * d_ * base[i, j]
                p._verif_lam.ABD = sh
                H = symmetric_completion(oracle_k0(ctx, p, model, s=s))
                p._verif_lam.ABD = base
            else:
                K = p.calc_k0(silent=True).todict()
                H = symmetric_completion(oracle_k0(ctx, p, model, s=s))
        elif variant == 'offset':
            off = cfg.get('off', 3)
            size = size0 + off + 2
            if cfg.get('preload'):
                p.Nxx_cte, p.Nyy_cte, p.Nxy_cte = ctx.V('Nxx_cte'), ctx.V('Nyy_cte'), ctx.V('Nxy_cte')
            raw = p.calc_k0(size=size, row0=off, col0=off, silent=True, finalize=False)
            from compmech.sparse import finalize_symmetric_matrix
            if tuple(raw.shape) != (size, size):
                obs.append(('shape', Sym.lift(raw.shape[0]), Sym.lift(size)))
            K = finalize_symmetric_matrix(raw).todict()
            H0 = oracle_k0(ctx, p, model, s=s)
            if cfg.get('preload'):
                for k, v in oracle_kG0(ctx, p, model, p.Nxx_cte, p.Nyy_cte, p.Nxy_cte, s=s).items():
                    H0[k] = H0[k] + v if k in H0 else v
            H = symmetric_completion(H0, shift=off)
        elif variant == 'offdiag':
            # the block placed OFF the diagonal of a larger matrix (rows from row0, columns from col0 >= row0 + size): every entry
            # lies above the diagonal there, so the whole (unsymmetrised) Hessian block must be present
            off = cfg.get('off', 2)
            size = 2 * size0 + off + 1
            raw = p.calc_k0(size=size, row0=off, col0=off + size0, silent=True, finalize=False)
            K = {}
            for r_, c_, v_ in zip(raw.row, raw.col, raw.data):
                if isinstance(v_, (int, float)) and v_ == 0:
                    continue
                kk = (int(r_), int(c_))
                K[kk] = K[kk] + v_ if kk in K else v_
            Hs = symmetric_completion(oracle_k0(ctx, p, model, s=s))
            H = {(off + r_, off + size0 + c_): v_ for (r_, c_), v_ in Hs.items()}
        elif variant == 'y1y2':
            p.y1, p.y2 = ctx.V('y1'), ctx.V('y2')
            K = p.calc_k0(silent=True).todict()
            H = symmetric_completion(oracle_k0(ctx, p, model, s=s, ylim=(_eta(p.y1, p.b), _eta(p.y2, p.b))))
        elif variant == 'preload':
            p.Nxx_cte, p.Nyy_cte, p.Nxy_cte = ctx.V('Nxx_cte'), ctx.V('Nyy_cte'), ctx.V('Nxy_cte')
            if cfg.get('sub'):
                p.y1, p.y2 = ctx.V('y1'), ctx.V('y2')
                yl = (_eta(p.y1, p.b), _eta(p.y2, p.b))
            else:
                yl = None
            K = p.calc_k0(silent=True).todict()
            H0 = oracle_k0(ctx, p, model, s=s, ylim=yl)
            HG = oracle_kG0(ctx, p, model, p.Nxx_cte, p.Nyy_cte, p.Nxy_cte, s=s, ylim=yl)
            for k, v in HG.items():
                H0[k] = H0[k] + v if k in H0 else v
            H = symmetric_completion(H0)
        elif variant == 'preload1':
            # only one of the three constant pre-loads set (the others left None): the dispatch must still add kG0
            which = cfg['which']
            setattr(p, which, ctx.V(which))
            K = p.calc_k0(silent=True).todict()
            H0 = oracle_k0(ctx, p, model, s=s)
            N = {w: (getattr(p, w) if getattr(p, w) is not None else 0) for w in ('Nxx_cte', 'Nyy_cte', 'Nxy_cte')}
            HG = oracle_kG0(ctx, p, model, N['Nxx_cte'], N['Nyy_cte'], N['Nxy_cte'], s=s)
            for k, v in HG.items():
                H0[k] = H0[k] + v if k in H0 else v
            H = symmetric_completion(H0)
        elif variant == 'tiling':
            y1, y2, y3 = ctx.V('y1'), ctx.V('y2'), ctx.V('y3')
            Ks = []
            for (lo, hi) in ((y1, y2), (y2, y3), (y1, y3)):
                p.y1, p.y2 = lo, hi
                Ks.append(p.calc_k0(silent=True).todict())
            K = dict(Ks[0])
            for k, v in Ks[1].items():
                K[k] = K[k] + v if k in K else v
            H = Ks[2]
        elif variant == 'fullwidth':
            p.y1, p.y2 = 0, p.b
            K = p.calc_k0(silent=True).todict()
            p.y1 = p.y2 = None
            H = p.calc_k0(silent=True).todict()
        else:
            raise ValueError(variant)
    for k in sorted(set(H) | set(K)):
        obs.append(('k0[%d,%d]' % k, K.get(k, 0), H.get(k, 0)))
    assumptions = positivity(ctx, p, model) if values is None else []
    if variant == 'tiling' and values is None:
        assumptions = assumptions + ctx.atoms.additivity_constraints()
    info = {'atoms': len(ctx.atoms.table), 'kernel_calls': ctx.atoms.calls, 'canon_queries': ctx.atoms.canon_queries,
            'policy_decisions': len(ctx.policy.log), 'read_stack_calls': len(ctx.read_stack_calls),
            'stats': {k: v.stats.as_dict() for k, v in ctx.kernels.mods.items()},
            'values': {k: str(v) for k, v in ctx.used_values.items()}}
    return obs, assumptions, info


def configs(tier, seed):
    out = []
    quick = tier == 'quick'
    pairs = [(2, 2), (3, 2), (1, 3), (4, 1), (1, 5)] if quick else [(1, 1), (2, 2), (3, 2), (2, 3), (3, 3), (4, 3), (5, 4), (6, 5), (8, 6), (10, 3), (3, 10), (12, 2), (2, 12)]
    for model in MODELS:
        for (m, n) in pairs:
            if model == 'kpanel' and m * n > (6 if quick else 16):
                continue
            out.append({'model': model, 'm': m, 'n': n, 'variant': 'full', 'group': 'k0:%s' % model, 's': 2})
        mm, nn = (2, 2) if quick else (3, 3)
        if model == 'kpanel':
            mm, nn = (2, 1) if quick else (2, 2)
        out.append({'model': model, 'm': mm, 'n': nn, 'variant': 'full', 'offset_history': True, 'group': 'k0-after-offset-redefinition:%s' % model, 's': 2})
        out.append({'model': model, 'm': mm, 'n': nn, 'variant': 'y1y2', 'group': 'k0y1y2:%s' % model, 's': 2})
        # four terms along one direction: all four boundary flags (1t, 1r, 2t, 2r) of that direction enter the integrals
        out.append({'model': model, 'm': 1, 'n': 4, 'variant': 'y1y2', 'group': 'k0y1y2:%s' % model, 's': 1 if model == 'kpanel' else 2})
        out.append({'model': model, 'm': 4, 'n': 1, 'variant': 'y1y2', 'group': 'k0y1y2:%s' % model, 's': 1 if model == 'kpanel' else 2})
        out.append({'model': model, 'm': 2, 'n': 2, 'variant': 'offset', 'off': 3 + seed % 4, 'group': 'placement:%s' % model, 's': 2})
        out.append({'model': model, 'm': 1 if model == 'kpanel' else 2, 'n': 2, 'variant': 'offdiag', 'off': 1 + seed % 3, 'group': 'placement-off-the-diagonal:%s' % model, 's': 1 if model == 'kpanel' else 2})
        if model != 'kpanel' or not quick:
            out.append({'model': model, 'm': 2, 'n': 1, 'variant': 'offset', 'off': 2 + seed % 3, 'preload': True, 'group': 'placement-with-preload:%s' % model, 's': 1 if model == 'kpanel' else 2})
        out.append({'model': model, 'm': 2, 'n': 2 if model != 'kpanel' else 1, 'variant': 'preload', 'group': 'preload:%s' % model, 's': 2})
        out.append({'model': model, 'm': 2, 'n': 1, 'variant': 'preload', 'sub': True, 'group': 'preload-sub:%s' % model, 's': 2})
        for which in ('Nxx_cte', 'Nyy_cte', 'Nxy_cte'):
            out.append({'model': model, 'm': 1, 'n': 2, 'variant': 'preload1', 'which': which, 'group': 'preload-single:%s' % model, 's': 1})
        out.append({'model': model, 'm': 2 if model != 'kpanel' else 1, 'n': 2, 'variant': 'tiling', 'group': 'tiling:%s' % model, 's': 1 if model == 'kpanel' else 2})
        out.append({'model': model, 'm': 2 if model != 'kpanel' else 1, 'n': 2, 'variant': 'fullwidth', 'group': 'fullwidth:%s' % model, 's': 1 if model == 'kpanel' else 2})
    if not quick:
        out.append({'model': 'kpanel', 'm': 2, 'n': 2, 'variant': 'full', 'group': 'k0:kpanel', 's': 3})
        out.append({'model': 'kpanel', 'm': 1, 'n': 2, 'variant': 'y1y2', 'group': 'k0y1y2:kpanel', 's': 3})
        out.append({'model': 'kpanel', 'm': 3, 'n': 3, 'variant': 'full', 'group': 'k0:kpanel', 's': 4, 'timeout_ms': 300000})
        out.append({'model': 'kpanel', 'm': 2, 'n': 2, 'variant': 'tiling', 'group': 'tiling:kpanel', 's': 3})
    out[0]['canary'] = True
    out[len(out) // 2]['canary'] = True
    out[-1]['canary'] = True
    return out


def main():
    run = Run('C02', 'other', explanation=(
        'Bounded symbolic verification: Panel.calc_k0 of the real Python layer is executed (module globals patched, no source '
        'edits) on symbolic a, b, r, sin/cos(alpha), 18 ABD entries, 24 real edge flags, pre-loads and sub-interval limits, over '
        'de-Cythonised fk0/fk0y1y2/fkG0/fkG0y1y2 of the four panel models; each entry of the returned (symmetrised) matrix is '
        'proved equal to the Hessian of the Donnell CLT strain energy of the Bardell series (same integral atoms) by z3 '
        'qfnra-nlsat on division-free polynomial identities, for all real values of the symbols; sat models are replayed in an '
        'exact-rational run of the same real code with exactly interpreted integrals.'))
    for rel in MODELS.values():
        for fn in ('fk0', 'fk0y1y2', 'fkG0', 'fkG0y1y2'):
            run.encoded(rel, fn)
    run.encoded('compmech/panel/_panel.py', 'Panel.calc_k0, Panel._rebuild, Panel.get_size')
    run.encoded('compmech/sparse.py', 'finalize_symmetric_matrix, make_symmetric')
    cf = configs(run.tier, run.seed)
    run.bounds = {'series_orders_(m,n)': sorted({(c['m'], c['n']) for c in cf}), 'cone_sections_s': sorted({c['s'] for c in cf}),
                  'flags': 'all 24 real (every 0/1 combination is an instance)', 'variants': sorted({c['variant'] for c in cf}),
                  'configurations': len(cf)}
    run.assume('a, b, r > 0', 'ABD block-symmetric (A, B, D symmetric 3x3; lower-left block = B)',
               'integral tables mean the exact Bardell integrals and factor through their edge flags (C10)',
               'sub-interval integrals are additive over adjacent intervals and equal the full table on [-1,1] (C10) -- used only in the tiling/fullwidth groups',
               'laminate.read_stack is a contract stub returning the symbolic ABD (C01 decides the real one)',
               'cone twist curvature operator kxy = -2 w,xy + sin(alpha)/r w,y as in the package derivation notebook',
               'symbolic pre-loads are generic (non-zero) in the != 0. dispatch of calc_k0; the zero case is the plain full variant')
    run.stubs = ['laminate.read_stack -> symbolic ABD', 'sin/cos(alpharad) -> (sina, cosa)', 'deg2rad -> angle token', 'msg/warn/gc -> silent']
    run.outside = ['series orders above the bound (same kernel text, same atoms: argued in DESIGN.md, not mechanised)',
                   'cone sections s > 3 (module constant 41 overridden to the bound)', 'floating point evaluation',
                   'positive semi-definiteness is a corollary of the energy form with F >= 0, not a query']
    res = pmap(kprop.job, [(__name__, c) for c in cf])
    res = kprop.explore_loci(__name__, res, run)      # second pass: the equality loci the executed code branched on
    kprop.handle(run, res, build, 'entries differ from the energy Hessian')
    return run.finish()


def replay(path):
    d = json.load(open(path))
    cfg = d['replay']['cfg']
    bad, info = kprop.concrete_replay(build, cfg, d['replay'].get('inputs', {}))
    print('replay %s: %d differing entries' % (cfg, len(bad)))
    for b in bad[:10]:
        print('  %s impl=%r oracle=%r' % b)
    return 1 if bad else 0
