"""Extern C functions of the kernels as seen by the symbolic run.

Meaning of the table functions (established by C10 against the exact oracle, for every index < 30):
    integral_<a><b>(i, j, X, Y)            = int_-1^1   f_i^(da)[X] f_j^(db)[Y] dxi
    integral_<a><b>_12(e1, e2, i, j, X, Y) = int_e1^e2  f_i^(da)[X] f_j^(db)[Y] dxi
    integral_<a><b>_c0c1(c0, c1, i, j, X, Y) = int_-1^1 f_i^(da)[X](xi) f_j^(db)[Y](c0+c1 xi) dxi
    calc_f / calc_fxi / calc_fxixi (i, xi, F) = f_i^(d)[F](xi)
where f_i[F] = F[i] * fraw_i for i < 4 and fraw_i otherwise.  Because of that form every value factors as
(flag of i) * (flag of j) * RAW, and RAW is what becomes an atom:

  mode 'atom'  : RAW is a fresh real per canonical key (unordered pair of factors, limits) -- kernel and oracle
                 must then agree as polynomials in the atoms (strict: no relation between integrals is used);
  mode 'exact' : RAW is the exact rational / exact polynomial in the limits from the Bardell oracle (E5).
"""
from fractions import Fraction
import z3
from .sym import Sym
from .oracles import bardell as B

KINDS = {'ff': (0, 0), 'ffxi': (0, 1), 'ffxixi': (0, 2), 'fxifxi': (1, 1), 'fxifxixi': (1, 2),
         'fxixifxixi': (2, 2), 'fxif': (1, 0)}


def skey(x):
    """canonical hashable key of a scalar argument"""
    if isinstance(x, Sym):
        if x.is_numeric():
            return ('q', x.n)
        if not x.d and not isinstance(x.n, Fraction):
            return ('z', x.n.get_id())
        return ('s', x.n.get_id() if not isinstance(x.n, Fraction) else x.n, tuple(sorted(x.d.items())))
    if isinstance(x, (int, Fraction)):
        return ('q', Fraction(x))
    if isinstance(x, float):
        return ('q', Fraction(x))
    try:
        import numpy as np
        if isinstance(x, (np.integer,)):
            return ('q', Fraction(int(x)))
        if isinstance(x, (np.floating,)):
            return ('q', Fraction(float(x)))
    except ImportError:
        pass
    raise TypeError('cannot key %r' % type(x))


class Atoms:
    def __init__(self, mode='atom'):
        self.mode = mode
        self.table = {}      # key -> Sym
        self.keep = []       # keep z3 terms alive (ids are used as keys)
        self.calls = 0
        self.names = {}
        self.classes = []    # canonical classes of limit expressions: list of (representative Sym, key)
        self.canon_queries = 0
        self.canon_cache = {}

    # -- raw values ------------------------------------------------------------------------
    def _atom(self, key, label):
        a = self.table.get(key)
        if a is None:
            a = Sym(z3.Real('%s#%d' % (label, len(self.table))))
            self.table[key] = a
            self.names[a.n.decl().name()] = key
        return a

    @staticmethod
    def _flag(i, F):
        return F[i] if i < 4 else 1

    def raw_integral(self, d1, i, d2, j, lim=None):
        """RAW int f_i^(d1) f_j^(d2) over [-1,1] or lim=(lo,hi)"""
        a, b = (d1, i), (d2, j)
        if b < a:
            a, b = b, a
        if self.mode == 'exact':
            if lim is None:
                p = B.integral(a[1], b[1], a[0], b[0], -1, 1, (1, 1, 1, 1), (1, 1, 1, 1))
                return Sym(p.t.get((), Fraction(0)))
            p = B.integral(a[1], b[1], a[0], b[0], 'LO', 'HI', (1, 1, 1, 1), (1, 1, 1, 1))
            return poly_eval_sym(p, {'LO': lim[0], 'HI': lim[1]})
        if lim is None:
            return self._atom(('I', a, b), 'I_%d%d_%d%d' % (a[0], a[1], b[0], b[1]))
        self.keep.append(lim)
        klo, khi = self.canon(lim[0]), self.canon(lim[1])
        if klo == ('q', Fraction(-1)) and khi == ('q', Fraction(1)):
            # end-point lemma (C10): the sub-interval table over [-1,1] is the full-interval table
            return self._atom(('I', a, b), 'I_%d%d_%d%d' % (a[0], a[1], b[0], b[1]))
        if klo == khi:
            return Sym.lift(0)   # empty interval (C10: antiderivative-difference form)
        return self._atom(('I12', a, b, klo, khi), 'I12_%d%d_%d%d' % (a[0], a[1], b[0], b[1]))

    def canon(self, x):
        """canonical key of a limit expression: two expressions get the same key iff z3 proves them identical"""
        x = Sym.lift(x)
        k0 = skey(x)
        if k0[0] == 'q':
            return k0
        if k0 in self.canon_cache:
            return self.canon_cache[k0]
        from .sym import identity_terms
        for rep, key in self.classes:
            L, R = identity_terms(x, rep)
            s = z3.Tactic('qfnra-nlsat').solver()
            s.set('timeout', 20000)
            s.add(L != R)
            self.canon_queries += 1
            if s.check() == z3.unsat:
                self.canon_cache[k0] = key
                return key
        # numeric candidates -1, 0, 1 (e.g. 2*b/b - 1)
        for q in (Fraction(-1), Fraction(1), Fraction(0)):
            L, R = identity_terms(x, Sym(q))
            s = z3.Tactic('qfnra-nlsat').solver()
            s.set('timeout', 20000)
            s.add(L != R)
            self.canon_queries += 1
            if s.check() == z3.unsat:
                self.canon_cache[k0] = ('q', q)
                return ('q', q)
        key = ('c', len(self.classes))
        self.classes.append((x, key))
        self.canon_cache[k0] = key
        return key

    def additivity_constraints(self):
        """z3 equalities  I12(a,b;lo,mid) + I12(a,b;mid,hi) == I12(a,b;lo,hi)  (and == full-interval atom when
        lo,hi = -1,1) for every triple of sub-interval atoms present -- the additivity lemma discharged by C10"""
        by = {}
        for key, atom in self.table.items():
            if key[0] == 'I12':
                by.setdefault((key[1], key[2]), {})[(key[3], key[4])] = atom
        cons = []
        for (a, b), d in by.items():
            full = self.table.get(('I', a, b))
            spans = dict(d)
            if full is not None:
                spans[(('q', Fraction(-1)), ('q', Fraction(1)))] = full
            # every chain of adjacent sub-intervals lo -> ... -> hi sums to the atom of (lo, hi) when that atom exists
            starts = {}
            for (lo, hi), x in d.items():
                starts.setdefault(lo, []).append((hi, x))

            def chains(pos, target, acc, seen):
                if pos == target and acc:
                    yield list(acc)
                    return
                for (nxt, x) in starts.get(pos, ()):
                    if nxt in seen:
                        continue
                    acc.append(x)
                    seen.add(nxt)
                    yield from chains(nxt, target, acc, seen)
                    seen.discard(nxt)
                    acc.pop()
            for (lo, hi), tot in spans.items():
                for ch in chains(lo, hi, [], {lo}):
                    if len(ch) >= 2:
                        cons.append(sum((x.n for x in ch[1:]), ch[0].n) == tot.n)
        return cons

    def raw_c0c1(self, d1, i, d2, j, c0, c1):
        if self.mode == 'exact':
            p = B.integral_c0c1(i, j, d1, d2, (1, 1, 1, 1), (1, 1, 1, 1))
            return poly_eval_sym(p, {'c0': c0, 'c1': c1})
        self.keep.append((c0, c1))
        return self._atom(('Ic', (d1, i), (d2, j), skey(c0), skey(c1)), 'Ic_%d%d_%d%d' % (d1, i, d2, j))

    def raw_f(self, d, i, xi):
        if self.mode == 'exact':
            p = B.f(i, 'xi', (1, 1, 1, 1), d)
            return poly_eval_sym(p, {'xi': xi})
        self.keep.append(xi)
        return self._atom(('F', d, i, self.canon(xi)), 'f%d_%d' % (d, i))

    # -- the C API -------------------------------------------------------------------------------
    def make_env(self):
        env = {}
        for kind, (d1, d2) in KINDS.items():
            if kind != 'fxif':
                env['integral_' + kind] = self._mk_full(d1, d2)
                env['integral_%s_12' % kind] = self._mk_12(d1, d2)
            env['integral_%s_c0c1' % kind] = self._mk_c0c1(d1, d2)
        env['calc_f'] = self._mk_f(0)
        env['calc_fxi'] = self._mk_f(1)
        env['calc_fxixi'] = self._mk_f(2)
        env['calc_vec_f'] = self._mk_vec(0)
        env['calc_vec_fxi'] = self._mk_vec(1)
        env['calc_vec_fxixi'] = self._mk_vec(2)
        return env

    def _mk_full(self, d1, d2):
        def fn(i, j, x1t, x1r, x2t, x2r, y1t, y1r, y2t, y2r):
            self.calls += 1
            i, j = int(i), int(j)
            if not (0 <= i < 30 and 0 <= j < 30):
                return Sym.lift(0)     # the tables return 0. in their default branch
            return Sym.lift(self._flag(i, (x1t, x1r, x2t, x2r))) * Sym.lift(self._flag(j, (y1t, y1r, y2t, y2r))) * self.raw_integral(d1, i, d2, j)
        return fn

    def _mk_12(self, d1, d2):
        def fn(e1, e2, i, j, x1t, x1r, x2t, x2r, y1t, y1r, y2t, y2r):
            self.calls += 1
            i, j = int(i), int(j)
            if not (0 <= i < 30 and 0 <= j < 30):
                return Sym.lift(0)
            return Sym.lift(self._flag(i, (x1t, x1r, x2t, x2r))) * Sym.lift(self._flag(j, (y1t, y1r, y2t, y2r))) * self.raw_integral(d1, i, d2, j, (Sym.lift(e1), Sym.lift(e2)))
        return fn

    def _mk_c0c1(self, d1, d2):
        def fn(c0, c1, i, j, x1t, x1r, x2t, x2r, y1t, y1r, y2t, y2r):
            self.calls += 1
            i, j = int(i), int(j)
            if not (0 <= i < 30 and 0 <= j < 30):
                return Sym.lift(0)
            return Sym.lift(self._flag(i, (x1t, x1r, x2t, x2r))) * Sym.lift(self._flag(j, (y1t, y1r, y2t, y2r))) * self.raw_c0c1(d1, i, d2, j, Sym.lift(c0), Sym.lift(c1))
        return fn

    def _mk_f(self, d):
        def fn(i, xi, t1, r1, t2, r2):
            self.calls += 1
            i = int(i)
            if not (0 <= i < 30):
                return Sym.lift(0)
            return Sym.lift(self._flag(i, (t1, r1, t2, r2))) * self.raw_f(d, i, Sym.lift(xi))
        return fn

    def _mk_vec(self, d):
        def fn(out, xi, t1, r1, t2, r2):
            self.calls += 1
            for i in range(30):
                out[i] = Sym.lift(self._flag(i, (t1, r1, t2, r2))) * self.raw_f(d, i, Sym.lift(xi))
        return fn

    # oracle-side helpers (same atoms) -----------------------------------------------------------------
    def I(self, d1, i, F1, d2, j, F2, lim=None):
        return Sym.lift(self._flag(i, F1)) * Sym.lift(self._flag(j, F2)) * self.raw_integral(d1, i, d2, j, lim)

    def Fv(self, d, i, xi, F):
        return Sym.lift(self._flag(i, F)) * self.raw_f(d, i, Sym.lift(xi))


def poly_eval_sym(p, env):
    """evaluate a vf.poly.Poly at Sym arguments"""
    out = Sym.lift(0)
    pw = {}
    for m, c in p.t.items():
        term = Sym.lift(c)
        for v, e in m:
            k = (v, e)
            if k not in pw:
                pw[k] = Sym.lift(env[v]) ** e
            term = term * pw[k]
        out = out + term
    return out
