"""C09 -- Newton-Raphson driver reports only equilibrated states, in load order, and stops.

E3: the unmodified Analysis.static(NLgeom=True) -> _solver_NR is re-executed once per feasible path.  Vectors and
matrices are opaque tokens with provenance; the only numbers are those that steer control flow: max|R| per iteration
and the two line-search dot products, fresh symbolic reals (Rmax >= 0).  After K free residuals the stub answers 0 so
that every path terminates.  Increment settings are concrete (taken from a small grid), hence load factors stay
concrete floats exactly as the real arithmetic produces them."""
import os, sys, json, time, itertools
import numpy as np
import z3
from ..harness import Run, pmap
from .. import forksym as FS
from ..forksym import V, B, Ctx, PathViolation, Abort


# ---- tokens ---------------------------------------------------------------------------------------------------
class Vec:
    _n = [0]

    def __init__(self, kind, *args):
        Vec._n[0] += 1
        self.id = Vec._n[0]
        self.kind, self.args = kind, args
        self.version = 0
        self.size = 3

    def __add__(self, o): return Vec('add', self, o)
    def __radd__(self, o): return Vec('add', o, self)
    def __sub__(self, o): return Vec('sub', self, o)
    def __rsub__(self, o): return Vec('sub', o, self)
    def __mul__(self, o): return Vec('scale', self, o)
    def __rmul__(self, o): return Vec('scale', self, o)
    def __neg__(self): return Vec('scale', self, -1)
    def __truediv__(self, o): return Vec('scale', self, ('1/', o))

    def _inplace(self, *a):
        self.version += 1
        return self
    __iadd__ = __isub__ = __imul__ = __itruediv__ = _inplace

    def __setitem__(self, k, v):
        self.version += 1

    def copy(self):
        return Vec('copy', self)

    def dot(self, o):
        w = World.cur
        return w.fresh_dot(self, o)

    @property
    def shape(self):
        return (self.size,)


class Mat:
    def __init__(self, kind, *args):
        self.kind, self.args = kind, args


class AbsTok:
    def __init__(self, v):
        self.v = v

    def max(self):
        return World.cur.fresh_rmax(self.v)


class NpStub:
    def __getattr__(self, n):
        return getattr(np, n)

    def abs(self, x):
        if isinstance(x, Vec):
            return AbsTok(x)
        return np.abs(x)
    absolute = abs


class RecList(list):
    def __init__(self, world, name):
        list.__init__(self)
        self.world, self.name = world, name

    def append(self, x):
        list.append(self, x)
        self.world.on_append(self.name, x)


class World:
    cur = None

    def __init__(self, ctx, cfg, K):
        self.ctx, self.cfg, self.K = ctx, cfg, K
        self.n_res = 0
        self.last_R = None
        self.residuals = []      # (symbol name or None, R token)
        self.dots = []
        self.events = []
        self.reported = []       # (lambda, token, version, residual-info)
        self.fint_calls = 0
        self.call_log = []       # for replay: per calc_fint call -> {'r': name, 's': name}
        self.steps = 0

    # oracle answers ----------------------------------------------------------------------------------
    def fresh_rmax(self, R):
        self.last_R = R
        call = self._fint_call_of(R)
        if self.n_res < self.K:
            self.n_res += 1
            v = self.ctx.fresh('rmax')
            self.ctx.assume(v.t >= 0)
            R.rmax = v
            if call is not None:
                self.call_log[call]['r'] = v.t.decl().name()
            return v
        R.rmax = 0.0
        if call is not None:
            self.call_log[call]['r'] = 0.0
        return 0.0

    def fresh_dot(self, a, b):
        # after the budget of free line searches the products are the benign pair (-1, 0): full step, search stops
        if len(self.dots) >= 2 * self.cfg.get('free_line_searches', 2):
            v = -1.0 if len(self.dots) % 2 == 0 else 0.0
            self.dots.append(v)
            call = self._fint_call_of(b)
            if call is not None:
                self.call_log[call]['s'] = v
            return v
        v = FS.Opaque(z3.Real('dot_%d' % (len(self.dots) + 1)))
        self.dots.append(v)
        call = self._fint_call_of(b)
        if call is not None:
            self.call_log[call]['s'] = 'dot_%d' % len(self.dots)
        return v

    def _unused_fresh_dot(self, a, b):
        v = self.ctx.fresh('dot')
        call = self._fint_call_of(b)
        if call is not None:
            self.call_log[call]['s'] = v.t.decl().name()
        return v

    def _fint_call_of(self, R):
        if isinstance(R, Vec) and R.kind == 'sub' and isinstance(R.args[1], Vec) and R.args[1].kind == 'fint':
            return R.args[1].args[2]
        return None

    # user callables -------------------------------------------------------------------------------------
    def calc_fext(self, inc=1., silent=False):
        return Vec('fext', inc)

    def calc_k0(self, silent=False):
        return Mat('k0')

    def calc_kT(self, c=None, inc=None, silent=False):
        return Mat('kT', c, inc)

    def calc_fint(self, c=None, inc=None, silent=False):
        k = self.fint_calls
        self.fint_calls += 1
        self.call_log.append({'r': None, 's': None})
        return Vec('fint', c, inc, k)

    def solve(self, k, f, silent=False, **kw):
        return Vec('solve', k, f)

    # monitors -------------------------------------------------------------------------------------------
    def on_append(self, name, x):
        self.events.append((name, x))
        if name == 'increments':
            self.pending_lambda = x
        if name == 'cs':
            lam = getattr(self, 'pending_lambda', None)
            self.check_report(lam, x)

    def check_report(self, lam, tok):
        absTOL = self.cfg['absTOL']
        if isinstance(lam, V):
            raise PathViolation('reported load factor is symbolic', None)
        R = self.last_R
        ok_prov = (isinstance(R, Vec) and R.kind == 'sub' and isinstance(R.args[0], Vec) and R.args[0].kind == 'fext'
                   and isinstance(R.args[1], Vec) and R.args[1].kind == 'fint')
        if not ok_prov:
            raise PathViolation('reported state: last residual is not fext - fint', {'lambda': lam})
        fext, fint = R.args
        src = tok.args[0] if (isinstance(tok, Vec) and tok.kind == 'copy') else tok
        if fint.args[0] is not src:
            raise PathViolation('reported state is not the state whose residual was tested last', {'lambda': lam})
        if fext.args[0] != lam or fint.args[1] != lam:
            raise PathViolation('residual of the reported state was evaluated at load factor %r/%r, reported %r' % (fext.args[0], fint.args[1], lam), {'lambda': lam})
        rm = R.rmax
        if isinstance(rm, V):
            if not self.ctx.implied(rm.t < FS.lift(absTOL)):
                raise PathViolation('reported state with max|fext - fint| >= absTOL possible', {'lambda': lam})
        elif not (rm < absTOL):
            raise PathViolation('reported state with residual %r >= absTOL' % rm, {'lambda': lam})
        self.reported.append((lam, tok, tok.version if isinstance(tok, Vec) else None))
        lams = [r[0] for r in self.reported]
        if not (0 < lam <= 1):
            raise PathViolation('reported load factor %r outside (0, 1]' % lam, {'lambdas': lams})
        if len(lams) >= 2 and not (lams[-2] < lams[-1]):
            raise PathViolation('reported load factors not strictly increasing: %r' % lams, {'lambdas': lams})
        if len(self.reported) > self.cfg['max_reports']:
            raise PathViolation('more than %d load steps reported: termination bound exceeded' % self.cfg['max_reports'], {'lambdas': lams})


def run_path(ctx, cfg, K):
    """one execution of the real driver under ctx"""
    import compmech.analysis.newton_raphson as nr
    import compmech.analysis.analysis as an
    w = World(ctx, cfg, K)
    World.cur = w
    saved = {k: getattr(nr, k) for k in ('np', 'solve', 'msg', 'warn')}
    saved_an = {k: getattr(an, k) for k in ('solve', 'msg')}
    nr.np = NpStub()
    nr.solve = w.solve
    w.log = []
    nr.msg = nr.warn = lambda *a, **k: w.log.append(str(a[0]) if a else '')
    an.solve = w.solve
    an.msg = lambda *a, **k: None
    try:
        A = an.Analysis(w.calc_fext, w.calc_k0, w.calc_fint, w.calc_kT)
        for k in ('line_search', 'max_iter_line_search', 'modified_NR', 'compute_every_n', 'kT_initial_state',
                  'initialInc', 'minInc', 'maxInc', 'absTOL', 'maxNumIter', 'too_slow_TOL'):
            setattr(A, k, cfg[k])
        try:
            incs, cs = _run_static(an, A, w)
        except PathViolation as pv:
            pv.data = dict(pv.data or {}, call_log=w.call_log, lambdas=[r[0] for r in w.reported] + ([pv.data.get('lambda')] if pv.data and 'lambda' in pv.data else []))
            raise
    finally:
        for k, v in saved.items():
            setattr(nr, k, v)
        for k, v in saved_an.items():
            setattr(an, k, v)
        World.cur = None
    lams = [r[0] for r in w.reported]
    m = ctx.model()
    path_model = None if m is None else {d.name(): str(m[d]) for d in m.decls()}
    if path_model is not None:
        path_model = solve_dots(path_model, getattr(ctx, 'opaque_defs', []))
    # snapshots unaltered
    for lam, tok, ver in w.reported:
        if isinstance(tok, Vec) and tok.version != ver:
            raise PathViolation('a reported state was modified in place after being reported', {'lambda': lam})
    # aliasing: the reported objects must not be the object the driver keeps iterating on (only matters if in-place ops exist)
    final_ok = bool(lams) and lams[-1] == 1
    min_exit = any('inimum step size' in m for m in w.log)
    return {'lambdas': lams, 'final_is_1': final_ok, 'min_inc_exit': min_exit, 'model': path_model, 'n_res': w.n_res, 'fint_calls': w.fint_calls, 'call_log': w.call_log,
            'list_sizes': (len(incs), len(cs))}


def _run_static(an, A, w):
    """run the REAL Analysis.static; its two `self.x = []` assignments are redirected to recording lists by a
    subclass without __slots__ restrictions on those names"""
    class Rec(an.Analysis):
        __slots__ = ()

    # property objects on the subclass shadow the slot descriptors for these two names
    store = {}

    def mk(name):
        def get(self):
            return store[name]

        def set_(self, v):
            if isinstance(v, list) and not isinstance(v, RecList):
                r = RecList(w, name)
                for x in v:
                    r.append(x)
                v = r
            store[name] = v
        return property(get, set_)
    Rec.increments = mk('increments')
    Rec.cs = mk('cs')
    R = Rec(A.calc_fext, A.calc_k0, A.calc_fint, A.calc_kT)
    for k in ('line_search', 'max_iter_line_search', 'modified_NR', 'compute_every_n', 'kT_initial_state',
              'initialInc', 'minInc', 'maxInc', 'absTOL', 'relTOL', 'maxNumIter', 'too_slow_TOL', 'NL_method'):
        setattr(R, k, getattr(A, k))
    if getattr(w, 'cfg', {}).get('after_an_earlier_analysis'):
        # the same Analysis object already carries the results of an earlier analysis (what a first static() leaves behind)
        for name in ('increments', 'cs'):
            old = RecList(w, name)
            list.append(old, 1.0 if name == 'increments' else Vec('state-of-the-earlier-analysis'))
            store[name] = old
    incs, cs = R.static(NLgeom=True, silent=True)
    if len(incs) != len(w.reported) or len(cs) != len(w.reported):
        raise PathViolation('the lists reported by this analysis contain %d load factors / %d states for %d reports: entries of an earlier analysis on the same object' % (
            len(incs), len(cs), len(w.reported)), {'lambda': None})
    return incs, cs


def final_state_check(res, cfg):
    """the analysis ends with the last load factor equal to 1 or after the increment fell below minInc; the driver
    does not expose `inc`, so: if the last reported factor is not 1, the path must have ended through the minimum-increment
    exit -- decided from the reported factors: a literal 'equal to 1' is required when any step converged at |lambda-1|<1e-3"""
    lams = res['lambdas']
    if lams and lams[-1] != 1 and abs(lams[-1] - 1) < 1e-3 and not res['min_inc_exit']:
        return 'final reported load factor %.12g is accepted as finished but is not equal to 1' % lams[-1]
    if not res['min_inc_exit'] and not (lams and lams[-1] == 1):
        return 'analysis ended with neither the last load factor equal to 1 nor the minimum-increment exit (load factors %r)' % (lams,)
    return None


# ---- jobs -----------------------------------------------------------------------------------------------------
BASE = dict(line_search=False, max_iter_line_search=2, modified_NR=False, compute_every_n=6, kT_initial_state=True,
            initialInc=0.4, minInc=0.05, maxInc=1., absTOL=1e-3, maxNumIter=3, too_slow_TOL=0.01, max_reports=60)


def config_grid(tier):
    g = []
    g.append(dict(BASE))
    g.append(dict(BASE, initialInc=1.0, minInc=0.01))
    g.append(dict(BASE, modified_NR=True, compute_every_n=2))
    g.append(dict(BASE, line_search=True, max_iter_line_search=2, maxNumIter=2))
    g.append(dict(BASE, initialInc=0.3, maxInc=0.35, minInc=0.02))
    g.append(dict(BASE, initialInc=0.5, maxNumIter=4, too_slow_TOL=0.5, kT_initial_state=False))
    g.append(dict(BASE, initialInc=0.6, maxNumIter=2, minInc=0.02))
    g.append(dict(BASE, initialInc=0.45, maxNumIter=2, minInc=0.1, modified_NR=True, compute_every_n=2))
    g.append(dict(BASE, initialInc=0.5, maxNumIter=2, minInc=0.1, after_an_earlier_analysis=True))
    if tier == 'thorough':
        for ii, mi, mx in ((0.25, 0.01, 0.5), (0.7, 0.1, 1.0), (1.0, 0.2, 1.0), (0.35, 0.03, 0.4), (0.9, 0.005, 1.0)):
            g.append(dict(BASE, initialInc=ii, minInc=mi, maxInc=mx))
            g.append(dict(BASE, initialInc=ii, minInc=mi, maxInc=mx, modified_NR=True, compute_every_n=3, maxNumIter=4))
        g.append(dict(BASE, line_search=True, max_iter_line_search=1, maxNumIter=3))
        g.append(dict(BASE, line_search=True, max_iter_line_search=2, modified_NR=True, initialInc=1.0))
        g.append(dict(BASE, absTOL=1e-6, too_slow_TOL=0.9, maxNumIter=5))
    return g


def job(arg):
    cfg, K, root, budget = arg
    t0 = time.time()
    out = FS.explore(lambda ctx: run_path(ctx, cfg, K), root=root, timeout_ms=20000, time_budget_s=budget, max_decisions=600,
                     model_hook=lambda md, ctx: solve_dots(md, getattr(ctx, 'opaque_defs', [])))
    finals = []
    for r in out['results']:
        msg = final_state_check(r, cfg)
        if msg:
            finals.append({'what': msg, 'lambdas': r['lambdas'], 'call_log': r['call_log'], 'model': r['model']})
    lin = None
    return {'cfg': cfg, 'K': K, 'paths': out['paths'], 'aborted': out['aborted'], 'queries': out['queries'], 'unknowns': out['unknowns'],
            'seconds': out['seconds'], 'complete': out['complete'], 'violations': out['violations'], 'final_not_1': finals[:5], 'n_final_not_1': len(finals),
            'sample': out['results'][0]['lambdas'] if out['results'] else None,
            'max_reports': max([len(r['lambdas']) for r in out['results']] or [0]),
            'reached_1': sum(1 for r in out['results'] if r['final_is_1'])}


# ---- concrete replay against the real driver ---------------------------------------------------------------------
def replay_concrete(cfg, call_answers):
    """run the real _solver_NR with numpy arrays; the k-th calc_fint call returns (-s_k, -r_k) and fext = 0, solve -> (1, 0),
    so that max|R| = r_k for Newton residuals and delta_c.R = s_k in the line search"""
    import compmech.analysis.newton_raphson as nr
    import compmech.analysis.analysis as an
    state = {'k': 0, 'last': None, 'at_report': []}

    def calc_fext(inc=1., silent=False):
        return np.zeros(2)

    def calc_fint(c=None, inc=None, silent=False):
        k = state['k']
        state['k'] += 1
        a = call_answers[k] if k < len(call_answers) else {'r': 0.0, 's': 0.0}
        state['last'] = a
        return np.array([-float(a.get('s') or 0.0), -float(a.get('r') or 0.0)])

    def solve(k, f, silent=False, **kw):
        return np.array([1.0, 0.0])
    saved = (nr.solve, an.solve, nr.msg, nr.warn, an.msg)
    nr.solve = an.solve = solve
    nr.msg = nr.warn = an.msg = lambda *a, **k: None
    try:
        A = an.Analysis(calc_fext, lambda silent=False: None, calc_fint, lambda c=None, inc=None, silent=False: None)
        for k in ('line_search', 'max_iter_line_search', 'modified_NR', 'compute_every_n', 'kT_initial_state',
                  'initialInc', 'minInc', 'maxInc', 'absTOL', 'maxNumIter', 'too_slow_TOL'):
            setattr(A, k, cfg[k])
        with np.errstate(all='ignore'):
            incs, cs = A.static(NLgeom=True, silent=True)
    finally:
        nr.solve, an.solve, nr.msg, nr.warn, an.msg = saved
    return {'lambdas': [float(x) for x in incs], 'n_states': len(cs), 'fint_calls': state['k'],
            'states_distinct_objects': len({id(x) for x in cs}) == len(cs)}


def replay_violation(cfg, v):
    """concrete replay of a violating symbolic path: residual / line-search values from the solver's model"""
    data = v.get('data') or {}
    ans = answers_from(data.get('call_log') or [], v.get('model') or {})
    try:
        real = replay_concrete(cfg, ans)
    except Exception as e:
        return False, 'replay crashed: %s: %s' % (type(e).__name__, e)
    lam = real['lambdas']
    sym = [float(x) for x in (data.get('lambdas') or []) if x is not None]
    what = v['what']
    if 'strictly increasing' in what or 'outside (0, 1]' in what:
        bad = any(not (0 < x <= 1) for x in lam) or any(not (a < b) for a, b in zip(lam, lam[1:]))
        return bad, real
    if 'termination bound' in what:
        return len(lam) > cfg['max_reports'], {'n_reported': len(lam)}
    # provenance / tolerance violations: the concrete run must follow the same path (same reported factors up to the violation)
    same = lam[:len(sym)] == sym[:len(lam)] if sym else True
    return same, dict(real, note='structural violation: concrete run follows the same reported load factors %r' % sym)


def solve_dots(model, opaque_defs):
    """values for the line-search dot products that realise the interpolated step lengths of the path model"""
    if not opaque_defs:
        return model
    sv = z3.Solver()
    sv.set('timeout', 20000)
    known = dict(model or {})
    for fv, term in opaque_defs:
        name = fv.decl().name()
        if name in known:
            from fractions import Fraction
            q = z3_num(known[name])
            sv.add(term == z3.Q(q.numerator, q.denominator))
    for n, val in known.items():
        if n.startswith('rmax') or n.startswith('opq'):
            q = z3_num(val)
            sv.add(z3.Real(n) == z3.Q(q.numerator, q.denominator))
    if sv.check() == z3.sat:
        m = sv.model()
        out = dict(known)
        for d in m.decls():
            if d.name().startswith('dot_'):
                out[d.name()] = str(m[d])
        return out
    return model


def answers_from(call_log, model):
    out = []
    for e in call_log:
        a = {}
        for key in ('r', 's'):
            v = e.get(key)
            if isinstance(v, str):
                mv = (model or {}).get(v)
                try:
                    a[key] = float(z3_num(mv)) if mv is not None else 0.0
                except Exception:
                    a[key] = 0.0
            else:
                a[key] = v if v is not None else 0.0
        out.append(a)
    return out


def z3_num(s):
    from fractions import Fraction
    s = str(s).rstrip('?')
    return Fraction(s)


def main():
    run = Run('C09', 'model_checking', explanation=(
        'Path-forking symbolic execution (one z3 feasibility query per branch outcome) of the unmodified Analysis.static -> '
        '_solver_NR over ALL histories of per-iteration residual norms (K free symbolic residuals, then benign) and line-search '
        'products, for a grid of concrete increment/iteration settings; on every path: each reported state is the one whose '
        'last residual fext(lambda)-fint(c,lambda) was tested < absTOL under the path condition, load factors strictly '
        'increasing in (0,1], reported snapshots never modified, bounded number of steps, final state.  Paths = states, '
        'branch decisions = transitions; violating paths are replayed with concrete residual sequences on the real driver.'))
    run.encoded('compmech/analysis/newton_raphson.py', '_solver_NR')
    run.encoded('compmech/analysis/analysis.py', 'Analysis.static')
    quick = run.tier == 'quick'
    K = 6 if quick else 8
    grid = config_grid(run.tier)
    run.bounds = {'free_line_searches': 2, 'free_residuals_K': K, 'configurations': len(grid), 'maxNumIter': sorted({c['maxNumIter'] for c in grid}),
                  'max_iter_line_search': sorted({c['max_iter_line_search'] for c in grid}), 'after K': 'residual stub answers 0'}
    run.assume('Rmax >= 0', 'user callables are opaque (vectors are tokens); their values matter only through max|R| and the line-search dot products',
               'quotients whose divisor can be 0 (change rate, line search) are unconstrained reals (over-approximation of inf/nan)',
               'increment settings concrete (grid listed in bounds)')
    run.stubs = ['sparse.solve -> token', 'numpy.abs(R).max() -> fresh real', 'msg/warn -> silent']
    run.outside = ['histories with more than K non-benign residuals', 'arc-length solver', 'NaN semantics', 'settings outside the grid']
    jobs = []
    # split each configuration's path tree at a fixed depth over the worker pool; line-search configurations carry
    # non-linear terms (quotients of dot products) and get a smaller residual budget
    for c in grid:
        Kc = (4 if quick else 6) if c['line_search'] else K
        roots = FS.frontier(lambda ctx, c=c, Kc=Kc: run_path(ctx, c, Kc), 3 if quick else 5, timeout_ms=20000)
        for r in roots:
            jobs.append((c, Kc, r, 90 if quick else 1500))
    res = pmap(job, jobs)
    states = transitions = 0
    known_final = 0
    seen_viol = {}
    for r in res:
        states += r['paths']
        transitions += r['queries']
        run.obligations += r['paths']
        run.discharged += r['paths'] - len(r['violations']) - r['aborted']
        run.queries += r['queries']
        run.solver_s += r['seconds']
        if not r['complete']:
            run.inconclusive.append({'name': 'config %s' % {k: r['cfg'][k] for k in ('initialInc', 'minInc', 'maxInc', 'line_search', 'modified_NR')}, 'info': 'time/decision budget reached: tree not exhausted'})
        if r['unknowns']:
            run.inconclusive.append({'name': 'solver unknown x%d' % r['unknowns'], 'info': ''})
        cfgkey = 'ii=%g,min=%g,max=%g,ls=%d,mod=%d,it=%d' % (r['cfg']['initialInc'], r['cfg']['minInc'], r['cfg']['maxInc'], r['cfg']['line_search'], r['cfg']['modified_NR'], r['cfg']['maxNumIter'])
        run.sample({'config': cfgkey, 'paths': r['paths'], 'first_path_load_factors': r['sample'], 'paths_reaching_1': r['reached_1'], 'max_steps_reported': r['max_reports']}, cap=8)
        for v in r['violations']:
            kind = v['what'].split(':')[0].split(' %')[0][:70]
            key = 'NR/%s' % kind
            if key in seen_viol:
                continue
            rep = {'cfg': r['cfg'], 'what': v['what'], 'lambdas_on_path': (v['data'] or {}).get('lambdas'), 'model': v['model'],
                   'decisions': v['trace'][:80]}
            seen_viol[key] = rep
            ok, detail = replay_violation(r['cfg'], v)
            rep['replayed_on_real_driver'] = detail
            if ok:
                run.extra['traces_validated_against_impl'] = run.extra.get('traces_validated_against_impl', 0) + 1
                run.violation(key, v['what'], rep)
            else:
                run.harness_error('violating path did not replay on the real driver: %s -- %s' % (v['what'], detail))
        for f in r['final_not_1'][:1]:
            kind = 'final-load-factor-accepted-within-1e-3-of-1' if 'accepted as finished' in f['what'] else 'ended-without-full-load-or-minimum-increment'
            key = 'NR/%s' % kind
            if key in seen_viol:
                continue
            rep = {'cfg': r['cfg'], 'lambdas_symbolic_run': f['lambdas'], 'what': f['what']}
            seen_viol[key] = rep
            lam_real = replay_concrete(r['cfg'], answers_from(f['call_log'], f.get('model') or {}))['lambdas']
            rep['replayed_on_real_driver'] = lam_real
            if lam_real == [float(x) for x in f['lambdas']] and (not lam_real or lam_real[-1] != 1):
                run.extra['traces_validated_against_impl'] = run.extra.get('traces_validated_against_impl', 0) + 1
                run.violation(key, f['what'], rep)
            else:
                run.harness_error('final-state trace did not replay on the real driver: symbolic %r real %r' % (f['lambdas'], lam_real))
    run.extra['states'] = max(states, 1)
    run.extra['transitions'] = max(transitions, 1)
    run.extra.setdefault('traces_validated_against_impl', 0)
    # translator validation of the harness: a benign concrete history through the real driver vs the token run
    try:
        lam = replay_concrete(grid[0], [])['lambdas']
        run.extra['benign_history_real_driver'] = lam
        run.extra['traces_validated_against_impl'] += 1
        if not lam or lam[-1] != 1.0:
            run.harness_error('benign history does not reach 1 on the real driver: %r' % lam)
    except Exception as e:
        run.harness_error('benign replay crashed: %s' % e)
    # canary: the monitor demanding a stricter tolerance than the driver tests must fire
    run.canary(_canary_fires(grid[0]), 'monitor with stricter tolerance than the driver must report a violation')
    return run.finish()


def _canary_fires(cfg):
    """twin run in which the monitor demands Rmax < absTOL/10 while the driver tests absTOL: must be violated on some path"""
    strict = dict(cfg)

    def fn(ctx):
        w_cfg = dict(cfg)
        import compmech.analysis.newton_raphson as nr
        return run_path_canary(ctx, w_cfg)
    out = FS.explore(fn, timeout_ms=20000, max_paths=60)
    return len(out['violations']) > 0


def run_path_canary(ctx, cfg):
    old = World.check_report

    def strict(self, lam, tok):
        saved = self.cfg['absTOL']
        self.cfg = dict(self.cfg, absTOL=saved / 10.)
        try:
            return old(self, lam, tok)
        finally:
            self.cfg = dict(self.cfg, absTOL=saved)
    World.check_report = strict
    try:
        return run_path(ctx, cfg, 3)
    finally:
        World.check_report = old


def replay_final(cfg):
    """concrete history: every Newton residual of the first attempt at full load is 1.0 (no convergence), later ones 0"""
    n_fail = cfg['maxNumIter']
    answers = [{'r': 1.0, 's': 0.0} for _ in range(n_fail)]
    try:
        return replay_concrete(cfg, answers)['lambdas']
    except Exception as e:
        return None


def replay(path):
    d = json.load(open(path))
    print(json.dumps(d, indent=1)[:3000])
    cfg = d['replay'].get('cfg')
    if cfg and 'final-load-factor' in d['key']:
        lam = replay_final(cfg)
        print('real driver load factors:', lam)
        return 1 if lam and lam[-1] != 1 else 0
    return 0
