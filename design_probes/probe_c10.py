import re, sys, time
from fractions import Fraction as Fr
from math import factorial

def fact2(n):
    if n <= 0: return 1
    r = 1
    while n > 1: r *= n; n -= 2
    return r

class P:  # univariate poly over Fractions, multilinear flags handled outside
    def __init__(s, c): s.c = list(c)
    def deriv(s): return P([k*s.c[k] for k in range(1, len(s.c))] or [Fr(0)])
    def __mul__(s, o):
        r = [Fr(0)]*(len(s.c)+len(o.c)-1)
        for i, a in enumerate(s.c):
            if a == 0: continue
            for j, b in enumerate(o.c): r[i+j] += a*b
        return P(r)
    def integ(s, lo=-1, hi=1):
        return sum(c*(Fr(hi)**(k+1) - Fr(lo)**(k+1))/(k+1) for k, c in enumerate(s.c))

def bardell(nmax=30):
    u = [P([Fr(1,2), Fr(-3,4), 0, Fr(1,4)]), P([Fr(1,8), Fr(-1,8), Fr(-1,8), Fr(1,8)]),
         P([Fr(1,2), Fr(3,4), 0, Fr(-1,4)]), P([Fr(-1,8), Fr(-1,8), Fr(1,8), Fr(1,8)])]
    for r in range(5, nmax+1):
        c = [Fr(0)]*r
        for n in range(0, r//2+1):
            if r-2*n-1 < 0: continue
            den = 2**n*factorial(n)*factorial(r-2*n-1)
            c[r-2*n-1] += Fr((-1)**n*fact2(2*r-2*n-7), den)
        u.append(P(c))
    return u

def parse_switch(path):
    """returns {fname: {(i,j): exprstring}}"""
    src = open(path).read()
    out = {}
    for m in re.finditer(r'EXPORTIT double (\w+)\(([^)]*)\)\s*\{', src):
        fname = m.group(1)
        body = src[m.end():]
        # body until next EXPORTIT
        nxt = body.find('EXPORTIT')
        if nxt >= 0: body = body[:nxt]
        tab = {}
        i = None; j = None; depth = 0
        for line in body.split('\n'):
            s = line.strip()
            mi = re.match(r'switch\((\w+)\)', s)
            if mi: depth += 1; continue
            mc = re.match(r'case (\d+):', s)
            if mc:
                if depth == 1: i = int(mc.group(1))
                else: j = int(mc.group(1))
                continue
            if s.startswith('default'):
                if depth == 2: j = 'default'
                else: i = 'default'
                continue
            mr = re.match(r'return (.*);', s)
            if mr:
                tab[(i, j)] = mr.group(1)
                continue
            if s == '}':
                depth -= 1
        out[fname] = tab
    return out

if __name__ == '__main__':
    t0 = time.time()
    u = bardell(30)
    tabs = parse_switch('/repo/compmech/lib/src/bardell.c')
    print({k: len(v) for k, v in tabs.items()}, time.time()-t0)
    # exact: integral_ff(i,j): coefficient of flags product
    fl = ['1t', '1r', '2t', '2r']
    worst = 0
    for fname, (da, db) in {'integral_ff': (0,0), 'integral_ffxi': (0,1), 'integral_ffxixi': (0,2), 'integral_fxifxi': (1,1), 'integral_fxifxixi': (1,2), 'integral_fxixifxixi': (2,2)}.items():
        tab = tabs[fname]
        nbad = 0; nz = 0
        for i in range(30):
            for j in range(30):
                a = u[i]; b = u[j]
                for _ in range(da): a = a.deriv()
                for _ in range(db): b = b.deriv()
                ex = (a*b).integ()
                e = tab.get((i, j))
                if e is None:
                    e = tab.get((i, 'default'), tab.get(('default', None), '0.'))
                env = {'pow': lambda x, k: x**int(k)}
                for p in 'xy':
                    for f in fl: env[p+f] = 1.0
                val = eval(e, {}, env)
                err = abs(val - float(ex))
                rel = err/max(abs(float(ex)), 1e-300) if ex != 0 else err
                if ex != 0: nz += 1
                if (ex == 0 and val != 0) or (ex != 0 and rel > 1e-12):
                    nbad += 1
                    if nbad < 5: print('  BAD', fname, i, j, val, float(ex), rel)
                if ex != 0: worst = max(worst, rel)
        print(fname, 'nonzero exact', nz, 'bad', nbad)
    print('worst rel', worst, time.time()-t0)
