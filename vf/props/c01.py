"""C01 -- Laminate ABD/ABDE = through-thickness integral of the rotated ply stiffness.

E4: read_stack, Laminate.rebuild/calc_constitutive_matrix, Lamina.rebuild, read_laminaprop, MatLamina.rebuild run
unchanged over symbolic data: per ply (c_k, s_k) on the unit circle (angles enter only through cos/sin), t_k, material
constants (3-, 6-, 9-entry tuples), offset d.  Oracle: Qbar_k = T^-1 Q R T R^-1 by explicit 3x3 products, transverse
shear by the 2x2 rotation, then A,B,D = sum_k Qbar_k {dz, dz^2/2, dz^3/3}, z_0 = -t/2 + d."""
import json, itertools
import numpy as np
import z3
from fractions import Fraction
from ..harness import Run, pmap
from .. import kprop
from ..sym import Sym
from ..shadow import Shadow, GenericPolicy


class Ang:
    """angle in radians = mult * theta_k (kind: how (cos, sin) of theta_k relate to the ply's base symbols)"""

    def __init__(self, k, kind, mult=1):
        self.k, self.kind, self.mult = k, kind, mult

    def __rmul__(self, o):
        if isinstance(o, int):
            return Ang(self.k, self.kind, self.mult * o)
        return NotImplemented
    __mul__ = __rmul__


# sentinel ply angles in degrees: genuine numbers with the genuine relations between a ply, its mirror image and its 90-degree
# rotation (code that negates or compares theta sees what it would see for real angles); cos/sin of them are the symbols of ply k
def encode_angle(kind, k):
    a = 7.0 + 11.0 * k
    return {'base': a, 'mirror': -a, 'rot90': a + 90.0}[kind]


def decode_angle(x):
    if not isinstance(x, float):
        return None
    for kind, a in (('mirror', -x), ('rot90', x - 90.0), ('base', x)):
        k = (a - 7.0) / 11.0
        if a >= 7.0 and a < 90.0 and k == int(k):
            if (kind == 'rot90') == (x >= 90.0) and (kind == 'mirror') == (x < 0):
                return kind, int(k)
    return None


class World:
    def __init__(self, values=None, seed=0, alias=None):
        import random
        self.values = values
        self.alias = alias or {}       # equality locus under exploration: {name: other name | 'p/q'}
        self.used = {}
        self._rnd = random.Random(seed)
        self.cs = {}
        self.policy = GenericPolicy()

    def V(self, name):
        name = Sym.resolve(name)
        if isinstance(name, tuple):
            return Sym.lin_value(name, self.V)   # pinned to a linear combination of other inputs on the locus under exploration
        if isinstance(name, Fraction):
            return Sym(name)
        if self.values is None:
            return Sym.var(name)
        if name in self.used:
            return Sym(self.used[name])         # one value per name within a run
        if name in self.values:
            v = Fraction(self.values[name])
        else:
            v = Fraction(self._rnd.randint(1, 40), self._rnd.randint(7, 23))
        self.used[name] = v
        return Sym(v)

    def base(self, k):
        if k not in self.cs:
            if self.values is None:
                self.cs[k] = (Sym.var('c%d' % k), Sym.var('s%d' % k))
            else:
                # rational point on the unit circle from a seeded parameter
                t = Fraction(self.values.get('tan_half_%d' % k, Fraction(self._rnd.randint(-9, 9), self._rnd.randint(2, 9))))
                self.used['tan_half_%d' % k] = t
                self.cs[k] = (Sym((1 - t * t) / (1 + t * t)), Sym(2 * t / (1 + t * t)))
        return self.cs[k]

    def cossin(self, a):
        c, s = self.base(a.k)
        if a.kind == 'mirror':
            c, s = c, -s
        elif a.kind == 'rot90':
            c, s = -s, c
        if a.mult == 1:
            return c, s
        if a.mult == 2:
            return c * c - s * s, 2 * s * c
        raise TypeError('unsupported angle multiple %d' % a.mult)

    # stubs -----------------------------------------------------------------------------------------
    def deg2rad(self, x):
        dec = decode_angle(x)
        if dec is not None:
            return Ang(dec[1], dec[0])
        return np.deg2rad(x)

    def cos(self, a):
        if isinstance(a, Ang):
            return self.cossin(a)[0]
        return np.cos(a)

    def sin(self, a):
        if isinstance(a, Ang):
            return self.cossin(a)[1]
        return np.sin(a)

    def shadow(self):
        import compmech.composite.lamina as lamina
        w = self

        class NpL:
            def __getattr__(self, n):
                from ..shadow import NpShadow
                return getattr(NpShadow(), n)

            def deg2rad(self, x):
                return w.deg2rad(x)
        sh = Shadow(None, stubs={'compmech.composite.lamina.cos': self.cos, 'compmech.composite.lamina.sin': self.sin}, policy=self.policy)
        sh_enter = sh.__enter__

        def enter():
            r = sh_enter()
            sh._set(lamina, 'np', NpL())
            return r
        sh.__enter__ = enter
        return _Ctx(sh, enter)

    def unit_circle(self):
        if self.values is not None:
            return []
        return [c.n * c.n + s.n * s.n == 1 for (c, s) in self.cs.values()]


class _Ctx:
    def __init__(self, sh, enter):
        self.sh, self.enter = sh, enter

    def __enter__(self):
        return self.enter()

    def __exit__(self, *a):
        return self.sh.__exit__(*a)


# ---- oracle --------------------------------------------------------------------------------------------------
def matmul(A, B):
    return [[sum((A[i][k] * B[k][j] for k in range(len(B))), Sym.lift(0)) for j in range(len(B[0]))] for i in range(len(A))]


def qbar(c, s, e1, e2, nu12, g12):
    nu21 = nu12 * e2 / e1
    den = 1 - nu12 * nu21
    Q = [[e1 / den, nu12 * e2 / den, 0], [nu12 * e2 / den, e2 / den, 0], [0, 0, g12]]
    Q = [[Sym.lift(x) for x in r] for r in Q]

    def T(c, s):
        return [[c * c, s * s, 2 * c * s], [s * s, c * c, -2 * c * s], [-c * s, c * s, c * c - s * s]]
    Tinv = T(c, -s)
    R = [[1, 0, 0], [0, 1, 0], [0, 0, 2]]
    Rinv = [[1, 0, 0], [0, 1, 0], [0, 0, Fraction(1, 2)]]
    R = [[Sym.lift(x) for x in r] for r in R]
    Rinv = [[Sym.lift(x) for x in r] for r in Rinv]
    return matmul(matmul(matmul(matmul(Tinv, Q), R), T(c, s)), Rinv)


def qsbar(c, s, g13, g23):
    q44, q55 = Sym.lift(g23), Sym.lift(g13)
    return [[c * c * q44 + s * s * q55, (q55 - q44) * c * s], [(q55 - q44) * c * s, s * s * q44 + c * c * q55]]


def oracle_ABDE(plies, d):
    """plies: list of (c, s, t, e1, e2, nu12, g12, g13, g23) bottom to top"""
    ttot = sum((p[2] for p in plies), Sym.lift(0))
    z = -ttot / 2 + d
    A = [[Sym.lift(0)] * 3 for _ in range(3)]
    B = [[Sym.lift(0)] * 3 for _ in range(3)]
    D = [[Sym.lift(0)] * 3 for _ in range(3)]
    Es = [[Sym.lift(0)] * 2 for _ in range(2)]
    for (c, s, t, e1, e2, nu12, g12, g13, g23) in plies:
        z0, z1 = z, z + t
        z = z1
        Qb = qbar(c, s, e1, e2, nu12, g12)
        Qs = qsbar(c, s, g13, g23)
        for i in range(3):
            for j in range(3):
                A[i][j] = A[i][j] + Qb[i][j] * (z1 - z0)
                B[i][j] = B[i][j] + Qb[i][j] * (z1 * z1 - z0 * z0) / 2
                D[i][j] = D[i][j] + Qb[i][j] * (z1 * z1 * z1 - z0 * z0 * z0) / 3
        for i in range(2):
            for j in range(2):
                Es[i][j] = Es[i][j] + Qs[i][j] * (z1 - z0)
    return A, B, D, Es, ttot


def expand_prop(w, k, form):
    """material tuple of ply k in the requested form -> (tuple given to read_stack, (e1,e2,nu12,g12,g13,g23))"""
    if form == 3:
        e, nu = w.V('E_%d' % k), w.V('nu_%d' % k)
        g = e / (2 * (1 + nu))
        return (e, e, nu), (e, e, nu, g, g, g)
    e1, e2, nu12, g12, g13, g23 = [w.V('%s_%d' % (n, k)) for n in ('E1', 'E2', 'nu12', 'G12', 'G13', 'G23')]
    if form == 6:
        return (e1, e2, nu12, g12, g13, g23), (e1, e2, nu12, g12, g13, g23)
    e3, nu13, nu23 = [w.V('%s_%d' % (n, k)) for n in ('E3', 'nu13', 'nu23')]
    return (e1, e2, nu12, g12, g13, g23, e3, nu13, nu23), (e1, e2, nu12, g12, g13, g23)


def run_stack(w, kinds, ts, props, d, uniform=False, order=None):
    """call the real read_stack; kinds[k] in base/mirror/rot90 gives the sentinel angle of ply k"""
    from compmech.composite import laminate
    order = order if order is not None else list(range(len(kinds)))
    stack = [encode_angle(kinds[k], k) for k in order]
    if uniform:
        return laminate.read_stack(stack, plyt=ts[0], laminaprop=props[0], offset=d)
    return laminate.read_stack(stack, plyts=[ts[k] for k in order], laminaprops=[props[k] for k in order], offset=d)


def entries(lam):
    out = {}
    for i in range(6):
        for j in range(6):
            out['ABD[%d,%d]' % (i, j)] = lam.ABD[i, j]
    for i in range(8):
        for j in range(8):
            out['ABDE[%d,%d]' % (i, j)] = lam.ABDE[i, j]
    return out


def build(cfg, values=None):
    N, form, variant = cfg['N'], cfg['form'], cfg['variant']
    w = World(values=values, seed=cfg.get('seed', 0))
    obs = []
    with w.shadow():
        d = w.V('d')
        uniform = cfg.get('uniform', False)
        tup, full = [], []
        for k in range(N):
            kk = 0 if uniform else k
            a, b = expand_prop(w, kk, form)
            tup.append(a)
            full.append(b)
        ts = [w.V('t_%d' % (0 if uniform else k)) for k in range(N)]
        kinds = ['base'] * N
        pairs = cfg.get('balanced_pairs')
        if variant == 'oracle':
            if cfg.get('after_other_calls'):
                # earlier calls in the same process with OTHER plies (more of them, another thickness and material), in both
                # argument forms: the laminate under test must not depend on them
                pa, _ = expand_prop(w, 50, form)
                run_stack(w, ['base'] * (N + 1), [w.V('t_50')] * (N + 1), [pa] * (N + 1), w.V('d_50'), uniform=True)
                run_stack(w, ['base'] * (N + 1), [w.V('t_50')] * (N + 1), [pa] * (N + 1), w.V('d_50'), uniform=False)
            if pairs:
                # balanced stack: every ply is followed by its exact -theta twin of the same material (what most real laminates contain)
                from compmech.composite import laminate
                stack, plyts_, props_, plies = [], [], [], []
                for k in range(N):
                    c_, s_ = w.base(k)
                    for kind, sg, tname in (('base', 1, 'ta_%d'), ('mirror', -1, 'tb_%d')):
                        stack.append(encode_angle(kind, k))
                        t_ = w.V(tname % k)
                        plyts_.append(t_)
                        props_.append(tup[k])
                        plies.append((c_, sg * s_, t_) + tuple(Sym.lift(x) for x in full[k]))
                lam = laminate.read_stack(stack, plyts=plyts_, laminaprops=props_, offset=d)
            else:
                lam = run_stack(w, kinds, ts, tup, d, uniform=uniform)
                plies = [w.base(k) + (ts[k],) + tuple(Sym.lift(x) for x in full[k]) for k in range(N)]
            A, B, D, Es, ttot = oracle_ABDE(plies, d)
            exp = {}
            blocks = {(0, 0): A, (0, 1): B, (1, 0): B, (1, 1): D}
            for (bi, bj), M in blocks.items():
                for i in range(3):
                    for j in range(3):
                        exp['ABD[%d,%d]' % (3 * bi + i, 3 * bj + j)] = M[i][j]
                        exp['ABDE[%d,%d]' % (3 * bi + i, 3 * bj + j)] = M[i][j]
            for i in range(8):
                for j in range(8):
                    if i >= 6 or j >= 6:
                        exp['ABDE[%d,%d]' % (i, j)] = Es[i - 6][j - 6] if (i >= 6 and j >= 6) else Sym.lift(0)
            got = entries(lam)
            for name in sorted(exp):
                obs.append((name, got[name], exp[name]))
            obs.append(('thickness', lam.t, ttot))
            for i in range(3):
                for j in range(3):
                    obs.append(('A[%d,%d]' % (i, j), lam.A[i, j], A[i][j]))
                    obs.append(('B[%d,%d]' % (i, j), lam.B[i, j], B[i][j]))
                    obs.append(('D[%d,%d]' % (i, j), lam.D[i, j], D[i][j]))
            for i in range(2):
                for j in range(2):
                    obs.append(('E[%d,%d]' % (i, j), lam.E[i, j], Es[i][j]))
        elif variant == 'symmetry':
            lam = run_stack(w, kinds, ts, tup, d)
            for i in range(8):
                for j in range(i + 1, 8):
                    obs.append(('ABDE-sym[%d,%d]' % (i, j), lam.ABDE[i, j], lam.ABDE[j, i]))
        elif variant == 'shift':
            lam0 = run_stack(w, kinds, ts, tup, 0)
            lamd = run_stack(w, kinds, ts, tup, d)
            for i in range(3):
                for j in range(3):
                    obs.append(('A-shift[%d,%d]' % (i, j), lamd.A[i, j], lam0.A[i, j]))
                    obs.append(('B-shift[%d,%d]' % (i, j), lamd.B[i, j] - lam0.B[i, j], d * lam0.A[i, j]))
                    obs.append(('D-shift[%d,%d]' % (i, j), lamd.D[i, j] - lam0.D[i, j], 2 * d * lam0.B[i, j] + d * d * lam0.A[i, j]))
        elif variant == 'midsym':
            # mirror-symmetric stack about the mid-plane, offset 0: B = 0
            half = list(range(N))
            order = half + half[::-1]
            lam = run_stack(w, kinds, ts, tup, 0, order=order)
            for i in range(3):
                for j in range(3):
                    obs.append(('B-zero[%d,%d]' % (i, j), lam.B[i, j], 0))
        elif variant == 'perm':
            lam0 = run_stack(w, kinds, ts, tup, d)
            for perm in itertools.permutations(range(N)):
                if list(perm) == list(range(N)):
                    continue
                lamp = run_stack(w, kinds, ts, tup, d, order=list(perm))
                for i in range(3):
                    for j in range(3):
                        obs.append(('A-perm%s[%d,%d]' % (''.join(map(str, perm)), i, j), lamp.A[i, j], lam0.A[i, j]))
                for i in range(2):
                    for j in range(2):
                        obs.append(('E-perm%s[%d,%d]' % (''.join(map(str, perm)), i, j), lamp.E[i, j], lam0.E[i, j]))
        elif variant in ('mirror', 'rot90'):
            lam0 = run_stack(w, kinds, ts, tup, d)
            lam1 = run_stack(w, [variant] * N, ts, tup, d)
            if variant == 'mirror':
                sgn = lambda i, j: -1 if ((i % 3 == 2) != (j % 3 == 2)) else 1
                for i in range(6):
                    for j in range(6):
                        obs.append(('mirror[%d,%d]' % (i, j), lam1.ABD[i, j], sgn(i, j) * lam0.ABD[i, j]))
                obs.append(('mirror-E[0,1]', lam1.E[0, 1], -lam0.E[0, 1]))
                obs.append(('mirror-E[0,0]', lam1.E[0, 0], lam0.E[0, 0]))
                obs.append(('mirror-E[1,1]', lam1.E[1, 1], lam0.E[1, 1]))
            else:
                # rotating every ply by +90 deg: laminate x' = y, y' = -x : indices 1<->2, the 16/26 entries change sign
                pm = {0: 1, 1: 0, 2: 2}
                sgn = lambda i, j: -1 if ((i % 3 == 2) != (j % 3 == 2)) else 1
                for i in range(6):
                    for j in range(6):
                        ii = 3 * (i // 3) + pm[i % 3]
                        jj = 3 * (j // 3) + pm[j % 3]
                        obs.append(('rot90[%d,%d]' % (i, j), lam1.ABD[i, j], sgn(i, j) * lam0.ABD[ii, jj]))
                obs.append(('rot90-E[0,0]', lam1.E[0, 0], lam0.E[1, 1]))
                obs.append(('rot90-E[1,1]', lam1.E[1, 1], lam0.E[0, 0]))
                obs.append(('rot90-E[0,1]', lam1.E[0, 1], -lam0.E[0, 1]))
        else:
            raise ValueError(variant)
    assumptions = w.unit_circle()
    if values is None:
        for k in range(N):
            for nm in ('t_%d', 'ta_%d', 'tb_%d', 'E_%d', 'E1_%d', 'E2_%d', 'G12_%d', 'G13_%d', 'G23_%d'):
                assumptions.append(z3.Real(nm % k) > 0)
            assumptions.append(z3.Real('E1_%d' % k) - z3.Real('nu12_%d' % k) * z3.Real('nu12_%d' % k) * z3.Real('E2_%d' % k) > 0)
            assumptions.append(z3.Real('nu_%d' % k) * z3.Real('nu_%d' % k) < 1)
    info = {'values': {k: str(v) for k, v in w.used.items()}, 'stats': {}, 'plies': N}
    return obs, assumptions, info


def pd_lemmas():
    """positive definiteness as a chain of small NRA lemmas (composition recorded in evidence, not solved)"""
    x1, x2, x3, c, s = z3.Reals('x1 x2 x3 c s')
    e1, e2, nu12, g12 = z3.Reals('e1 e2 nu12 g12')
    obs = []
    # (L1) Q > 0:  y^T Q y > 0 for y != 0, with q11 = e1/den, q22 = e2/den, q12 = nu12 e2/den, den = 1 - nu12^2 e2/e1 > 0
    # multiply by den*e1 > 0:  e1*(e1 y1^2 + 2 nu12 e2 y1 y2 + e2 y2^2) + g12*(e1 - nu12^2 e2) y3^2 ... written division-free
    y1, y2, y3 = z3.Reals('y1 y2 y3')
    denE = e1 - nu12 * nu12 * e2      # = e1*den
    form = e1 * (e1 * y1 * y1 + 2 * nu12 * e2 * y1 * y2 + e2 * y2 * y2) + g12 * denE * y3 * y3
    obs.append(('PD-L1-Q-positive', [e1 > 0, e2 > 0, g12 > 0, denE > 0, z3.Or(y1 != 0, y2 != 0, y3 != 0), form <= 0]))
    # (L2) engineering-strain rotation is invertible on the unit circle: R(c,s) x = 0 => x = 0
    r1 = c * c * x1 + s * s * x2 + c * s * x3
    r2 = s * s * x1 + c * c * x2 - c * s * x3
    r3 = -2 * c * s * x1 + 2 * c * s * x2 + (c * c - s * s) * x3
    obs.append(('PD-L2-rotation-injective', [c * c + s * s == 1, r1 == 0, r2 == 0, r3 == 0, z3.Or(x1 != 0, x2 != 0, x3 != 0)]))
    # (L3) Simpson's rule is exact for quadratics: int_z0^z1 q = (z1-z0)/6 (q(z0) + 4 q(zm) + q(z1)) with positive weights
    a0, a1, a2, z0, z1 = z3.Reals('a0 a1 a2 z0 z1')
    q = lambda z: a0 + a1 * z + a2 * z * z
    integ = a0 * (z1 - z0) + a1 * (z1 * z1 - z0 * z0) / 2 + a2 * (z1 * z1 * z1 - z0 * z0 * z0) / 3
    zm = (z0 + z1) / 2
    obs.append(('PD-L3-simpson-exact', [6 * integ != (z1 - z0) * (q(z0) + 4 * q(zm) + q(z1))]))
    return obs


def job_pd(_):
    from ..harness import decide_job
    return decide_job('positive-definiteness-lemmas', pd_lemmas(), [], timeout_ms=60000)


def configs(tier, seed):
    out = []
    quick = tier == 'quick'
    Ns = [1, 2] if quick else [1, 2, 3, 4, 5, 6]
    for N in Ns:
        for form in (3, 6, 9):
            if N >= 3 and form == 9 and quick:
                continue
            out.append({'N': N, 'form': form, 'variant': 'oracle', 'group': 'ABDE-vs-integral:N=%d' % N, 'timeout_ms': 240000})
        out.append({'N': N, 'form': 6, 'variant': 'oracle', 'uniform': True, 'group': 'ABDE-vs-integral-uniform-args:N=%d' % N})
        out.append({'N': N, 'form': 6, 'variant': 'oracle', 'uniform': True, 'after_other_calls': True, 'group': 'ABDE-vs-integral-uniform-args-after-other-calls:N=%d' % N})
        out.append({'N': N, 'form': 6, 'variant': 'oracle', 'after_other_calls': True, 'group': 'ABDE-vs-integral-after-other-calls:N=%d' % N})
        out.append({'N': N, 'form': 6, 'variant': 'symmetry', 'group': 'symmetric:N=%d' % N})
        out.append({'N': N, 'form': 6, 'variant': 'shift', 'group': 'reference-shift:N=%d' % N})
        out.append({'N': N, 'form': 6, 'variant': 'mirror', 'group': 'mirror-angles:N=%d' % N})
        out.append({'N': N, 'form': 6, 'variant': 'rot90', 'group': 'rotate-90:N=%d' % N})
    for N in ([1] if quick else [1, 2]):
        for form in (6, 9):
            out.append({'N': N, 'form': form, 'variant': 'oracle', 'balanced_pairs': True, 'group': 'ABDE-vs-integral-balanced-pairs:N=%d' % N, 'timeout_ms': 240000})
    for N in ([1, 2] if quick else [1, 2, 3, 4]):
        out.append({'N': N, 'form': 6, 'variant': 'midsym', 'group': 'midplane-symmetric-B0:halfN=%d' % N})
    for N in ([2] if quick else [2, 3, 4]):
        out.append({'N': N, 'form': 6, 'variant': 'perm', 'group': 'A-independent-of-order:N=%d' % N})
    out[0]['canary'] = True
    out[3]['canary'] = True
    out[-1]['canary'] = True
    return out


def main():
    run = Run('C01', 'other', explanation=(
        'Bounded symbolic verification: the real read_stack -> Lamina.rebuild -> calc_constitutive_matrix pipeline is executed '
        'on symbolic (cos,sin) per ply, thicknesses, 3/6/9-entry material tuples and offset; every entry of A,B,D,E,ABD,ABDE is '
        'proved (z3 qfnra-nlsat, division-free) equal to the integral of the rotated plane-stress stiffness built by explicit '
        'tensor products; symmetry, reference-surface shift, mid-plane symmetry, ply-order independence, angle mirroring and 90 '
        'degree rotation are separate relational obligations between executions; positive definiteness by three small lemmas.'))
    for f, fn in (('compmech/composite/laminate.py', 'read_stack, Laminate.rebuild, Laminate.calc_constitutive_matrix'),
                  ('compmech/composite/lamina.py', 'Lamina.rebuild'), ('compmech/composite/matlamina.py', 'read_laminaprop, MatLamina.rebuild')):
        run.encoded(f, fn)
    cf = configs(run.tier, run.seed)
    run.bounds = {'plies_N': sorted({c['N'] for c in cf}), 'material_tuple_forms': [3, 6, 9], 'argument_forms': ['per-ply lists', 'uniform plyt/laminaprop'],
                  'configurations': len(cf)}
    run.assume('angles enter only through (cos, sin) on the unit circle (deg2rad, libm trusted)', 'E1, E2, 1-nu12*nu21 non-zero (they are divided by)',
               'positive definiteness: lemmas L1 (Q>0), L2 (rotation injective), L3 (Simpson exact => ply integral is a positive combination of '
               'three values of a non-negative quadratic form) compose to ABD > 0; the composition is a two-line argument, not a solver step')
    run.stubs = ['numpy.deg2rad / cos / sin inside lamina.py -> symbolic angle tokens']
    run.outside = ['lamination-parameter route (read_lamination_parameters)', 'more plies than the bound', 'floating point']
    res = pmap(kprop.job, [(__name__, c) for c in cf])
    for r in res:
        if 'cfg' in r:
            r['cfg'].setdefault('m', r['cfg']['N'])
            r['cfg'].setdefault('n', r['cfg']['form'])
    def admissible(vn, to, cfg0):
        if vn.split('_')[0] in ('t', 'E', 'E1', 'E2', 'G12', 'G13', 'G23') and to.lstrip('-').replace('/', '').isdigit() and Fraction(to) <= 0:
            return False        # thickness and moduli are positive
        return cfg0['variant'] == 'oracle'
    res = kprop.explore_loci(__name__, res, run, admissible)
    for r in res:
        if 'cfg' in r:
            r['cfg'].setdefault('m', r['cfg']['N'])
            r['cfg'].setdefault('n', r['cfg']['form'])
    kprop.handle(run, res, build, 'laminate entries differ')
    pd = job_pd(None)
    sats = run.absorb_job(pd)
    for s in sats:
        run.violation('pd-lemma/' + s['name'], 'positive-definiteness lemma %s has a counter-model %s' % (s['name'], s['model']), s)
    # number-type twin on the real route (sampling, stated as such): the symbolic run's values carry no machine type, so a cast that only
    # bites for integer-typed input (plyt=1 in a mm system) is outside it; the same laminate given with int and with float numbers
    try:
        tw = number_type_twin()
    except Exception as e:
        tw = [{'what': 'error', 'error': '%s: %s' % (type(e).__name__, e)}]
    run.extra['number_type_twin_int_vs_float_inputs'] = {'mismatches': len(tw)}
    if tw:
        run.obligations += 1
        run.violation('number-type-twin/%s' % tw[0].get('what', 'error'), 'read_stack gives different stiffness matrices for integer-typed and float-typed input of the same values: %s' % (tw[:3],),
                      {'mismatches': tw[:10], 'decided_by': 'float runs of the real read_stack (no solver verdict for this branch)'})
    from ..sym import Sym as _S
    run.extra['float_snaps'] = dict(list(_S.SNAPS.items())[:20])
    return run.finish()


def number_type_twin():
    import numpy as np
    from compmech.composite.laminate import read_stack
    bad = []
    lp_i, lp_f = (140000, 9000, 0.3, 5000, 5000, 4000), (140000., 9000., 0.3, 5000., 5000., 4000.)
    for name, kw_i, kw_f in (
            ('plyt=1, three plies', dict(stack=[0, 90, 0], plyt=1, laminaprop=lp_i), dict(stack=[0., 90., 0.], plyt=1., laminaprop=lp_f)),
            ('plyts=[1,2,2], offset=0', dict(stack=[45, -45, 0], plyts=[1, 2, 2], laminaprop=lp_i, offset=0), dict(stack=[45., -45., 0.], plyts=[1., 2., 2.], laminaprop=lp_f, offset=0.)),
            ('plyt=2, offset=1/4', dict(stack=[0, 30], plyt=2, laminaprop=lp_i, offset=0.25), dict(stack=[0., 30.], plyt=2., laminaprop=lp_f, offset=0.25)),
            ('plyt=1, offset=1', dict(stack=[0, 90, 45], plyt=1, laminaprop=lp_i, offset=1), dict(stack=[0., 90., 45.], plyt=1., laminaprop=lp_f, offset=1.)),
            ('per-ply props, plyts=[1,1,1]', dict(stack=[0, 90, 0], plyts=[1, 1, 1], laminaprops=[lp_i, lp_f, lp_i]), dict(stack=[0., 90., 0.], plyts=[1., 1., 1.], laminaprops=[lp_f] * 3))):
        li, lf = read_stack(**kw_i), read_stack(**kw_f)
        for k in ('A', 'B', 'D', 'E', 'ABD', 'ABDE'):
            a_, b_ = np.asarray(getattr(li, k), dtype=float), np.asarray(getattr(lf, k), dtype=float)
            if a_.shape != b_.shape or not np.allclose(a_, b_, rtol=1e-12, atol=1e-12 * float(np.abs(b_).max())):
                bad.append({'what': '%s/%s' % (name, k), 'max_difference': float(np.abs(a_ - b_).max()) if a_.shape == b_.shape else 'shape'})
        if abs(float(li.t) - float(lf.t)) > 1e-12:
            bad.append({'what': '%s/t' % name, 'int': float(li.t), 'float': float(lf.t)})
    return bad


def replay(path):
    d = json.load(open(path))
    cfg = d['replay']['cfg']
    bad, info = kprop.concrete_replay(build, cfg, d['replay'].get('inputs', {}))
    print('replay %s: %d differing entries' % (cfg, len(bad)))
    for b in bad[:10]:
        print('  %s impl=%r oracle=%r' % b)
    return 1 if bad else 0
