"""Symbolic panels: the REAL compmech.panel.Panel object with symbolic attributes (E4) plus the oracles (E5)
for its matrices, built on the same atom table as the de-Cythonised kernels (E1)."""
import numpy as np
import z3
from fractions import Fraction
from .sym import Sym
from . import atoms as A
from .shadow import Shadow, KernelSet, GenericPolicy
from .oracles import energy as E

ABD_NAMES = ['A11', 'A12', 'A16', 'A22', 'A26', 'A66', 'B11', 'B12', 'B16', 'B22', 'B26', 'B66',
             'D11', 'D12', 'D16', 'D22', 'D26', 'D66']
IDX = {'11': (0, 0), '12': (0, 1), '16': (0, 2), '22': (1, 1), '26': (1, 2), '66': (2, 2)}


def sym_ABD(prefix='', V=Sym.var):
    v = {k: V(prefix + k) for k in ABD_NAMES}
    F = np.zeros((6, 6), dtype=object)
    for blk, r0, c0 in (('A', 0, 0), ('B', 0, 3), ('D', 3, 3)):
        for k, (i, j) in IDX.items():
            F[r0 + i, c0 + j] = v[blk + k]
            F[r0 + j, c0 + i] = v[blk + k]
    for i in range(3):
        for j in range(3):
            F[3 + i, j] = F[j, 3 + i]
    return F


class AngleTok:
    def __init__(self, unit, name='alpha'):
        self.unit, self.name = unit, name

    def __repr__(self):
        return '<angle %s in %s>' % (self.name, self.unit)


def flag_names(comps='uvw'):
    return ['%s%s%s' % (c, e, d) for c in comps for d in 'xy' for e in ('1t', '1r', '2t', '2r')]


def flags_of(obj, comps='uvw'):
    return {c: {d: tuple(getattr(obj, '%s%s%s' % (c, e, d)) for e in ('1t', '1r', '2t', '2r')) for d in 'xy'} for c in comps}


class FakeLam:
    pass


class PanelCtx:
    """one symbolic world: atom table, kernel twins, sin/cos/deg2rad stubs, read_stack stub"""

    def __init__(self, atom_mode='atom', s_sections=None, values=None, seed=0):
        """values: None -> fully symbolic world; dict name->number -> concrete (exact rational) world used for
        replay: every symbol takes the given value (missing ones get a seeded random rational), atoms are exact"""
        self.values = values
        self.used_values = {}
        import random
        self._rnd = random.Random(seed)
        if values is not None:
            atom_mode = 'exact'
        self.atoms = A.Atoms(atom_mode)
        if values is not None and ('sina' not in values or 'cosa' not in values):
            values = dict(values)
            values['sina'], values['cosa'] = Fraction(3, 5), Fraction(4, 5)
            self.values = values
        self.sina = self.V('sina')
        self.cosa = self.V('cosa')
        extra = {'sin': self._sin, 'cos': self._cos, 'leggauss_quad': self._leggauss}
        self.gauss = {}
        self.s_sections = s_sections
        self.kernels = KernelSet(self.atoms, extra_env=extra)
        self.policy = GenericPolicy()
        self.lam_for = {}      # id(panel) -> FakeLam
        self.read_stack_calls = []

    def V(self, name):
        name = Sym.resolve(name)
        if isinstance(name, tuple):
            return Sym.lin_value(name, self.V)   # pinned to a linear combination of other inputs on the locus under exploration
        if isinstance(name, Fraction):
            return Sym(name)          # pinned on the equality locus under exploration
        if self.values is None:
            return Sym.var(name)
        if name in self.used_values:
            return Sym(self.used_values[name])      # one value per name within a run
        if name in self.values:
            v = Fraction(self.values[name])
        else:
            v = Fraction(self._rnd.randint(1, 40), self._rnd.randint(7, 23))
        self.used_values[name] = v
        return Sym(v)

    def rule(self, n):
        """the symbolic n-point rule (created on demand: an oracle may need a rule the code under test never asked for)"""
        n = int(n)
        if n not in self.gauss:
            self.gauss[n] = [(self.V('gp%d_%d' % (n, k)), self.V('gw%d_%d' % (n, k))) for k in range(n)]
        return self.gauss[n]

    def _leggauss(self, n, pts, wts):
        """stub for leggauss_quad: symbolic points and weights (integrand-level identities hold for every rule)"""
        n = int(n)
        if n not in self.gauss:
            self.gauss[n] = [(self.V('gp%d_%d' % (n, k)), self.V('gw%d_%d' % (n, k))) for k in range(n)]
        for k, (x, w) in enumerate(self.gauss[n]):
            pts[k] = x
            wts[k] = w

    def _sin(self, t):
        if isinstance(t, AngleTok) and t.unit == 'rad':
            return self.sina if t.name == 'alpha' else self.V('sin_' + t.name)     # another (e.g. an earlier) angle: its own atoms
        if isinstance(t, (int, float)) and t == 0:
            return 0
        raise TypeError('sin() of %r' % (t,))

    def _cos(self, t):
        if isinstance(t, AngleTok) and t.unit == 'rad':
            return self.cosa if t.name == 'alpha' else self.V('cos_' + t.name)
        if isinstance(t, (int, float)) and t == 0:
            return 1
        raise TypeError('cos() of %r' % (t,))

    @staticmethod
    def deg2rad(x):
        if isinstance(x, AngleTok):
            if x.unit != 'deg':
                raise TypeError('deg2rad of an angle already in radians')
            return AngleTok('rad', x.name)
        return np.deg2rad(x)

    def read_stack_stub(self, stack, plyt=None, laminaprop=None, plyts=None, laminaprops=None, offset=0., **kw):
        """contract stub for composite.laminate.read_stack (C01 decides the real one): returns the symbolic
        laminate registered for this stack object; records the arguments it was called with"""
        self.read_stack_calls.append({'stack': stack, 'offset': offset})
        lam = self.lam_for.get(id(stack))
        if lam is None:
            # laminate of a sub-component built by the package itself (stiffener base / flange): fresh symbolic ABD
            k = len(self.lam_for)
            lam = FakeLam()
            lam.ABD = sym_ABD('L%d_' % k, self.V)
            lam.A = lam.ABD[0:3, 0:3]
            lam.B = lam.ABD[0:3, 3:6]
            lam.D = lam.ABD[3:6, 3:6]
            ts = plyts if plyts else ([plyt for _ in stack] if plyt is not None else [self.V('L%d_t' % k)])
            lam.t = sum(ts)
            lam.h = lam.t
            lam.plies = []
            for q, t in enumerate(ts):
                ply = FakeLam()
                ply.t = t
                ply.QL = np.zeros((5, 5), dtype=object)
                for (i, j) in ((0, 0), (0, 1), (0, 2), (1, 1), (1, 2), (2, 2)):
                    ply.QL[i, j] = ply.QL[j, i] = self.V('L%d_q%d_%d%d' % (k, q, i, j))
                lam.plies.append(ply)
            lam.calc_equivalent_modulus = lambda: None
            self.lam_for[id(stack)] = lam
            self._keep = getattr(self, '_keep', []) + [stack]
        # like the real read_stack, every call returns a NEW laminate object (in-place edits by the caller must not accumulate)
        out = FakeLam()
        for k, v in lam.__dict__.items():
            setattr(out, k, v.copy() if isinstance(v, np.ndarray) else v)
        if hasattr(out, 'ABD') and not (isinstance(offset, (int, float)) and offset == 0) and not (isinstance(offset, Sym) and offset.is_zero()):
            # reference-surface shift (decided for the real read_stack by C01): A' = A, B' = B + d A, D' = D + 2 d B + d^2 A
            A0, B0, D0 = out.ABD[0:3, 0:3].copy(), out.ABD[0:3, 3:6].copy(), out.ABD[3:6, 3:6].copy()
            d_ = Sym.lift(offset)
            for i in range(3):
                for j in range(3):
                    out.ABD[i, 3 + j] = out.ABD[3 + j, i] = B0[i, j] + d_ * A0[i, j]
                    out.ABD[3 + i, 3 + j] = D0[i, j] + 2 * d_ * B0[i, j] + d_ * d_ * A0[i, j]
        if hasattr(out, 'ABD'):
            out.A, out.B, out.D = out.ABD[0:3, 0:3], out.ABD[0:3, 3:6], out.ABD[3:6, 3:6]
        out.offset_passed = offset
        out.offset = offset            # like the real Laminate, which keeps the offset it was built with
        lam.offset_passed = offset
        return out

    def shadow(self, extra_stubs=None, policy=None):
        stubs = {'deg2rad': self.deg2rad, 'compmech.composite.laminate.read_stack': self.read_stack_stub}
        if extra_stubs:
            stubs.update(extra_stubs)
        sh = Shadow(self.kernels, stubs=stubs, policy=policy or self.policy)
        return sh

    def override_sections(self, s):
        """the cone kernels integrate over `s` meridional sections (module constant 41): run at the bound"""
        for rel in ('compmech/panel/models/kpanel_clt_donnell_bardell.pyx', 'compmech/panel/models/kpanel_clt_donnell_bardell_num.pyx'):
            m = self.kernels.get(rel)
            if 's' in m.ns:
                m.ns['s'] = s

    def new_panel(self, model, m, n, prefix='', symbolic_flags=True, w_only=False, F=None, h=None):
        """a real Panel with symbolic geometry, laminate and flags (must be called inside self.shadow())"""
        from compmech.panel import Panel
        stack = [0]
        V = self.V
        p = Panel(a=V(prefix + 'a'), b=V(prefix + 'b'), stack=stack, plyt=1., laminaprop=(1., 1., 1.), m=m, n=n)
        if model in ('cpanel', 'kpanel'):
            p.r = V(prefix + 'r')
        if model == 'kpanel':
            p.alphadeg = AngleTok('deg')
        if model == 'plate_w':
            p.model = 'plate_clt_donnell_bardell_w'
        lam = FakeLam()
        lam.ABD = F if F is not None else sym_ABD(prefix, V)
        if h is None:
            p.plyts = [V(prefix + 't1'), V(prefix + 't2')]
            stack.append(0)
            h = sum(p.plyts)
        else:
            p.plyts = [h]
        p.laminaprops = [(1., 1., 1.) for _ in stack]
        lam.t = h
        lam.h = lam.t
        self.lam_for[id(stack)] = lam
        p._verif_lam = lam
        p.mu = V(prefix + 'mu')
        comps = 'w' if model == 'plate_w' else 'uvw'
        for nm in flag_names('uvw'):
            setattr(p, nm, V(prefix + nm) if symbolic_flags else getattr(p, nm))
        p._verif_comps = comps
        return p


# ---- oracles -------------------------------------------------------------------------------------------
def series_of(p, model, b=None):
    comps = ('w',) if model == 'plate_w' else E.COMPS
    num = 1 if model == 'plate_w' else 3
    return E.Series(p.m, p.n, p.a, b if b is not None else p.b, flags_of(p, comps), num=num, comps=comps)


def _eta(y, b):
    return 2 * Sym.lift(y) / b - Sym.lift(1)


def cone_sections(ctx, p, s):
    """the kernel's own piecewise-constant-radius sections: (xi1, xi2, r_sec, b_sec) computed exactly like the kernel"""
    a, bbot, rbot = p.a, p.b, p.r
    out = []
    for section in range(s):
        x1 = a * Fraction(section, 1) / s
        x2 = a * Fraction(section + 1, 1) / s
        xi1 = 2 * x1 / a - 1
        xi2 = 2 * x2 / a - 1
        r = rbot - ctx.sina * ((x1 + x2) / 2)
        b = r * bbot / rbot
        out.append((xi1, xi2, r, b))
    return out


def strain_weight(F, comps):
    W = E.weight_from_F(F)
    return W


def oracle_k0(ctx, p, model, ylim=None, s=None, kxy_sign=+1):
    """Hessian of the Donnell CLT strain energy of the panel's series: {(r,c): Sym} upper triangle"""
    F = p._verif_lam.ABD
    Fl = [[F[i, j] for j in range(6)] for i in range(6)]
    W = E.weight_from_F(Fl)
    if model in ('plate', 'plate_w'):
        ops = E.donnell_ops('plate')
        if model == 'plate_w':
            ops = {k: {c: t for c, t in v.items() if c == 'w'} for k, v in ops.items()}
        return E.hessian(ctx.atoms, ops, W, series_of(p, model), ylim=ylim)
    if model == 'cpanel':
        return E.hessian(ctx.atoms, E.donnell_ops('cpanel', r=p.r), W, series_of(p, model), ylim=ylim)
    if model == 'kpanel':
        tot = {}
        for (xi1, xi2, r, b) in cone_sections(ctx, p, s):
            ops = cone_ops(r, ctx.sina, ctx.cosa, kxy_sign)
            yl = None
            H = E.hessian(ctx.atoms, ops, W, series_of(p, model, b=b), xlim=(xi1, xi2), ylim=ylim)
            for k, v in H.items():
                tot[k] = tot[k] + v if k in tot else v
        return tot
    raise ValueError(model)


def cone_ops(r, sina, cosa, kxy_sign=+1):
    """Donnell conical shell, x along the meridian from the bottom (larger) radius, r = rbot - sina*x:
       exx = u,x ; eyy = v,y + (sina*u + cosa*w)/r ; gxy = u,y + v,x - sina*v/r
       kxx = -w,xx ; kyy = -w,yy - sina*w,x/r ; kxy = -2 w,xy + kxy_sign*sina*w,y/r
    (operator B0A of the package's own derivation, theory/panel/kpanel_clt_donnell_bardell/*.nb; see DESIGN.md C02)"""
    one = Sym.lift(1)
    return {
        'exx': {'u': [(one, 1, 0)]},
        'eyy': {'v': [(one, 0, 1)], 'u': [(sina / r, 0, 0)], 'w': [(cosa / r, 0, 0)]},
        'gxy': {'u': [(one, 0, 1)], 'v': [(one, 1, 0), (-sina / r, 0, 0)]},
        'kxx': {'w': [(-one, 2, 0)]},
        'kyy': {'w': [(-one, 0, 2), (-sina / r, 1, 0)]},
        'kxy': {'w': [(Sym.lift(-2), 1, 1), (Sym.lift(kxy_sign) * sina / r, 0, 1)]},
    }


SLOPE_OPS = {'WX': {'w': [(Sym.lift(1), 1, 0)]}, 'WY': {'w': [(Sym.lift(1), 0, 1)]}}


def oracle_kG0(ctx, p, model, Nxx, Nyy, Nxy, ylim=None, s=None):
    """Hessian of 1/2 int (Nxx w,x^2 + 2 Nxy w,x w,y + Nyy w,y^2)"""
    W = {('WX', 'WX'): Sym.lift(Nxx), ('WX', 'WY'): Sym.lift(Nxy), ('WY', 'WX'): Sym.lift(Nxy), ('WY', 'WY'): Sym.lift(Nyy)}
    if model == 'kpanel':
        tot = {}
        for (xi1, xi2, r, b) in cone_sections(ctx, p, s):
            H = E.hessian(ctx.atoms, SLOPE_OPS, W, series_of(p, model, b=b), xlim=(xi1, xi2), ylim=ylim)
            for k, v in H.items():
                tot[k] = tot[k] + v if k in tot else v
        return tot
    return E.hessian(ctx.atoms, SLOPE_OPS, W, series_of(p, model), ylim=ylim)


def oracle_kM(ctx, p, model, e, ylim=None, s=None):
    """Hessian of the kinetic energy 1/2 mu int int int [(u - z w,x)^2 + (v - z w,y)^2 + w^2] dz dA with the
    material occupying z in [e - h/2, e + h/2] (e = position of the mid-plane relative to the reference surface)"""
    mu, h = p.mu, p._verif_lam.t
    e = Sym.lift(e)
    mh = mu * h
    rot = mh * (e * e + h * h / 12)
    ops = {'U': {'u': [(Sym.lift(1), 0, 0)]}, 'V': {'v': [(Sym.lift(1), 0, 0)]}, 'W': {'w': [(Sym.lift(1), 0, 0)]},
           'WX': {'w': [(Sym.lift(1), 1, 0)]}, 'WY': {'w': [(Sym.lift(1), 0, 1)]}}
    W = {('U', 'U'): mh, ('V', 'V'): mh, ('W', 'W'): mh, ('WX', 'WX'): rot, ('WY', 'WY'): rot,
         ('U', 'WX'): -mh * e, ('WX', 'U'): -mh * e, ('V', 'WY'): -mh * e, ('WY', 'V'): -mh * e}
    if model == 'plate_w':
        ops = {k: v for k, v in ops.items() if 'w' in v}
        W = {k: v for k, v in W.items() if k[0] in ops and k[1] in ops}
    if model == 'kpanel':
        tot = {}
        for (xi1, xi2, r, b) in cone_sections(ctx, p, s):
            H = E.hessian(ctx.atoms, ops, W, series_of(p, model, b=b), xlim=(xi1, xi2), ylim=ylim)
            for k, v in H.items():
                tot[k] = tot[k] + v if k in tot else v
        return tot
    return E.hessian(ctx.atoms, ops, W, series_of(p, model), ylim=ylim)


def symmetric_completion(H, shift=0):
    out = {}
    for (r, c), v in H.items():
        out[(r + shift, c + shift)] = v
        if r != c:
            out[(c + shift, r + shift)] = v
    return out


def positivity(ctx, p, model):
    cons = []
    for nm in ('a', 'b', 'r'):
        v = getattr(p, nm, None)
        if isinstance(v, Sym) and not v.is_numeric():
            cons.append(v.n > 0)
    return cons


# ---- translator validation: compiled extension vs de-Cythonised twin on concrete inputs -------------------------
def so_is_current(relpyx):
    """True when the shipped .so can be taken to be built from the current .pyx (hash recorded for the pristine
    tree, or .so newer than the source)"""
    import json, os, hashlib, glob
    from .harness import REPO, VERIF
    p = os.path.join(REPO, relpyx)
    sos = glob.glob(p[:-4] + '.*.so')
    if not sos:
        return False
    try:
        rec = json.load(open(os.path.join(VERIF, 'built_hashes.json')))['files']
    except Exception:
        rec = {}
    h = hashlib.sha256(open(p, 'rb').read()).hexdigest()[:16]
    if rec.get(relpyx) == h:
        return True
    return os.path.getmtime(sos[0]) > os.path.getmtime(p)


class _FloatPanel:
    pass


_FloatPanel.__name__ = 'PanelFloat'


def compiled_vs_twin(model, m, n, what='fk0', seed=1, extra_args=()):
    """run compiled <model>.<what>(panel, size, 0, 0) on floats and the twin on the same rationals (exact atoms);
    -> (max relative deviation, n entries) or None when the .so is not current"""
    import importlib, random
    rel = {'plate': 'compmech/panel/models/plate_clt_donnell_bardell.pyx', 'plate_w': 'compmech/panel/models/plate_clt_donnell_bardell_w.pyx',
           'cpanel': 'compmech/panel/models/cpanel_clt_donnell_bardell.pyx'}[model]
    if not so_is_current(rel):
        return None
    rnd = random.Random(seed)
    ctx = PanelCtx(values={}, seed=seed)
    with ctx.shadow():
        p = ctx.new_panel(model, m, n)
    fp = _FloatPanel()
    for k, v in p.__dict__.items():
        if isinstance(v, Sym):
            setattr(fp, k, float(v.n))
        elif isinstance(v, (int, float, str)) or v is None:
            setattr(fp, k, v)
    fp.lam = FakeLam()
    fp.lam.ABD = np.array([[float(x.n) for x in row] for row in p._verif_lam.ABD], dtype=float)
    fp.lam.t = float(p._verif_lam.t.n)
    fp.lam.h = fp.lam.t
    fp.plyts = [float(Sym.lift(t).n) for t in p.plyts]
    p.lam = p._verif_lam
    p.r = p.r if p.r is not None else 0.
    fp.r = float(p.r.n) if isinstance(p.r, Sym) else 0.
    fp.alpharad = 0.
    num = 1 if model == 'plate_w' else 3
    size = num * m * n
    comp = importlib.import_module(rel[:-4].replace('/', '.'))
    args_f = [float(Fraction(a)) for a in extra_args]
    args_q = [Fraction(a) for a in extra_args]
    Kc = getattr(comp, what)(*args_f, fp, size, 0, 0).toarray()
    twin = ctx.kernels.get(rel).ns[what](*args_q, p, size, 0, 0)
    Kt = np.zeros((size, size))
    for (r, c), v in twin.todict().items():
        Kt[r, c] = float(Sym.lift(v).n)
    scale = np.abs(Kc).max() or 1.0
    return float(np.abs(Kc - Kt).max() / scale), int(size * size)
