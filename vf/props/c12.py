"""C12 -- Penalty connection matrices = Hessian of the interface mismatch energy.

E1: fkC{SSxcte,SSycte,BFxcte,BFycte,SB}{11,12,22} de-Cythonised; E4: the real PanelAssembly.get_k0_conn (dispatch, block
placement at the panels' ranges, finalize_symmetric_matrix) and connections.calc_kt_kr; E5: Hessian of
kt/2 int |jump u|^2 + kr/2 int (jump rotation)^2 on the interface, built on the same atoms."""
import json
import numpy as np
import z3
from fractions import Fraction
from ..harness import Run, pmap
from .. import kprop
from ..sym import Sym
from ..shadow import LazyNS
from ..panelsym import PanelCtx, series_of
from ..oracles import penalty as PEN

KERNELS = {'SSycte': 'compmech/panel/connections/kCSSycte.pyx', 'SSxcte': 'compmech/panel/connections/kCSSxcte.pyx',
           'BFycte': 'compmech/panel/connections/kCBFycte.pyx', 'BFxcte': 'compmech/panel/connections/kCBFxcte.pyx',
           'SB': 'compmech/panel/connections/kCSB.pyx'}
KTKR_KIND = {'SSycte': 'ycte', 'SSxcte': 'xcte', 'BFycte': 'ycte', 'BFxcte': 'xcte', 'SB': 'bot-top'}


def conn_stubs(ctx):
    return {'compmech.panel.connections.kC' + k: LazyNS(ctx.kernels, rel) for k, rel in KERNELS.items()}


def mk_panel(ctx, tag, m, n):
    p = ctx.new_panel('plate', m, n, prefix=tag + '_')
    lam = p._verif_lam
    lam.A = lam.ABD[0:3, 0:3]
    lam.D = lam.ABD[3:6, 3:6]
    p.lam = lam
    p._rebuild()
    return p


def build(cfg, values=None):
    kind, variant = cfg['kind'], cfg['variant']
    ctx = PanelCtx(values=values, seed=cfg.get('seed', 0))
    obs = []
    extra = conn_stubs(ctx)
    with ctx.shadow(extra_stubs=extra):
        from compmech.panel.assembly import PanelAssembly
        import compmech.panel.connections as connections
        (m1, n1), (m2, n2) = cfg['mn1'], cfg['mn2']
        p1 = mk_panel(ctx, 'p1', m1, n1)
        p2 = mk_panel(ctx, 'p2', m2, n2)
        if variant == 'ktkr':
            # symmetric in the two panels; homogeneous of degree 1 in the moduli
            kk = KTKR_KIND[kind]
            swapped = {'xcte': 'xcte', 'ycte': 'ycte', 'bot-top': 'bot-top', 'xcte-ycte': 'ycte-xcte', 'ycte-xcte': 'xcte-ycte'}
            for kk in ('xcte', 'ycte', 'xcte-ycte', 'ycte-xcte', 'bot-top'):
                if kk == 'bot-top':
                    # face-to-face panels share one domain: both panels a x b, concrete order a < b (then b < a)
                    for (aa, bb) in ((Fraction(3, 2), Fraction(5, 2)), (Fraction(7, 3), Fraction(4, 3))):
                        p1.a = p2.a = Sym(aa)
                        p1.b = p2.b = Sym(bb)
                        k12 = connections.calc_kt_kr(p1, p2, kk)
                        k21 = connections.calc_kt_kr(p2, p1, swapped[kk])
                        obs.append(('ktkr-symmetric[%s,kt,a%s]' % (kk, aa), k12[0], k21[0]))
                    continue
                k12 = connections.calc_kt_kr(p1, p2, kk)
                k21 = connections.calc_kt_kr(p2, p1, swapped[kk])
                obs.append(('ktkr-symmetric[%s,kt]' % kk, k12[0], k21[0]))
                obs.append(('ktkr-symmetric[%s,kr]' % kk, k12[1], k21[1]))
                # scale every modulus (A, D) of both laminates by e: constants scale by e
                e = ctx.V('escale')
                A1, D1, A2, D2 = p1.lam.A, p1.lam.D, p2.lam.A, p2.lam.D
                try:
                    p1.lam.A, p1.lam.D, p2.lam.A, p2.lam.D = A1 * e, D1 * e, A2 * e, D2 * e
                    ke = connections.calc_kt_kr(p1, p2, kk)
                finally:
                    p1.lam.A, p1.lam.D, p2.lam.A, p2.lam.D = A1, D1, A2, D2
                obs.append(('ktkr-homogeneous[%s,kt]' % kk, ke[0], e * k12[0]))
                obs.append(('ktkr-homogeneous[%s,kr]' % kk, ke[1], e * k12[1]))
            assumptions = []
            return obs, assumptions, {'values': {k: str(v) for k, v in ctx.used_values.items()}, 'stats': {}}
        # geometry shared along the interface
        if kind in ('SSycte', 'BFycte'):
            p2.a = p1.a
        elif kind in ('SSxcte', 'BFxcte'):
            p2.b = p1.b
        else:
            # calc_kt_kr('bot-top') takes min(p1.a, p1.b): concrete domain (two aspect ratios by configuration)
            aa, bb = cfg.get('ab', (Fraction(3, 2), Fraction(5, 2)))
            p1.a, p1.b = Sym(Fraction(aa)), Sym(Fraction(bb))
            p2.a, p2.b = p1.a, p1.b
        order = cfg.get('order', 'p1-first')
        panels = [p1, p2] if order == 'p1-first' else [p2, p1]
        third = None
        if cfg.get('third'):
            third = mk_panel(ctx, 'p3', 1, 2)
            third.a = p1.a if kind in ('SSycte', 'BFycte') else third.a
            third.b = p1.b if kind in ('SSxcte', 'BFxcte') else third.b
            panels = panels + [third]
        conn = {'p1': p1, 'p2': p2, 'func': kind}
        c1, c2 = ctx.V('cte1'), ctx.V('cte2')
        if kind in ('SSycte', 'BFycte'):
            conn['ycte1'], conn['ycte2'] = c1, c2
            fixed = {1: 2 * c1 / p1.b - 1, 2: 2 * c2 / p2.b - 1}
        elif kind in ('SSxcte', 'BFxcte'):
            conn['xcte1'], conn['xcte2'] = c1, c2
            fixed = {1: 2 * c1 / p1.a - 1, 2: 2 * c2 / p2.a - 1}
        else:
            fixed = {1: None, 2: None}
        conns = [conn]
        if third is not None:
            conn2 = dict(conn, p1=p2, p2=third)
            conns.append(conn2)
        asm = PanelAssembly(panels, conns)
        K = asm.get_k0_conn().todict()
        size = asm.get_size()
        if size != sum(3 * p.m * p.n for p in panels):
            obs.append(('size', Sym.lift(size), Sym.lift(sum(3 * p.m * p.n for p in panels))))
        H = {}
        for cn in conns:
            q1, q2 = cn['p1'], cn['p2']
            kt, kr = connections.calc_kt_kr(q1, q2, KTKR_KIND[kind])
            dsb = (sum(q1.plyts) / 2 + sum(q2.plyts) / 2) if kind == 'SB' else None
            ikind, terms = PEN.jumps(kind, kt, kr, dsb)
            S = {1: series_of(q1, 'plate'), 2: series_of(q2, 'plate')}
            if kind in ('SSycte', 'BFycte'):
                fx = {1: 2 * cn['ycte1'] / q1.b - 1, 2: 2 * cn['ycte2'] / q2.b - 1}
            elif kind in ('SSxcte', 'BFxcte'):
                fx = {1: 2 * cn['xcte1'] / q1.a - 1, 2: 2 * cn['xcte2'] / q2.a - 1}
            else:
                fx = fixed
            Hc = PEN.hessian(ctx.atoms, ikind, terms, S, fx, q1.a, q1.b)
            pan = {1: q1, 2: q2}
            for ((pa, da), (pb, db)), v in Hc.items():
                key = (pan[pa].row_start + da, pan[pb].col_start + db)
                H[key] = H[key] + v if key in H else v
        blk = {}
        for p_ in panels:
            for r in range(p_.row_start, p_.row_end):
                blk[r] = 'p1' if p_ is p1 else ('p2' if p_ is p2 else 'p3')
        for k in sorted(set(H) | set(K)):
            fam = 'kC-%s%s' % tuple(sorted((blk[k[0]], blk[k[1]])))
            obs.append(('%s[%d,%d]' % (fam, k[0], k[1]), K.get(k, 0), H.get(k, 0)))
    assumptions = []
    if values is None:
        for nm in ('p1_a', 'p1_b', 'p2_a', 'p2_b'):
            assumptions.append(z3.Real(nm) > 0)
    info = {'atoms': len(ctx.atoms.table), 'stats': {k: v.stats.as_dict() for k, v in ctx.kernels.mods.items()},
            'values': {k: str(v) for k, v in ctx.used_values.items()}}
    return obs, assumptions, info


def configs(tier, seed):
    out = []
    quick = tier == 'quick'
    for kind in KERNELS:
        # (five terms along one direction: one more than the four boundary functions, on either panel and in either direction)
        sizes = [((2, 2), (1, 2)), ((1, 2), (2, 1)), ((4, 1), (1, 4)), ((1, 4), (4, 1)), ((1, 5), (1, 1)), ((1, 1), (1, 5)), ((5, 1), (1, 1)), ((1, 1), (5, 1))] if quick else [((2, 2), (1, 2)), ((1, 2), (2, 1)), ((3, 2), (2, 3)), ((2, 3), (3, 3)), ((4, 1), (1, 4)), ((5, 4), (4, 5)), ((6, 2), (3, 6))]
        for mn1, mn2 in sizes:
            for order in ('p1-first', 'p2-first'):
                out.append({'kind': kind, 'variant': 'matrix', 'mn1': mn1, 'mn2': mn2, 'order': order, 'm': mn1[0], 'n': mn1[1],
                            'group': 'k0_conn:%s:%s' % (kind, order), 'ab': ('3/2', '5/2') if mn1[0] >= mn1[1] else ('7/3', '4/3')})
        if kind != 'SB':
            out.append({'kind': kind, 'variant': 'matrix', 'mn1': (1, 2), 'mn2': (2, 1), 'order': 'p1-first', 'third': True, 'm': 1, 'n': 2,
                        'group': 'k0_conn-two-connections:%s' % kind})
    out.append({'kind': 'SSycte', 'variant': 'ktkr', 'mn1': (1, 1), 'mn2': (1, 1), 'm': 1, 'n': 1, 'group': 'calc_kt_kr'})
    out[0]['canary'] = True
    out[5]['canary'] = True
    out[-2]['canary'] = True
    return out


def main():
    run = Run('C12', 'other', explanation=(
        'Bounded symbolic verification: PanelAssembly.get_k0_conn (real Python) over the de-Cythonised connection kernels for the '
        'five connection kinds, panels of different size / series orders / flags / laminates, both orders of the two panels in the '
        'global vector, interface positions symbolic, and an assembly with two connections; every entry of the assembled matrix is '
        'proved (z3 qfnra-nlsat) equal to the Hessian of the interface mismatch energy with the constants of calc_kt_kr for the '
        'panels actually joined; calc_kt_kr symmetric in the panels and homogeneous of degree 1 in the moduli.'))
    for k, rel in KERNELS.items():
        run.encoded(rel, 'fkC%s11, fkC%s12, fkC%s22' % (k, k, k))
    run.encoded('compmech/panel/assembly/assembly.py', 'PanelAssembly.__init__, get_size, get_k0_conn')
    run.encoded('compmech/panel/connections/penalty_constants.py', 'calc_kt_kr')
    cf = configs(run.tier, run.seed)
    run.bounds = {'series_orders': sorted({(c['mn1'], c['mn2']) for c in cf}), 'configurations': len(cf), 'kinds': sorted(KERNELS)}
    run.assume('panels share the interface length (a for ycte kinds, b for xcte kinds, a and b for SB) as the kernels assume',
               'tables = exact integrals / Bardell functions (C10)', 'PSD and zero energy for continuous fields are corollaries of the squared-jump form',
               'bot-top constants compared for panels sharing one domain (face-to-face), concrete a<b and a>b')
    run.outside = ['orders above the bound', 'kCLTxycte (not importable: commented out in connections/__init__.py)']
    res = pmap(kprop.job, [(__name__, c) for c in cf])
    res = kprop.explore_loci(__name__, res, run, max_new=96, per_config=True)   # every size of a group on every locus: a branch may need a fifth term on one particular side      # second pass: the equality loci the executed code branched on
    kprop.handle(run, res, build, 'connection matrix entries differ from the mismatch-energy Hessian')
    return run.finish()


def replay(path):
    d = json.load(open(path))
    cfg = d['replay']['cfg']
    bad, info = kprop.concrete_replay(build, cfg, d['replay'].get('inputs', {}))
    print('replay %s: %d differing entries' % (cfg, len(bad)))
    for b in bad[:10]:
        print('  %s impl=%r oracle=%r' % b)
    return 1 if bad else 0
