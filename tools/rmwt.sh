#!/bin/bash
for D in "$@"; do git -C /repo worktree remove --force "$D" 2>/dev/null || rm -rf "$D"; done
git -C /repo worktree prune
