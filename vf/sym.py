"""Sym: exact rational-function scalar whose numerator is a z3 real polynomial term and whose
denominator is a monomial of *atoms* -- no division ever reaches the solver.

    value = n / prod(atom**p for atom, p in d)

`n` is either a python Fraction (purely numeric) or a z3 ArithRef (Real sort).
Atoms are z3 real terms (constants such as `a`, `b`, `r`, or opaque sums the code divides by);
dividing by something assumes it is non-zero: every atom that ever entered a denominator is
recorded in Sym.DENOMS so that the harness can list the assumption in evidence.
"""
from fractions import Fraction
import z3

_Q = z3.Q
_RealVal = z3.RealVal


class SymBranch(Exception):
    """control flow of the executed code depends on a symbolic value and no policy is installed"""


def qv(f):
    f = Fraction(f)
    return _Q(f.numerator, f.denominator) if f.denominator != 1 else _RealVal(f.numerator)


def snap_float(x):
    """a double met in the executed Python code -> exact rational: the unique p/q (q <= 10^4) whose nearest double it is
    (within relative 2^-50), else the double's exact binary value.  Snaps are recorded (Sym.SNAPS) for evidence."""
    f = Fraction(x)
    if f.denominator <= 4096:
        return f
    cand = f.limit_denominator(10 ** 4)
    if cand != 0 and abs(cand - f) <= abs(f) * Fraction(1, 2 ** 50):
        Sym.SNAPS[repr(x)] = str(cand)
        return cand
    return f


def _is_num(x):
    return isinstance(x, Fraction)


class Sym:
    __slots__ = ('n', 'd')
    ATOMS = {}      # z3 ast id -> z3 term
    DENOMS = {}     # z3 ast id -> z3 term (everything that was divided by)
    POLICY = None   # callable(kind, lhs, rhs) -> bool for ==, !=, <, ... on symbolic values (E4 runs)
    FORK = None     # ordering comparisons the policy declines (SymBranch): decided by this controller, one run per outcome (kprop.job)
    SQRT_HOOK = None   # callable(Sym) -> Sym for x ** 0.5 (harness supplies an atom q with q*q == x, q > 0)
    SNAPS = {}      # float -> 'p/q': binary doubles of the executed Python code (e.g. 1/3.) read as the rational they round
    ALIAS = {}      # equality locus under exploration: {symbol name: other symbol name | 'p/q'} (see kprop.explore_loci)
    EQ_EVENTS = []  # ==/!= between symbolic values met by the executed code: (lhs, rhs, where) with lhs/rhs ('var', name) | ('num', 'p/q') | None

    def __init__(self, n, d=None):
        self.n = n
        self.d = d if d else {}

    # ---- construction -------------------------------------------------------------------
    @staticmethod
    def var(name):
        return Sym(z3.Real(name))

    @staticmethod
    def resolve(name):
        """name of the symbol standing for `name` on the equality locus under exploration, or the Fraction it is pinned to"""
        seen = 0
        while name in Sym.ALIAS and seen < 8:
            to = Sym.ALIAS[name]
            seen += 1
            if isinstance(to, str) and to.startswith('lin:'):
                return ('lin',) + Sym.parse_lin(to)
            try:
                return Fraction(to)
            except (ValueError, ZeroDivisionError):
                name = to
        return name

    @staticmethod
    def parse_lin(to):
        """'lin:c*name;c*name|const' -> ([(Fraction, name), ...], Fraction)"""
        body, const = to[4:].split('|')
        return [(Fraction(t.split('*', 1)[0]), t.split('*', 1)[1]) for t in body.split(';') if t], Fraction(const)

    @staticmethod
    def format_lin(terms, const):
        return 'lin:' + ';'.join('%s*%s' % (c, n) for n, c in sorted(terms.items()) if c != 0) + '|' + str(Fraction(const))

    @staticmethod
    def lin_value(res, V):
        """value of an input pinned to a linear combination of other inputs (res = Sym.resolve(name) = ('lin', terms, const))"""
        out = Sym(Fraction(res[2]))
        for c, n in res[1]:
            out = out + V(n) * c
        return out

    def _linear(self, raw=False, pi_numeric=False):
        """numerator as a linear form over input symbols ({name: Fraction}, Fraction) or None"""
        if self.d or _is_num(self.n):
            return None

        def rec(t):
            if z3.is_rational_value(t):
                return {}, Fraction(t.numerator_as_long(), t.denominator_as_long())
            if z3.is_int_value(t):
                return {}, Fraction(t.as_long())
            if z3.is_const(t) and t.decl().kind() == z3.Z3_OP_UNINTERPRETED:
                nm = t.decl().name()
                if pi_numeric and nm == 'pi':
                    # only to NAME a locus (f*pi/180 == g*pi/180 is f == g): a wrongly named locus is a harmless extra run
                    return {}, Fraction(355, 113)
                if '#' in nm or '!' in nm:
                    raise ValueError
                return {nm: Fraction(1)}, Fraction(0)
            if z3.is_add(t) or z3.is_sub(t):
                terms, const = {}, Fraction(0)
                for i, c in enumerate(t.children()):
                    tt, cc = rec(c)
                    sg = -1 if (z3.is_sub(t) and i > 0) else 1
                    const += sg * cc
                    for k, v in tt.items():
                        terms[k] = terms.get(k, 0) + sg * v
                return terms, const
            if z3.is_app_of(t, z3.Z3_OP_UMINUS):
                tt, cc = rec(t.arg(0))
                return {k: -v for k, v in tt.items()}, -cc
            if z3.is_mul(t):
                parts = [rec(c) for c in t.children()]
                nonconst = [p_ for p_ in parts if p_[0]]
                if len(nonconst) > 1:
                    raise ValueError
                k = Fraction(1)
                for p_ in parts:
                    if not p_[0]:
                        k *= p_[1]
                if not nonconst:
                    return {}, k
                return {n: v * k for n, v in nonconst[0][0].items()}, nonconst[0][1] * k
            raise ValueError
        try:
            terms, const = rec(self.n)
        except (ValueError, Exception):
            return None
        terms = {k: v for k, v in terms.items() if v != 0}
        if raw:
            return terms, const
        return (terms, const) if len(terms) >= 2 or (terms and const != 0) else None

    def describe(self):
        if self.is_numeric():
            return ('num', str(self.n))
        if not self.d and z3.is_const(self.n) and self.n.decl().kind() == z3.Z3_OP_UNINTERPRETED:
            return ('var', self.n.decl().name())
        lin = self._linear()
        if lin is not None:
            return ('lin', Sym.format_lin(*lin))
        # a product of symbols (possibly over symbols): it vanishes exactly where one of its numerator factors does
        try:
            coeff, atoms = self._as_atoms()
        except Exception:
            return None
        names = []
        for k in atoms:
            t = Sym.ATOMS[k]
            if not (z3.is_const(t) and t.decl().kind() == z3.Z3_OP_UNINTERPRETED):
                return None
            names.append(t.decl().name())
        if names and coeff != 0:
            return ('prod', ','.join(sorted(set(names))))
        return None

    @staticmethod
    def lift(x):
        if isinstance(x, Sym):
            return x
        if isinstance(x, bool):
            return Sym(Fraction(int(x)))
        if isinstance(x, int):
            return Sym(Fraction(x))
        if isinstance(x, Fraction):
            return Sym(x)
        if isinstance(x, float):
            if x != x or x in (float('inf'), float('-inf')):
                raise ValueError('non-finite float in symbolic arithmetic')
            return Sym(snap_float(x))
        if isinstance(x, z3.ArithRef):
            return Sym(x)
        try:
            import numpy as np
            if isinstance(x, np.integer):
                return Sym(Fraction(int(x)))
            if isinstance(x, np.floating):
                return Sym(snap_float(float(x)))
            if isinstance(x, np.bool_):
                return Sym(Fraction(int(x)))
        except ImportError:
            pass
        raise TypeError('cannot lift %r to Sym' % type(x))

    # ---- helpers ------------------------------------------------------------------------
    @staticmethod
    def _lcm(d1, d2):
        out = dict(d1)
        for k, p in d2.items():
            if out.get(k, 0) < p:
                out[k] = p
        return out

    @staticmethod
    def _mono(d):
        t = None
        for k, p in d.items():
            a = Sym.ATOMS[k]
            for _ in range(p):
                t = a if t is None else t * a
        return t

    @staticmethod
    def _z(n):
        return qv(n) if _is_num(n) else n

    @staticmethod
    def _scale(n, dfrom, dto):
        diff = {k: p - dfrom.get(k, 0) for k, p in dto.items() if p - dfrom.get(k, 0) > 0}
        if not diff:
            return n
        m = Sym._mono(diff)
        if _is_num(n):
            if n == 0:
                return n
            if n == 1:
                return m
            return qv(n) * m
        return n * m

    @staticmethod
    def _mul(x, y):
        if _is_num(x):
            if _is_num(y):
                return x * y
            if x == 0:
                return x
            if x == 1:
                return y
            return qv(x) * y
        if _is_num(y):
            if y == 0:
                return y
            if y == 1:
                return x
            return x * qv(y)
        return x * y

    @staticmethod
    def _add(x, y):
        if _is_num(x):
            if _is_num(y):
                return x + y
            if x == 0:
                return y
            return qv(x) + y
        if _is_num(y):
            if y == 0:
                return x
            return x + qv(y)
        return x + y

    def is_numeric(self):
        return _is_num(self.n) and not self.d

    def is_zero(self):
        return _is_num(self.n) and self.n == 0

    # ---- arithmetic ---------------------------------------------------------------------
    def __add__(self, o):
        try:
            o = Sym.lift(o)
        except TypeError:
            return NotImplemented
        if o.is_zero():
            return self
        if self.is_zero():
            return o
        if self.d == o.d:
            return Sym(Sym._add(self.n, o.n), self.d)
        L = Sym._lcm(self.d, o.d)
        return Sym(Sym._add(Sym._scale(self.n, self.d, L), Sym._scale(o.n, o.d, L)), L)
    __radd__ = __add__

    def __neg__(self):
        return Sym(-self.n, self.d)

    def __pos__(self):
        return self

    def __sub__(self, o):
        try:
            o = Sym.lift(o)
        except TypeError:
            return NotImplemented
        return self + (-o)

    def __rsub__(self, o):
        try:
            o = Sym.lift(o)
        except TypeError:
            return NotImplemented
        return o + (-self)

    def __mul__(self, o):
        if isinstance(o, complex):
            return CSym(self * o.real, self * o.imag)
        try:
            o = Sym.lift(o)
        except TypeError:
            return NotImplemented
        if self.is_zero() or o.is_zero():
            return Sym(Fraction(0))
        if not o.d:
            d = self.d
        elif not self.d:
            d = o.d
        else:
            d = dict(self.d)
            for k, p in o.d.items():
                d[k] = d.get(k, 0) + p
        return Sym(Sym._mul(self.n, o.n), d)
    __rmul__ = __mul__

    def _as_atoms(self):
        """numerator as (Fraction coeff, {atom id: power}); anything that is not a product of
        numbers is taken as ONE opaque atom"""
        if _is_num(self.n):
            return self.n, {}
        coeff = [Fraction(1)]
        atoms = {}

        def rec(t):
            if z3.is_rational_value(t) or z3.is_int_value(t):
                coeff[0] *= Fraction(t.numerator_as_long(), t.denominator_as_long()) if z3.is_rational_value(t) else Fraction(t.as_long())
            elif z3.is_mul(t):
                for c in t.children():
                    rec(c)
            elif z3.is_app_of(t, z3.Z3_OP_UMINUS):
                coeff[0] *= -1
                rec(t.arg(0))
            else:
                k = t.get_id()
                Sym.ATOMS[k] = t
                atoms[k] = atoms.get(k, 0) + 1
        rec(self.n)
        return coeff[0], atoms

    def __truediv__(self, o):
        try:
            o = Sym.lift(o)
        except TypeError:
            return NotImplemented
        coeff, atoms = o._as_atoms()
        if coeff == 0:
            raise ZeroDivisionError('symbolic division by literal zero')
        d = dict(self.d)
        for k, p in atoms.items():
            d[k] = d.get(k, 0) + p
            Sym.DENOMS[k] = Sym.ATOMS[k]
        if self.is_zero():
            return Sym(Fraction(0))     # 0 / (non-zero atoms): stays the number zero (sin(pi*0*x/L) must be sin(0))
        n = Sym._mul(self.n, Fraction(1) / coeff)
        if o.d:
            n = Sym._mul(n, Sym._mono(o.d))
            # cancel common atoms between the new numerator monomial and denominator where trivial
        return Sym(n, d)

    def __rtruediv__(self, o):
        try:
            o = Sym.lift(o)
        except TypeError:
            return NotImplemented
        return o / self

    SIDE = []       # side conditions of fresh symbols introduced for non-polynomial operations (q*q == x, q >= 0), added to the job's assumptions

    def __pow__(self, k):
        if isinstance(k, float) and k == 0.5:
            return self.sqrt()
        if isinstance(k, Sym) and k.is_numeric():
            k = k.n
        if isinstance(k, float) and k == int(k):
            k = int(k)
        if isinstance(k, Fraction) and k.denominator == 1:
            k = int(k)
        if isinstance(k, (float, Fraction)) and Fraction(k) == Fraction(1, 2) and Sym.SQRT_HOOK is not None:
            return Sym.SQRT_HOOK(self)
        if not isinstance(k, int):
            raise TypeError('Sym ** non-integer')
        if k < 0:
            return Sym.lift(1) / (self ** (-k))
        r = Sym(Fraction(1))
        for _ in range(k):
            r = r * self
        return r

    # ---- comparisons (only meaningful for numeric values, or through an installed policy) ----
    def _cmp(self, o, kind):
        try:
            o = Sym.lift(o)
        except TypeError:
            return NotImplemented
        if self.is_numeric() and o.is_numeric():
            a, b = self.n, o.n
            return {'eq': a == b, 'ne': a != b, 'lt': a < b, 'le': a <= b, 'gt': a > b, 'ge': a >= b}[kind]
        if kind in ('eq', 'ne') and self.same(o):
            return kind == 'eq'
        if kind in ('eq', 'ne') and Sym.ALIAS and not self.d and not o.d:
            # on an equality locus an input may stand for a combination of others: a difference that cancels identically is an equality
            try:
                lf = (self - o)._linear(raw=True)
            except Exception:
                lf = None
            if lf is not None and not lf[0]:
                return (lf[1] == 0) == (kind == 'eq')
        if kind in ('eq', 'ne'):
            ev = (self.describe(), o.describe())
            kinds = (ev[0][0] if ev[0] else None, ev[1][0] if ev[1] else None)
            direct = (kinds[0] in ('var', 'num') and kinds[1] in ('var', 'num')) or 'lin' in kinds or (
                set(kinds) == {'prod', 'num'} and (ev[0] if kinds[0] == 'num' else ev[1])[1] == '0')
            if not direct:
                # a quotient / compound expression compared with something: the locus is where the numerator of the difference vanishes;
                # when that numerator is linear in the inputs (xi = 2*x/a - 1 == -1  <=>  x == 0) it can be imposed like any other
                try:
                    lf = Sym((self - o).n)._linear(raw=True, pi_numeric=True)
                except Exception:
                    lf = None
                if lf is not None and lf[0]:
                    if len(lf[0]) == 1:
                        (nm, cf), = lf[0].items()
                        ev = (('var', nm), ('num', str(-lf[1] / cf)))
                    else:
                        ev = (('lin', Sym.format_lin(*lf)), ('num', '0'))
            if not any(e[0] == ev[0] and e[1] == ev[1] for e in Sym.EQ_EVENTS) and len(Sym.EQ_EVENTS) < 200:
                import traceback
                fr = [f for f in traceback.extract_stack(limit=12) if '/compmech/' in f.filename]
                Sym.EQ_EVENTS.append((ev[0], ev[1], ('%s:%d' % (fr[-1].filename.split('/compmech/', 1)[-1], fr[-1].lineno)) if fr else '?'))
        if Sym.POLICY is not None:
            try:
                return Sym.POLICY(kind, self, o)
            except SymBranch:
                if Sym.FORK is not None and kind in ('lt', 'le', 'gt', 'ge'):
                    return Sym.FORK.decide(kind, self, o)
                raise
        if kind in ('eq', 'ne'):
            # no policy installed (kernels executed directly): a symbolic value is generic; the comparison is recorded above and its
            # locus explored by the second pass
            return kind == 'ne'
        if Sym.FORK is not None:
            return Sym.FORK.decide(kind, self, o)
        raise SymBranch('%s on symbolic values' % kind)

    def same(self, o):
        if self.d != o.d:
            return False
        if _is_num(self.n) or _is_num(o.n):
            return _is_num(self.n) and _is_num(o.n) and self.n == o.n
        return self.n.get_id() == o.n.get_id()

    def __eq__(self, o): return self._cmp(o, 'eq')
    def __ne__(self, o): return self._cmp(o, 'ne')
    def __lt__(self, o): return self._cmp(o, 'lt')
    def __le__(self, o): return self._cmp(o, 'le')
    def __gt__(self, o): return self._cmp(o, 'gt')
    def __ge__(self, o): return self._cmp(o, 'ge')

    def __hash__(self):
        # floats are hashable, so package code may use coordinates as dictionary keys: a numeric Sym hashes like its number,
        # a symbolic one by its term (two structurally identical terms compare equal via same())
        if self.is_numeric():
            return hash(self.n)
        return hash(('sym', self.n if _is_num(self.n) else self.n.get_id(), tuple(sorted(self.d.items()))))

    def __bool__(self):
        r = self._cmp(0, 'ne')
        return bool(r)

    def __float__(self):
        if self.is_numeric():
            return float(self.n)
        raise TypeError('float() of a symbolic value')

    def __int__(self):
        if self.is_numeric() and self.n.denominator == 1:
            return int(self.n)
        raise TypeError('int() of a symbolic value')

    def __abs__(self):
        if self.is_numeric():
            return Sym(abs(self.n))
        if Sym.POLICY is not None:
            return self if self._cmp(0, 'ge') else -self
        raise SymBranch('abs of symbolic value')

    def __format__(self, spec): return '<sym>'
    def __repr__(self):
        if self.is_numeric():
            return 'Sym(%s)' % self.n
        return 'Sym(<%s>/%d atoms)' % (str(self.n)[:60], len(self.d))

    def sqrt(self):
        if self.is_numeric():
            import math
            from fractions import Fraction as _F
            r = _F(math.isqrt(self.n.numerator), 1) / _F(math.isqrt(self.n.denominator), 1) if self.n >= 0 else None
            if r is not None and r * r == self.n:
                return Sym(r)
            return Sym(snap_float(float(self.n) ** 0.5))
        if Sym.SQRT_HOOK is None:
            # a fresh non-negative symbol q with q*q == x (side conditions collected for the solver)
            # (the defining equation q*q == x is NOT handed to the solver: nlsat does not honour its time limit on such systems;
            #  q is an arbitrary non-negative value -- an over-approximation, any counter-model is checked by the exact replay)
            q = fresh('sqrt')
            Sym.SIDE.append(q.n >= 0)
            return q
        return Sym.SQRT_HOOK(self)

    RINT_HOOK = None

    def rint(self):
        # np.round(x, d) on object arrays is rint(x * 10^d) / 10^d; a check that cares about ties at the rounding resolution installs a
        # hook (C06: a fresh integer within 1/2 of the argument); otherwise rounding is the identity
        if Sym.RINT_HOOK is not None:
            return Sym.RINT_HOOK(self)
        return self

    def __round__(self, n=None):
        return self

    @property
    def real(self):
        return self

    @property
    def imag(self):
        return Sym(Fraction(0))

    # numpy object-array ufunc hooks
    def conjugate(self): return self
    def isnan(self): return False
    def isinf(self): return False

    # ---- to solver ------------------------------------------------------------------------
    def num_over(self, D):
        """numerator as z3 term after scaling to common denominator monomial D"""
        return Sym._z(Sym._scale(self.n, self.d, D))


class CSym:
    """re + i*im with Sym parts (only what calc_cA needs)"""
    __slots__ = ('re', 'im')

    def __init__(self, re, im):
        self.re, self.im = Sym.lift(re), Sym.lift(im)

    @staticmethod
    def lift(x):
        if isinstance(x, CSym):
            return x
        if isinstance(x, complex):
            return CSym(x.real, x.imag)
        return CSym(x, 0)

    def __add__(self, o):
        o = CSym.lift(o)
        return CSym(self.re + o.re, self.im + o.im)
    __radd__ = __add__

    def __neg__(self): return CSym(-self.re, -self.im)
    def __sub__(self, o): return self + (-CSym.lift(o))
    def __rsub__(self, o): return CSym.lift(o) + (-self)

    def __mul__(self, o):
        o = CSym.lift(o)
        return CSym(self.re * o.re - self.im * o.im, self.re * o.im + self.im * o.re)
    __rmul__ = __mul__

    def is_zero(self): return self.re.is_zero() and self.im.is_zero()
    def isnan(self): return False
    def isinf(self): return False
    def conjugate(self): return CSym(self.re, -self.im)
    def __repr__(self): return 'CSym(%r, %r)' % (self.re, self.im)


def identity_terms(x, y):
    """(L, R): z3 terms with all denominators cleared such that x == y  <=>  L == R
    (under the recorded assumption that every denominator atom is non-zero)"""
    x = Sym.lift(x)
    y = Sym.lift(y)
    D = Sym._lcm(x.d, y.d)
    return x.num_over(D), y.num_over(D)


def fresh(prefix, _c=[0]):
    _c[0] += 1
    return Sym(z3.Real('%s!%d' % (prefix, _c[0])))


def reset():
    Sym.ATOMS.clear()
    Sym.DENOMS.clear()
    del Sym.EQ_EVENTS[:]
    del Sym.SIDE[:]
