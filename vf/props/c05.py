"""C05 -- Buckling solver wrapper: true eigenpairs, bookkeeping of null amplitudes, ordering.

E4: compmech.analysis.lb and Panel.lb run unchanged over symbolic matrices (entries symbolic on a chosen active set, null
rows/columns elsewhere) with contract stubs for ARPACK/LAPACK (vf/eigstubs.py).  Under the stub contract
KG_p v = mu K_p v (on the matrices the wrapper actually passed) z3 proves for every returned pair:
(K + lambda KG) v = 0 on the full size, v = 0 on null amplitudes, lambda*mu = -1 with the SAME column; with the
ascending-negative-mu contract the returned multipliers are positive and ascending.  An exception on an admissible
input is a violation (replayed on the real function with floats)."""
import json, itertools, traceback
import numpy as np
import z3
from fractions import Fraction
from ..harness import Run, pmap, decide_job
from ..sym import Sym, reset, identity_terms
from ..shadow import Shadow, GenericPolicy, ShimCSR
from ..eigstubs import EigWorld, sym_matrix, dense_of
from .. import forksym as FS


def build_panel_state(cfg, values=None):
    """Panel.lb in its state-based form (stiffness at a state ckL, geometric stiffness at a state c, per-point laminate table): the
    matrices handed to the solver are Panel.calc_k0(c=ckL, nx, ny, Fnxny) and Panel.calc_kG0(c=c, nx, ny, Fnxny) for the SAME
    arguments, computed here by separate calls on a twin panel"""
    from ..panelsym import PanelCtx
    ctx = PanelCtx(values=values, seed=cfg.get('seed', 0))
    model, m, n, nx, ny = cfg['model'], cfg['m'], cfg['n'], cfg['nx'], cfg['ny']
    W = EigWorld(ctx.V, recip=True)
    obs = []
    with ctx.shadow(extra_stubs={'compmech.panel._panel.eigsh': W.eigsh}):
        size = 3 * m * n

        def table(p):
            Fn = np.zeros((nx, ny, 6, 6), dtype=object)
            for ix in range(nx):
                for iy in range(ny):
                    for i in range(6):
                        for j in range(i, 6):
                            Fn[ix, iy, i, j] = Fn[ix, iy, j, i] = ctx.V('T%d_%d_%d%d' % (ix, iy, i, j))
                    for (i, j) in ((0, 1), (0, 2), (1, 2)):
                        Fn[ix, iy, j, 3 + i] = Fn[ix, iy, 3 + i, j] = Fn[ix, iy, i, 3 + j]
            return Fn
        ckL = np.array([ctx.V('k%d' % q) for q in range(size)], dtype=object)
        c = np.array([ctx.V('c%d' % q) for q in range(size)], dtype=object)
        p = ctx.new_panel(model, m, n)
        Fn = table(p)
        p.num_eigvalues = 1
        p.nx, p.ny = ny + 1, nx + 2
        p.calc_k0(silent=True)
        p.lb(silent=True, nx=nx, ny=ny, c=c, ckL=ckL, Fnxny=Fn)
        call = W.calls[-1]
        Md, Ad = dense_of(call['M']), dense_of(call['A'])
        q_ = ctx.new_panel(model, m, n)
        q_.calc_k0(silent=True)
        K = dense_of(q_.calc_k0(c=ckL, nx=nx, ny=ny, Fnxny=Fn, silent=True))
        G = dense_of(q_.calc_kG0(c=c, nx=nx, ny=ny, Fnxny=Fn, silent=True))
        for i in range(size):
            for j in range(size):
                obs.append(('solver-stiffness-matrix[%d,%d]' % (i, j), Md[i, j], K[i, j]))
                obs.append(('solver-load-matrix[%d,%d]' % (i, j), Ad[i, j], G[i, j]))
    info = {'values': {k: str(v) for k, v in ctx.used_values.items()}}
    return obs, [], info


def build(cfg, values=None):
    if cfg.get('target') == 'Panel.lb-state-based':
        return build_panel_state(cfg, values)
    if cfg.get('target') == 'ConeCyl.lb-real-linear-matrices':
        return build_conecyl_linear(cfg, values)
    return build_conecyl(cfg, values)


def run_lb(cfg, values=None, ctx=None):
    """-> (obligations, assumptions, info) or raises"""
    import random
    rnd = random.Random(cfg.get('seed', 0))

    def V(name):
        if values is None:
            return Sym.var(name)
        return Sym(Fraction(values[name]) if name in values else Fraction(rnd.randint(-30, 30) or 7, rnd.randint(3, 11)))
    n, active, num, path, target = cfg['n'], cfg['active'], cfg['num'], cfg['path'], cfg['target']
    W = EigWorld(V, fail_first_sparse=(path == 'fallback'), recip=True)
    if ctx is not None:
        # ordering contract of the solver stubs: mu ascending, the first one negative (destabilising reference load)
        def on_fresh(ells):
            # solver contract in terms of l = -1/mu (mu ascending, first one negative): positives ascending first, then negatives ascending
            for i, e in enumerate(ells):
                ctx.assume(e.n != 0)
                if i == 0:
                    ctx.assume(e.n > 0)
                else:
                    a, b = ells[i - 1].n, e.n
                    ctx.assume(z3.Or(z3.And(a > 0, b > 0, a < b), z3.And(a > 0, b < 0), z3.And(a < 0, b < 0, a < b)))
        W.on_fresh = on_fresh
    K = sym_matrix('K', n, active, V)
    KG = sym_matrix('G', n, cfg.get('active_G', active), V)     # active_G: amplitudes with stiffness but no geometric stiffness
    stubs = {'eigsh': W.eigsh, 'eigh': W.eigh, 'scipy.linalg.eigh': W.eigh}
    obs = []
    from ..eigstubs import fork_policy, sym_to_z3
    with Shadow(None, stubs=stubs, policy=(fork_policy if ctx is not None else GenericPolicy())):
        if target == 'analysis.lb':
            from compmech.analysis import lb
            eigvals, eigvecs = lb(K, KG, sparse_solver=(path != 'dense'), silent=True, num_eigvalues=num)
        else:
            from compmech.panel import Panel
            p = Panel(a=1., b=1., stack=[0], plyt=1., laminaprop=(1., 1., 0.3), m=1, n=1)
            p.num_eigvalues = num

            def calc_k0(*a, **k):
                p.k0 = K
                return K

            def calc_kG0(*a, **k):
                p.kG0 = KG
                return KG
            p.calc_k0, p.calc_kG0 = calc_k0, calc_kG0
            p.lb(sparse_solver=(path != 'dense'), silent=True)
            eigvals, eigvecs = p.eigvals, p.eigvecs
    Kd, Gd = dense_of(K), dense_of(KG)
    eigvals = np.asarray(eigvals, dtype=object)
    eigvecs = np.asarray(eigvecs, dtype=object)
    last = W.calls[-1]
    ncols = eigvecs.shape[1] if eigvecs.ndim == 2 else 0
    if eigvecs.ndim != 2 or eigvecs.shape[0] != n:
        obs.append(('eigvecs-rows', Sym.lift(eigvecs.shape[0] if eigvecs.ndim else -1), Sym.lift(n)))
    mus = [pr for pr in W.pairs if pr[0] == len(W.calls) - 1]
    expected_cols = min(num, len(mus))
    if path != 'dense':
        for key, want in (('which', 'SM'), ('sigma', 1.), ('mode', 'cayley')):
            if last.get(key) != want:
                obs.append(('solver-argument-%s' % key, Sym.lift(1), Sym.lift(0)))
    npairs = min(ncols, len(eigvals))
    colmap = {}
    last_rows = list(active) if (path != 'sparse' or len(active) < n) else list(range(n))
    if path == 'sparse':
        last_rows = list(range(n))
    if npairs < min(expected_cols, 1):
        obs.append(('returns-at-least-one-pair', Sym.lift(npairs), Sym.lift(1)))
    for i in range(npairs):
        if i >= len(mus):
            # a column beyond what the solver returned must be a zero column (padding), never garbage
            for r in range(n):
                obs.append(('padding-column-zero[%d,%d]' % (i, r), eigvecs[r, i], 0))
            continue
        # which solver column is this?  (robust to a consistent permutation of values and vectors)
        j = None
        for cand in mus:
            if any(q < len(cand[3]) and eigvecs[r, i] is cand[3][q] for q, r in enumerate(last_rows)):
                j = cand[1]
                mu = cand[2]
                break
        if j is None:
            obs.append(('column-is-a-solver-vector[%d]' % i, Sym.lift(1), Sym.lift(0)))
            continue
        colmap[i] = j
        lam = eigvals[i]
        obs.append(('pairing[%d]' % i, lam * mu, -1))
        v = [eigvecs[r, i] for r in range(n)]
        for r in range(n):
            Kv = sum((Kd[r, j] * v[j] for j in range(n)), Sym.lift(0))
            Gv = sum((Gd[r, j] * v[j] for j in range(n)), Sym.lift(0))
            if r in active or not cfg.get('G_beyond_K'):
                # (a geometric matrix with entries on amplitudes WITHOUT stiffness: the pair is one of the active block, and the
                # residual is claimed on the active rows only -- on the other rows K v = 0 and lambda*KG v cannot vanish in general)
                obs.append(('residual[%d,%d]' % (i, r), mu * Kv, Gv))
            if r not in active:
                obs.append(('zero-on-null-amplitude[%d,%d]' % (i, r), v[r], 0))
    assumptions = {i: W.contracts_by.get((len(W.calls) - 1, colmap.get(i, i)), []) for i in range(npairs)} if values is None else {}
    order_obs = []
    if ctx is not None and npairs >= 1:
        lam = [sym_to_z3(eigvals[i]) for i in range(npairs)]
        if not ctx.implied(lam[0] > 0):
            raise FS.PathViolation('first returned multiplier is not positive although a destabilising mode was returned', {'path': path})
        for i in range(1, npairs):
            if not ctx.implied(z3.Or(lam[i] <= 0, lam[0] <= lam[i])):
                raise FS.PathViolation('first returned multiplier is not the smallest positive one', {'path': path, 'i': i})
        for i in range(1, npairs):
            if not ctx.implied(z3.Or(lam[i] <= 0, lam[i - 1] <= 0, lam[i - 1] <= lam[i])):
                raise FS.PathViolation('positive multipliers are not in ascending order', {'path': path, 'i': i})
    info = {'calls': [{k: v for k, v in c.items() if k not in ('A', 'M')} for c in W.calls], 'ncols': ncols, 'neigvals': len(eigvals)}
    return obs, assumptions, info, order_obs


def build_conecyl(cfg, values=None):
    """ConeCyl.lb (the third copy of the wrapper): with symbolic k0, kG0, kG0_Fc, kG0_P, kG0_T on the object (the routine that
    computes them is C16's subject and is replaced by a no-op) the matrices handed to the solver are those of the documented load
    case, the reported multipliers are -1/mu of the same column, the vectors are padded with zeros on the prescribed amplitudes"""
    from ..conesym import ConeCtx
    ctx = ConeCtx(values=values, seed=cfg.get('seed', 0))
    V = ctx.V
    case = cfg['case']
    W = EigWorld(V, recip=True)
    obs = []
    with ctx.shadow(extra_stubs={'compmech.conecyl.conecyl.eigsh': W.eigsh}):
        cc = ctx.new_cone('clpt_donnell_bc1', 1, 1, 1)
        cc.r2, cc.L, cc.alphadeg = V('r2'), V('L'), V('alphadeg')
        cc.Fc, cc.P, cc.T = V('Fc'), V('P'), V('T')
        cc._rebuild()
        n = cc.get_size()
        mats = {nm: sym_matrix(nm, n, list(range(n)), V) for nm in ('k0', 'kG0', 'kG0_Fc', 'kG0_P', 'kG0_T')}
        for nm, M_ in mats.items():
            setattr(cc, nm, M_)
        class WithGivenMatrices(type(cc)):
            __slots__ = ()

            def _calc_linear_matrices(self, *a, **k):
                return None
        cc.__class__ = WithGivenMatrices
        cc.num_eigvalues = cfg['num']
        cc.lb(combined_load_case=case)
        pos = cc.num0 if hasattr(cc, 'num0') else 3
        D = {nm: dense_of(M_) for nm, M_ in mats.items()}
        fixed, var = {None: (None, 'kG0'), 0: (None, 'kG0'), 1: ('kG0_T', 'kG0_Fc'), 2: ('kG0_P', 'kG0_Fc'), 3: ('kG0_Fc', 'kG0_T')}[case]
        call = W.calls[-1]
        Ad, Md = dense_of(call['A']), dense_of(call['M'])
        if Ad.shape != (n - pos, n - pos):
            obs.append(('solver-matrix-size', Sym.lift(Ad.shape[0]), Sym.lift(n - pos)))
        else:
            for i in range(n - pos):
                for j in range(n - pos):
                    exp_M = D['k0'][pos + i, pos + j] + (D[fixed][pos + i, pos + j] if fixed else 0)
                    obs.append(('solver-stiffness-matrix[%d,%d]' % (i, j), Md[i, j], exp_M))
                    obs.append(('solver-load-matrix[%d,%d]' % (i, j), Ad[i, j], D[var][pos + i, pos + j]))
        eigvals = np.asarray(cc.eigvals, dtype=object)
        eigvecs = np.asarray(cc.eigvecs, dtype=object)
        mus = [pr for pr in W.pairs if pr[0] == len(W.calls) - 1]
        if eigvecs.shape[0] != n:
            obs.append(('eigvecs-rows', Sym.lift(eigvecs.shape[0]), Sym.lift(n)))
        for i in range(min(len(eigvals), len(mus), eigvecs.shape[1] if eigvecs.ndim == 2 else 0)):
            obs.append(('pairing[%d]' % i, eigvals[i] * mus[i][2], -1))
            for r in range(n):
                obs.append(('vector[%d,%d]' % (i, r), eigvecs[r, i], mus[i][3][r - pos] if r >= pos else 0))
    info = {'values': {k: str(v) for k, v in ctx.used_values.items()}}
    return obs, [], info


def build_conecyl_linear(cfg, values=None):
    """ConeCyl.lb with the REAL _calc_linear_matrices (conecyl.py): the kernels are contract stubs, k0 = a symbolic matrix and
    kG0(Fc, P, T) = Fc*G1 + P*G2 + T*G3 with symbolic G1, G2, G3 (linearity in the loads is C16's subject).  The pencil handed to the
    solver must be the one of the documented combined load case: constant part k0 (+ the geometric stiffness of the loads that are
    held), variable part the geometric stiffness of the load that is scaled -- each built from its OWN load only"""
    from ..conesym import ConeCtx
    from ..shadow import ShimCOO
    ctx = ConeCtx(values=values, seed=cfg.get('seed', 0))
    V = ctx.V
    case = cfg['case']
    W = EigWorld(V, recip=True)
    obs = []
    calls = []

    def upper(name, n):
        rr, cc_, dd = [], [], []
        for i in range(n):
            for j in range(i, n):
                rr.append(i)
                cc_.append(j)
                dd.append(V('%s_%d_%d' % (name, i, j)))
        data = np.zeros(len(dd), dtype=object)
        for t, v in enumerate(dd):
            data[t] = v
        return ShimCOO((data, (rr, cc_)), shape=(n, n))

    def get_linear_matrices(cc_, combined_load_case=None):
        n = cc_.get_size()
        K0, G1, G2, G3 = upper('K0', n), upper('G1', n), upper('G2', n), upper('G3', n)

        def fk0(*a):
            return K0

        def fkG0(Fc, P, T, *a):
            calls.append((Fc, P, T))
            tot = ShimCOO((np.zeros(0, dtype=object), ([], [])), shape=(n, n)).tocsr()
            for load, G in ((Fc, G1), (P, G2), (T, G3)):
                if not (isinstance(load, (int, float)) and load == 0):
                    tot = tot + G.tocsr() * load
            return tot.tocoo()
        return fk0, fk0, fkG0, fkG0, None
    with ctx.shadow(extra_stubs={'compmech.conecyl.conecyl.eigsh': W.eigsh, 'compmech.conecyl.modelDB.get_linear_matrices': get_linear_matrices}):
        cc = ctx.new_cone('clpt_donnell_bc1', 1, 1, 1)
        cc.r2, cc.L = V('r2'), V('L')
        cc.alphadeg = V('alphadeg') if cfg.get('cone', True) else 0.
        cc.Fc, cc.P, cc.T = V('Fc'), V('P'), V('T')
        cc.num_eigvalues = cfg['num']
        cc.lb(combined_load_case=case)
        n = cc.get_size()
        pos = cc.num0 if hasattr(cc, 'num0') else 3
        Fc_eff = cc.Nxxtop[0] * (2 * ctx.trig.pi * cc.r2 * cc.cosa)
        sym = lambda nm, i, j: V('%s_%d_%d' % (nm, min(i, j), max(i, j)))
        part = {'Fc': lambda i, j: Fc_eff * sym('G1', i, j), 'P': lambda i, j: cc.P * sym('G2', i, j), 'T': lambda i, j: cc.T * sym('G3', i, j)}
        held, scaled = {None: ((), ('Fc', 'P', 'T')), 0: ((), ('Fc', 'P', 'T')), 1: (('T',), ('Fc',)), 2: (('P',), ('Fc',)), 3: (('Fc',), ('T',))}[case]
        call = W.calls[-1]
        Ad, Md = dense_of(call['A']), dense_of(call['M'])
        if Ad.shape != (n - pos, n - pos):
            obs.append(('solver-matrix-size', Sym.lift(Ad.shape[0]), Sym.lift(n - pos)))
        else:
            for i in range(n - pos):
                for j in range(n - pos):
                    I_, J_ = pos + i, pos + j
                    obs.append(('solver-stiffness-matrix-from-its-own-loads[%d,%d]' % (i, j), Md[i, j], sym('K0', I_, J_) + sum((part[q](I_, J_) for q in held), Sym.lift(0))))
                    obs.append(('solver-load-matrix-from-its-own-load[%d,%d]' % (i, j), Ad[i, j], sum((part[q](I_, J_) for q in scaled), Sym.lift(0))))
    assumptions = ctx.trig.circle_constraints() if values is None else []
    info = {'values': {k: str(v) for k, v in ctx.used_values.items()}}
    return obs, assumptions, info


def job(cfg):
    if cfg.get('target') in ('ConeCyl.lb', 'Panel.lb-state-based', 'ConeCyl.lb-real-linear-matrices'):
        from .. import kprop
        return kprop.job((__name__, cfg))
    reset()
    out = {'group': cfg['group'], 'n': 0, 'unsat': 0, 'sat': [], 'unknown': [], 'solver_s': 0.0, 'queries': 0, 'samples': [], 'extra': {}, 'cfg': cfg}
    holder = {}

    def one(ctx):
        r = run_lb(cfg, ctx=ctx)
        holder.setdefault('paths', []).append(r)
        return True
    try:
        ex = FS.explore(one, timeout_ms=20000, max_paths=400, max_decisions=200)
    except Exception as e:
        out['raised'] = '%s: %s' % (type(e).__name__, str(e)[:200])
        out['trace'] = traceback.format_exc()[-600:]
        return out
    out['paths'] = ex['paths']
    if ex['violations']:
        out['order_violation'] = ex['violations'][0]['what']
        out['order_model'] = ex['violations'][0]['model']
        out['n'] = 1
        return out
    if not holder.get('paths'):
        out['raised'] = 'no feasible path'
        return out
    obs, assumptions, info, order_obs = holder['paths'][0]
    # one batch per returned column: only that column's contract rows are needed
    res = None
    bycol = {}
    for o in obs:
        col = int(o[0].split('[')[1].split(',')[0].rstrip(']')) if '[' in o[0] else -1
        bycol.setdefault(col, []).append(o)
    for col, oo in sorted(bycol.items()):
        rr = decide_job(cfg['group'], oo, assumptions.get(col, []), timeout_ms=120000)
        if res is None:
            res = rr
        else:
            for k in ('n', 'unsat', 'solver_s', 'queries'):
                res[k] += rr[k]
            res['sat'] += rr['sat']
            res['unknown'] += rr['unknown']
    if res is None:
        res = decide_job(cfg['group'], [], [])
    res2 = None
    res['cfg'] = cfg
    res['info'] = info
    res['paths'] = ex['paths']
    res['n'] += ex['paths']
    res['unsat'] += ex['paths']     # per path: the three ordering implications were discharged by the path solver
    if res2:
        for k in ('n', 'unsat', 'solver_s', 'queries'):
            res[k] += res2[k]
        res['sat'] += res2['sat']
        res['unknown'] += res2['unknown']
    if cfg.get('canary'):
        name, lhs, rhs = [o for o in obs if o[0].startswith('residual')][0]
        c = decide_job('canary', [(name, lhs, Sym.lift(rhs) * 2 + Sym.var('eps'))], assumptions.get(0, []))
        res['canary_sat'] = len(c['sat']) == 1
    return res


def real_replay(cfg):
    """the same shapes through the REAL function with float matrices (scipy solvers): does it raise?"""
    import scipy.sparse as sp
    rng = np.random.RandomState(1)
    n, active, num, path, target = cfg['n'], cfg['active'], cfg['num'], cfg['path'], cfg['target']
    u = len(active)
    A = rng.rand(u, u)
    Kr = A.dot(A.T) + u * np.eye(u)
    aG = cfg.get('active_G', active)
    B = rng.rand(len(aG), len(aG))
    Gr = -(B.dot(B.T) + np.eye(len(aG)))
    K = np.zeros((n, n))
    G = np.zeros((n, n))
    K[np.ix_(active, active)] = Kr
    G[np.ix_(aG, aG)] = Gr
    try:
        import warnings
        with warnings.catch_warnings():
            warnings.simplefilter('ignore')
            if target == 'analysis.lb':
                from compmech.analysis import lb
                vals, vecs = lb(sp.csr_matrix(K), sp.csr_matrix(G), sparse_solver=(path != 'dense'), silent=True, num_eigvalues=num)
            else:
                from compmech.panel import Panel
                p = Panel(a=1., b=1., stack=[0], plyt=1., laminaprop=(1., 1., 0.3), m=1, n=1)
                p.num_eigvalues = num
                p.calc_k0 = lambda *a, **k: setattr(p, 'k0', sp.csr_matrix(K))
                p.calc_kG0 = lambda *a, **k: setattr(p, 'kG0', sp.csr_matrix(G))
                p.lb(sparse_solver=(path != 'dense'), silent=True)
        return None
    except Exception as e:
        return '%s: %s' % (type(e).__name__, str(e)[:160])


def real_residual_replay(cfg):
    """real function, float matrices of the same null patterns: largest relative residual |(K + lam KG) v| / (|K v|+|lam KG v|)
    over the returned pairs with a non-zero vector, and the largest |v| on a null amplitude of K"""
    import scipy.sparse as sp
    rng = np.random.RandomState(2)
    n, active, num, path, target = cfg['n'], cfg['active'], cfg['num'], cfg['path'], cfg['target']
    u = len(active)
    aG = cfg.get('active_G', active)
    A = rng.rand(u, u)
    B = rng.rand(len(aG), len(aG))
    K = np.zeros((n, n))
    G = np.zeros((n, n))
    K[np.ix_(active, active)] = A.dot(A.T) + u * np.eye(u)
    G[np.ix_(aG, aG)] = -(B.dot(B.T) + np.eye(len(aG)))
    import warnings
    try:
        with warnings.catch_warnings():
            warnings.simplefilter('ignore')
            if target == 'analysis.lb':
                from compmech.analysis import lb
                vals, vecs = lb(sp.csr_matrix(K), sp.csr_matrix(G), sparse_solver=(path != 'dense'), silent=True, num_eigvalues=num)
            else:
                from compmech.panel import Panel
                p = Panel(a=1., b=1., stack=[0], plyt=1., laminaprop=(1., 1., 0.3), m=1, n=1)
                p.num_eigvalues = num
                p.calc_k0 = lambda *a, **k: setattr(p, 'k0', sp.csr_matrix(K))
                p.calc_kG0 = lambda *a, **k: setattr(p, 'kG0', sp.csr_matrix(G))
                p.lb(sparse_solver=(path != 'dense'), silent=True)
                vals, vecs = p.eigvals, p.eigvecs
    except Exception as e:
        return {'error': '%s: %s' % (type(e).__name__, e)}
    vals, vecs = np.asarray(vals), np.asarray(vecs)
    worst, onnull = 0., 0.
    nullK = [r for r in range(n) if r not in active]
    for i in range(min(len(vals), vecs.shape[1] if vecs.ndim == 2 else 0)):
        v = vecs[:, i]
        if not np.abs(v).max() > 0:
            continue
        a, b = K.dot(v), vals[i] * G.dot(v)
        worst = max(worst, float(np.abs(a + b).max() / (np.abs(a).max() + np.abs(b).max() + 1e-300)))
        if nullK:
            onnull = max(onnull, float(np.abs(v[nullK]).max() / np.abs(v).max()))
    return {'max_relative_residual': worst, 'max_on_null_amplitude': onnull, 'multipliers': [float(np.real(x)) for x in vals[:4]]}


def real_order_replay(cfg):
    """real function on an indefinite KG (mixed-sign multipliers): is the first returned value the smallest positive one?"""
    import scipy.sparse as sp
    rng = np.random.RandomState(3)
    n, active, num, path, target = cfg['n'], cfg['active'], cfg['num'], cfg['path'], cfg['target']
    n = max(n, 12)
    A = rng.rand(n, n)
    K = A.dot(A.T) + n * np.eye(n)
    G = np.diag(np.concatenate([-np.arange(1., n // 2 + 1), np.arange(1., n - n // 2 + 1)]))
    import warnings
    try:
        with warnings.catch_warnings():
            warnings.simplefilter('ignore')
            if target == 'analysis.lb':
                from compmech.analysis import lb
                vals, vecs = lb(sp.csr_matrix(K), sp.csr_matrix(G), sparse_solver=(path != 'dense'), silent=True, num_eigvalues=n - 2)
            else:
                from compmech.panel import Panel
                p = Panel(a=1., b=1., stack=[0], plyt=1., laminaprop=(1., 1., 0.3), m=1, n=1)
                p.num_eigvalues = n - 2
                p.calc_k0 = lambda *a, **k: setattr(p, 'k0', sp.csr_matrix(K))
                p.calc_kG0 = lambda *a, **k: setattr(p, 'kG0', sp.csr_matrix(G))
                p.lb(sparse_solver=(path != 'dense'), silent=True)
                vals = p.eigvals
    except Exception as e:
        return {'error': '%s: %s' % (type(e).__name__, e)}
    vals = np.asarray(vals).real
    pos = vals[vals > 0]
    return {'multipliers': [round(float(x), 4) for x in vals[:6]], 'violates': bool(len(pos) and (vals[0] <= 0 or vals[0] > pos.min() * (1 + 1e-9)))}


def configs(tier, seed):
    out = []
    quick = tier == 'quick'
    import random
    rnd = random.Random(seed)
    sizes = [5, 6] if quick else [5, 6, 7]
    for target in ('analysis.lb', 'Panel.lb'):
        for n in sizes:
            actives = [list(range(n)), sorted(rnd.sample(range(n), n - 2)), sorted(rnd.sample(range(n), 3))]
            for active in actives:
                u = len(active)
                for path in ('sparse', 'fallback', 'dense'):
                    if path == 'sparse' and u < n:
                        continue          # the first ARPACK call on a singular K is what fails in reality: that is the fallback path
                    if path == 'fallback' and u == n:
                        continue          # with no null amplitude the first call does not fail
                    if path == 'fallback' and u == n and not quick:
                        pass
                    nums = sorted({1, 2, u - 1, u, u + 1, 25} - {0})
                    if quick:
                        nums = sorted({2, u, 25})
                    for num in nums:
                        out.append({'target': target, 'n': n, 'active': active, 'num': num, 'path': path,
                                    'group': '%s:%s' % (target, path), 'm': n, 'variant': '%s/num=%d/n=%d/u=%d' % (path, num, n, u)})
                    if u >= 4:
                        # in-plane-like amplitudes: rows/columns present in K, null in KG (the eigenproblem keeps them)
                        out.append({'target': target, 'n': n, 'active': active, 'active_G': active[:-2], 'num': 2, 'path': path,
                                    'group': '%s:%s' % (target, path), 'm': n, 'variant': '%s/num=2/n=%d/u=%d/KG-null-on-2-more' % (path, n, u)})
                    if 3 <= u < n and path != 'sparse':
                        # a geometric matrix that also has entries on an amplitude WITHOUT stiffness (admissible: any symmetric KG)
                        null = [q for q in range(n) if q not in active]
                        out.append({'target': target, 'n': n, 'active': active, 'active_G': sorted(active + null[:1]), 'G_beyond_K': True, 'num': 2, 'path': path,
                                    'group': '%s:%s' % (target, path), 'm': n, 'variant': '%s/num=2/n=%d/u=%d/KG-entries-on-a-stiffnessless-amplitude' % (path, n, u)})
    out[0]['canary'] = True
    out[-1]['canary'] = True
    for model in ('plate', 'cpanel'):
        out.append({'target': 'Panel.lb-state-based', 'model': model, 'm': 1, 'n': 2, 'nx': 1, 'ny': 2, 'num': 1, 'active': [], 'path': 'sparse',
                    'group': 'Panel.lb-state-based:%s' % model, 'variant': 'panel-state/%s' % model, 'timeout_ms': 300000})
    for case in (None, 1, 2, 3):
        for cone in (True, False):
            out.append({'target': 'ConeCyl.lb-real-linear-matrices', 'case': case, 'cone': cone, 'num': 2, 'n': 12, 'active': [], 'path': 'sparse',
                        'group': 'ConeCyl.lb-real-linear-matrices:combined_load_case=%s:%s' % (case, 'cone' if cone else 'cylinder'), 'm': 1, 'variant': 'conecyl-linear/case=%s' % case})
    for case in (None, 1, 2, 3):
        out.append({'target': 'ConeCyl.lb', 'case': case, 'num': 2, 'n': 12, 'active': [], 'path': 'sparse', 'group': 'ConeCyl.lb:combined_load_case=%s' % case,
                    'm': 1, 'variant': 'conecyl/case=%s' % case})
    return out


def main():
    run = Run('C05', 'other', explanation=(
        'Bounded symbolic verification of the buckling-solver wrappers (analysis.lb and the duplicate Panel.lb): the real code runs '
        'over symbolic K, KG with concrete null patterns; ARPACK/LAPACK are contract stubs returning symbolic (mu, V) with '
        'KG_p v = mu K_p v on the matrices actually passed; z3 proves for every returned pair the full-size residual, zeros on '
        'null amplitudes, lambda*mu=-1 for the same column, and positivity/ascending order under the ascending-negative-mu contract; '
        'an exception for an admissible (size, null pattern, num_eigvalues, path) is a violation, replayed on the real function.'))
    run.encoded('compmech/analysis/linear_buckling.py', 'lb')
    run.encoded('compmech/panel/_panel.py', 'Panel.lb')
    run.encoded('compmech/sparse.py', 'remove_null_cols')
    run.encoded('compmech/conecyl/conecyl.py', 'ConeCyl.lb (matrices per combined_load_case, multipliers, padding), ConeCyl._calc_linear_matrices (load split per combined_load_case, kernels as linear contract stubs)')
    cf = configs(run.tier, run.seed)
    run.bounds = {'sizes_n': sorted({c['n'] for c in cf}), 'num_eigvalues': sorted({c['num'] for c in cf}), 'paths': ['sparse', 'fallback (first ARPACK call fails)', 'dense'],
                  'null_patterns': 'full, two seeded null amplitudes, three active amplitudes', 'configurations': len(cf)}
    run.assume('ARPACK/LAPACK contract: returned (mu_i, v_i) satisfy KG_p v = mu K_p v for the matrices passed; k columns (ARPACK, needs k < N) / N columns (LAPACK)',
               'ordering obligations only under: returned mu ascending and negative', 'shapes are concrete per configuration (sizes 5..7); symbolic-size reasoning is outside')
    run.stubs = ['scipy.sparse.linalg.eigsh', 'scipy.linalg.eigh', 'msg/warn']
    run.outside = ['that ARPACK with sigma=1, mode=cayley, which=SM returns the multipliers closest to 1 first; convergence; agreement of the two numerical paths',
                   'sizes above 7']
    res = pmap(job, cf)
    from .. import kprop
    kprop.handle(run, [r for r in res if r['cfg'].get('target') in ('ConeCyl.lb', 'Panel.lb-state-based')], build, 'obligations of the buckling wrapper fail')
    for r in res:
        cfg = r['cfg']
        if cfg.get('target') in ('ConeCyl.lb', 'Panel.lb-state-based'):
            continue
        if r.get('raised'):
            run.obligations += 1
            real = real_replay(cfg)
            key = '%s/raises/%s' % (cfg['group'], 'num>reduced' if cfg['num'] > (len(cfg['active']) if cfg['path'] == 'dense' else min(cfg['num'], cfg['n'] - 2)) else 'other')
            rep = {'cfg': cfg, 'symbolic_run_raised': r['raised'], 'real_function_raised': real, 'trace': r.get('trace')}
            if real is None:
                run.harness_error('exception in the symbolic run did not reproduce on the real function: %s %s' % (cfg['variant'], r['raised']))
            else:
                run.violation(key, '%s raises for n=%d, %d active amplitudes, num_eigvalues=%d, %s path: %s' % (
                    cfg['target'], cfg['n'], len(cfg['active']), cfg['num'], cfg['path'], real), rep)
            continue
        if r.get('order_violation'):
            run.obligations += 1
            real = real_order_replay(cfg)
            rep = {'cfg': cfg, 'what': r['order_violation'], 'model': r.get('order_model'), 'real_function': real}
            if real and real.get('violates'):
                run.violation('%s/ordering' % cfg['group'], '%s %s: %s (real function, indefinite KG: multipliers %s)' % (cfg['target'], cfg['variant'], r['order_violation'], real.get('multipliers')), rep)
            else:
                run.harness_error('ordering violation did not replay on the real function: %s %s' % (cfg['variant'], real))
            continue
        sats = run.absorb_job(r)
        if 'canary_sat' in r:
            run.canary(r['canary_sat'], r['group'])
        if sats:
            fam = sorted({s['name'].split('[')[0] for s in sats})
            real = real_residual_replay(cfg)
            if not (real.get('error') or real.get('max_relative_residual', 0) > 1e-8 or real.get('max_on_null_amplitude', 0) > 1e-12):
                run.harness_error('failed obligations %s of %s did not reproduce on the real function: %s' % (fam, cfg['variant'], real))
                continue
            run.violation('%s/%s' % (cfg['group'], '+'.join(fam)), '%s %s: obligations %s fail (e.g. %s)' % (cfg['target'], cfg['variant'], fam, sats[0]['name']),
                          {'cfg': cfg, 'failed': [s['name'] for s in sats][:12], 'model': sats[0]['model'], 'info': r.get('info'), 'real_function': real})
    # float twins on the real solver route (one run per wrapper configuration, sampling -- stated as such): code that tells float
    # arrays from symbolic ones (dtype tests, typed fast paths) takes another branch there than in the symbolic run
    twins = []
    for cfg in cf:
        if cfg.get('target') in ('analysis.lb', 'Panel.lb') and not cfg.get('G_beyond_K'):
            real = real_residual_replay(cfg)
            twins.append(real.get('max_relative_residual'))
            if real.get('error') or real.get('max_relative_residual', 0) > 1e-8 or real.get('max_on_null_amplitude', 0) > 0:
                key = '%s/%s/float-twin' % (cfg['group'], cfg['variant'])
                if not any(v['key'].startswith('%s/' % cfg['group']) for v in run.violations):
                    run.obligations += 1
                    run.violation(key, '%s %s: the float twin of the configuration fails on the real function although the symbolic run passed: %s' % (
                        cfg['target'], cfg['variant'], real), {'cfg': cfg, 'real_function': real, 'decided_by': 'one float run on the real route (no solver verdict for this branch)'})
    run.extra['float_twins'] = {'runs': len(twins), 'worst_relative_residual': max([t for t in twins if t is not None] or [0])}
    return run.finish()


def replay(path):
    d = json.load(open(path))
    cfg = d['replay']['cfg']
    print('real function:', real_replay(cfg))
    return 0
