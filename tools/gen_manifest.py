#!/usr/bin/env python3
"""Regenerates MANIFEST.json from the table below (single source of truth for what is claimed)."""
import json, os
V = os.path.dirname(os.path.dirname(os.path.abspath(__file__)))
props = [json.loads(l) for l in open(os.path.join(V, 'properties.jsonl'))]

OTHER = 'other'
CHECKS = {
    # pid: (category, technique, level text, level note, design_ref)
    'C10': (OTHER, 'C tables read from source as exact polynomials (own reader) vs exact rational Bardell oracle; z3 LRA decides the deviation bound over the whole parameter box per entry (monomial abstraction); sat -> refine -> replay through gcc-built table',
            'Bounded symbolic verification, exhaustive over the finite index domain (30x30 pairs x 17 families, 3x30 functions, Gauss orders 2..64); for each entry the solver shows |table - exact integral| <= 1e-12*sum|coef| for all flags/limits in the box, or a concrete point is replayed against the compiled table.',
            'Reals not doubles (literals read as stored doubles); tolerance 1e-12 relative to the coefficient sum; z3, CPython, own C-expression reader (cross-checked: worst measured deviation 4e-15) trusted. Supplementary, not deciding: the gcc-built function file evaluated through ctypes at five points including the interval ends (float twin); statements ahead of a table (declarations, assignments, index-conditional blocks, guarded returns) are interpreted, control flow on floating-point arguments is not (harness error).',
            'DESIGN.md section 4 C10'),
}
CHECKS['C02'] = (OTHER, 'symbolic execution of the real Panel.calc_k0 over de-Cythonised .pyx kernels (exact rational-function scalars) vs Donnell strain-energy Hessian oracle on shared integral atoms; z3 qfnra-nlsat decides each entry identity; sat -> exact-rational replay of the same code',
    'Bounded symbolic verification: for the unrolled series orders/sections every matrix entry is proved equal to the energy Hessian for ALL real geometry, 18 ABD entries, 24 real edge flags, pre-loads and sub-intervals; tiling/full-width/placement/pre-load variants included; translator validated against the compiled extension on each run while it is current.',
    'Bounds: (m,n) and cone sections listed in evidence; reals not floats; integral atoms mean exact integrals (C10); read_stack stubbed (C01); own de-Cythoniser trusted after per-run validation against the compiled kernels.',
    'DESIGN.md section 4 C02')
CHECKS['C03'] = (OTHER, 'symbolic execution of the real Panel.calc_kG0 over de-Cythonised fkG0/fkG0y1y2/fkG_num vs pre-stress-work Hessian oracle (state-based: N = A eps + B kappa at symbolic quadrature points); z3 qfnra-nlsat per entry; exact-rational replay',
    'Bounded symbolic verification for all real resultants (any sign, shear), geometry, flags, sub-intervals; state-based kernel at integrand level (hence for every quadrature rule) and with 2x2/3x3 symbolic points, NLgeom 0/1, uniform vs per-point laminate table.',
    'Bounds as in evidence; reals; atoms = exact integrals/functions (C10); stubs: leggauss_quad (symbolic), read_stack.',
    'DESIGN.md section 4 C03')
CHECKS['C08'] = (OTHER, 'symbolic execution of the real Panel.calc_fint/calc_kT over de-Cythonised calc_fint/fkL_num/fkG_num with symbolic quadrature points vs von-Karman energy gradient/Hessian oracle, plus oracle-free exact five-point-stencil identity; z3 qfnra-nlsat; exact-rational replay',
    'Bounded symbolic verification: for all amplitudes (generic, membrane-only, bending-only), laminates incl. B, flags, geometry, per symbolic quadrature point and weight: fint = energy gradient, kT = exact Jacobian and symmetric, fint(0)=0, kT(0)=kL(0) and (exact Gauss rule) = the analytical k0; uniform vs per-point laminate table; assemblies of 2-3 panels joined by penalty connections: assembly tangent = Jacobian of the assembly internal force (stencil), symmetric, fint(0)=0, linear part = k0 c.',
    'Bounds (m,n), quadrature points per evidence; reals; function atoms = Bardell polynomials (C10); assemblies up to three panels.',
    'DESIGN.md section 4 C08')
CHECKS['C01'] = (OTHER, 'symbolic execution of the real read_stack/Lamina.rebuild/calc_constitutive_matrix on symbolic (cos,sin), thicknesses, materials, offset vs explicit tensor-rotation + through-thickness integral oracle; relational corollaries between executions; z3 qfnra-nlsat; exact-rational replay',
    'Bounded symbolic verification for N plies (quick 1-2, thorough 1-4), all three material tuple forms, both argument forms: every A/B/D/E/ABD/ABDE entry equals the integral of the rotated ply stiffness for all real inputs; symmetry, d-shift, mid-plane symmetry, ply-order independence of A, angle mirroring, 90-degree rotation; positive definiteness via three NRA lemmas.',
    'Angles only through (cos,sin) with c^2+s^2=1; reals; numpy object arrays; N bounded. Supplementary, not deciding: a number-type twin (the same laminates with integer-typed and float-typed numbers through the real read_stack).',
    'DESIGN.md section 4 C01')
CHECKS['C04'] = (OTHER, 'symbolic execution of the real Panel.calc_kM over de-Cythonised fkM/fkMy1y2 vs kinetic-energy Hessian oracle (z-origin = laminate offset convention); coupling sign and magnitude as separate obligations; total mass with exactly interpreted tables; z3 qfnra-nlsat; exact-rational replay; compiled-vs-twin translator validation',
    'Bounded symbolic verification for all real mu, thicknesses, offset of either sign, geometry, flags, sub-intervals: translational, coupling, rotary terms; tiling; placement; unit rigid translation gives mu*h*area.',
    'Bounds per evidence; reals; atoms = exact integrals (C10); PD and frequency invariance are corollaries of the proven energy form.',
    'DESIGN.md section 4 C04')
CHECKS['C09'] = ('model_checking', 'path-forking symbolic execution of the unmodified _solver_NR/Analysis.static (re-execution under decision prefixes, z3 feasibility query per branch): residual norms and line-search products symbolic, vectors as provenance tokens; per-path monitors; violating paths replayed with concrete residual sequences on the real driver',
    'Bounded exhaustive exploration of all histories of convergence/divergence/too-slow/iteration-limit outcomes with K free residuals (quick 6, thorough 8) and 2 free line searches over a grid of concrete increment settings: reported states equilibrated for their load factor, load factors strictly increasing in (0,1], snapshots unmodified, bounded steps, final state.',
    'Histories beyond K non-benign residuals, settings outside the grid and the arc-length solver are outside; user callables opaque; sparse.solve stubbed; one recorded known finding (final factor within 1e-3 of 1).',
    'DESIGN.md section 4 C09')
CHECKS['C11'] = (OTHER, 'symbolic execution of the real Panel.uvw/strain/stress over the de-Cythonised field kernels incl. the num_cores chunking wrappers (bounds-checked pointer views) vs series/Donnell/F*strain oracle on shared function atoms; z3 qfnra-nlsat per value; exact-rational replay; recorded findings characterised by a second obligation family',
    'Bounded symbolic verification for all amplitudes, evaluation points, flags, geometry: u,v,w, rotations, six strains (linear and von-Karman), six resultants for the NLterms requested, for every chunk count 1..3 (6) and point count 1..7 (13) incl. sizes not divisible by the chunk count; caller arrays unchanged; PanelAssembly.uvw/strain/stress per group (each member with its own slice, geometry, model and laminate, in assembly order) and StiffPanelBay skin / stiffener fields.',
    'OpenMP scheduling not modelled (chunks sequential, disjointness checked); known finding F2 (quadratic terms) listed with a characterising obligation so that any other deviation is still reported. Supplementary, not deciding: float twin on the compiled build for non-contiguous float64 amplitude vectors and point arrays against their contiguous copies.',
    'DESIGN.md section 4 C11')
CHECKS['C19'] = (OTHER, 'symbolic execution of the real Panel.calc_kA/calc_cA (incl. make_skew_symmetric) over de-Cythonised fkAx/fkAy/fcA with exactly interpreted integral tables vs piston-theory bilinear-form oracle; Mach route with sqrt as constrained atom; axis-exchange relational obligation; z3 qfnra-nlsat; exact-rational replay',
    'Bounded symbolic verification for all beta, gamma, aeromu, Mach>1, density, speed, geometry and the edge flags other than the restrained w flags on the flow edges: every entry of both triangles equals beta*int(w_A dw_B/dflow) - gamma*int(w_A w_B); cA = -aeromu*int(w_A w_B)*i; w-w positions only; Mach route = explicit route; flow-y = flow-x on the exchanged panel.',
    'Bounds per evidence; w restrained on the flow edges (hypothesis of the statement); tables = exact integrals (C10); bay route claimed under C13.',
    'DESIGN.md section 4 C19')
CHECKS['C12'] = (OTHER, 'symbolic execution of the real PanelAssembly.get_k0_conn and calc_kt_kr over the de-Cythonised connection kernels (five kinds) vs squared-jump penalty-energy Hessian oracle on shared atoms; both panel orders, two-connection assemblies; z3 qfnra-nlsat; exact-rational replay',
    'Bounded symbolic verification for all real geometry, interface positions, flags, laminates (18 ABD entries per panel), thicknesses: every entry of the assembled, symmetrised connection matrix equals the Hessian of kt/2 int|jump|^2 + kr/2 int(jump rotation)^2 with the constants of the panels actually joined; calc_kt_kr symmetric and homogeneous.',
    'Bounds per evidence; panels share the interface length as the kernels assume; PSD / zero energy for continuous fields are corollaries.',
    'DESIGN.md section 4 C12')
CHECKS['C14'] = ('translation_validation', 'relational symbolic execution: two equivalent descriptions run through the real Panel API over de-Cythonised kernels on shared symbols, one z3 (qfnra-nlsat) identity per matrix entry; exact-rational replay of disagreements',
    'Bounded translation-validation of kernel/description pairs: cone(0)=cylinder, cylinder(1/r=0)=plate, w-only=w-block, numeric(c=0)=analytic (exact rational rule; also force_orthotropic_laminate), axis exchange, similarity scaling, for k0/kG0/kM (and kAx/kAy/cA where defined) over all real geometry, laminate, flags, loads.',
    'Series orders bounded; additivity/end-point lemmas of C10 assumed in (a); eigenvalue corollaries by congruence/scaling are an argument, not a query.',
    'DESIGN.md section 4 C14')
CHECKS['C05'] = (OTHER, 'symbolic execution of the real analysis.lb / Panel.lb over symbolic matrices with ARPACK/LAPACK contract stubs, under a forking comparison policy (forksym); z3 proves residual, null-amplitude zeros and value/vector pairing per returned column and the ordering implications on every path; exceptions and ordering violations are replayed on the real function with scipy',
    'Bounded symbolic verification of the wrapper code (what compmech itself contributes): for sizes 5..7, every null pattern class, num_eigvalues 1..25, sparse / null-column fallback / dense paths: (K+lambda KG)v=0 on the full size under the solver contract, zeros on null amplitudes, smallest positive multiplier first and ascending positives under the ascending-mu contract, no exception for admissible inputs; KG with entries beyond the support of K; ConeCyl.lb incl. the real _calc_linear_matrices load split per combined_load_case over linear contract kernels.',
    'ARPACK/LAPACK numerics are contract stubs (that ARPACK returns the multipliers nearest 1 first, convergence, agreement of the numerical paths are outside); ConeCyl.lb outside; sizes concrete. Supplementary, not deciding: one float run of every wrapper configuration on the real compiled route (float twin; sees branches on dtype / typed fast paths that dtype=object arrays never take).',
    'DESIGN.md section 4 C05')
CHECKS['C06'] = (OTHER, 'symbolic execution of the real analysis.freq / Panel.freq over symbolic matrices under a forking comparison policy (the wrapper null detection, sort and filter decide on symbolic values) with ARPACK/LAPACK contract stubs; z3 proves residual, zeros, pairing per column and positivity/ascending order after sort on every path; exceptions and residual failures replayed on the real function with scipy',
    'Bounded symbolic verification of the wrapper code: sizes 6..9, null patterns, num_eigvalues 1..25, sparse/dense, sort on/off, reduced_dof (condensed block), second analysis after a redefinition: K v = omega^2 M v on the full size under the solver contract, zeros on removed amplitudes, ascending positive frequencies after sort, no exception for admissible inputs.',
    'ARPACK/LAPACK numerics are contract stubs; rounding in the sort key not modelled; complex (aerodynamic) spectra outside; known finding: reduced_dof is an approximation by design. Supplementary, not deciding: float twins of the wrapper configurations on the real route; a source audit (ast) of every call of freq in the package for an unconditional reduced_dof=True; Panel.freq on the compiled build with the mass density scaled down to 1e-15 (1/sqrt(s) law, both paths).',
    'DESIGN.md section 4 C06')
CHECKS['C07'] = (OTHER, 'symbolic execution of the real Panel.calc_fext / PanelAssembly.calc_fext over de-Cythonised fg and fuvw (virtual work against the package own displacement recovery and against the oracle basis), and of sparse.solve / analysis.static / Analysis.static with an spsolve contract stub; z3 qfnra-nlsat; exact-rational replay',
    'Bounded symbolic verification for all force positions, components, load factors, amplitudes, flags, geometry: load vector = virtual work of the loads (constant forces unscaled, incrementable ones scaled), assembly slices at the panel ranges, K c = f on active rows and c = 0 on null columns for null patterns of sizes 4..6.',
    'spsolve is a contract stub; tolerance tests of the executed code on the load vector (np.allclose) are forked, each outcome under its condition; bay load vectors are claimed with C13; linearity in the loads is a corollary. Supplementary, not deciding: float twins of the solve configurations on the real route (incl. a second system with the same diagonal).',
    'DESIGN.md section 4 C07')
CHECKS['C13'] = (OTHER, 'relational symbolic execution of the real StiffPanelBay / PanelAssembly objects (all bookkeeping) over de-Cythonised panel, connection and stiffener kernels: global result vs re-composition of stand-alone component results at independently derived ranges; skin partition under the C10 additivity lemma; z3 qfnra-nlsat; exact-rational replay',
    'Bounded symbolic verification of the assembly layers for bays with 0..2 (thorough 4) stiffeners of the three kinds in any order, with/without base, assemblies of 2-3 panels of unequal series orders: size = sum of component sizes, k0/kG0/kM (and kT, fint, fext, recovered fields) = sum of component results at their ranges + connection terms, skin cut at 1..2 (4) symbolic positions leaves k0,kG0,kM unchanged; results after a re-definition of the assembly follow the current definition; stiffener contributions = Hessians of their own energies (BladeStiff1D flange beam energy, BladeStiff2D / TStiff2D connection mismatch energies) and the pointwise PSD condition of the flange form (refuted for coupled flange laminates: recorded finding).',
    'Component panels are decided in C02-C04/C12; PSD of the 2-D stiffeners is a composition of those with the mismatch-energy blocks, not a query; bay dimensions concrete; laminates of sub-components are symbolic stubs.',
    'DESIGN.md section 4 C13')
CHECKS['C20'] = (OTHER, 'bounded call-history symbolic execution of the real Panel object: every sequence first-op ; redefinition ; last-op over the public alphabet vs a fresh twin with the final definition asked first; z3 identity per returned entry; caller arrays compared by identity; exact-rational replay',
    'Bounded verification over call histories (14 operations x 14 x 7 redefinitions on flat and cylindrical panels, thorough: all pairs and the w-only model): results depend on the definition only, each quantity can be requested first on a fresh object, caller arrays are not modified.',
    'History length <= 2 calls + 1 redefinition; eigen-solvers stubbed (the matrices passed are observed); OpenMP races and complete shells outside.',
    'DESIGN.md section 4 C20')
_SHELL_UNUSED = ('complete-shell (ConeCyl) kernels are not encoded: the 47 conecyl extension modules are built around cimport-ed integrand callbacks, a function-pointer integrator, '
          'C structs and trigonometric bases, which the de-Cythoniser/oracle pair built here (polynomial Bardell bases, no cimport/struct/callback support, no exact trigonometric integrator) '
          'cannot execute; nothing about this property is decided, so nothing is claimed (DESIGN.md section 9.2)')
CHECKS['C18'] = (OTHER, 'symbolic execution of the real ConeCyl object (_rebuild, exclude_dofs_matrix, calc_full_c, calc_fext, uvw) over de-Cythonised clpt commons kernels with trigonometric values as solver-canonicalised atoms; z3 qfnra-nlsat per entry; exact-rational replay',
    'Bounded symbolic verification for the classical Donnell shell models bc1-bc4: derived geometry consistent and idempotent for every admissible input pair (cone and cylinder), partition/re-insertion of prescribed amplitudes is the identity for every admitted subset, calc_full_c inverts it for any load factor, load vector of point forces / torque / axial force = virtual work against the package own uvw, prescribed-displacement right-hand-side terms.',
    'Uniform pressure and harmonic axial edge loads are decided by exact integration (vf/trigpoly.py); Sanders/FSDT/iso models and the reduced solve are outside (stated in evidence); trig atoms per argument class with S^2+C^2=1.',
    'DESIGN.md section 9.2 / 4 C18')
CHECKS['C16'] = (OTHER, 'symbolic execution from source of the *_linear.pyx kernels of 13 shell models and of the real ConeCyl._calc_linear_matrices (pi symbolic, trigonometric arguments canonicalised by the solver) ; relational identities per entry with z3 qfnra-nlsat; exact-rational replay plus an independent float replay on the compiled kernels',
    'Bounded symbolic verification of the relational clauses: cone at zero angle = cylinder kernels (k0, kG0), kG0 split/homogeneity in (Fc,P,T), isotropic short-cuts = general models, written lower-triangle entries = mirror, laminate matrix independent of the number of evaluations, and the elastic edge-restraint part of k0 (through the real _calc_linear_matrices -> get_linear_matrices -> fk0edges with symbolic restraint values) = Hessian of the edge-spring energy of the package own displacement field (exact 4-node circumferential rule, n2 = 1); and (vi) the shell part of k0 = Hessian of the strain energy of the package own linear strain field (cfstrain_* executed on exact trigonometric-polynomial values, integration over the surface in closed form; for cones with the radius frozen at the middle of each of the s meridional sections, which is the kernels own definition), (vii) one ConeCyl object re-defined between two evaluations = a fresh object; PSD is NOT decided (listed as outside).',
    'Series orders (2,2,1)/(2,2,2)/(3,2,3)/(3,3,1)/(3,1,1), sections s <= 2; recorded findings: missing tilt-amplitude coupling in every model, FSDT and Sanders-bc3 strain routines inconsistent with k0, iso short-cuts for m1 >= 3, bc2 cone kernel; bcn Donnell modules not importable; four recorded findings in .pyx kernels (bc2 Donnell cone, fsdt Sanders bcn).',
    'DESIGN.md section 9.2 / 4 C16')
CHECKS['C17'] = (OTHER, 'symbolic execution from source of calc_k0L / calc_kG / calc_kLL / calc_fint_0L_L0_LL and their integrand callbacks (cfk0L, cfkG, cfkLL, cffint, cfN, cfstrain_*) of 12 *_nonlinear.pyx modules at ONE symbolic integration point with a symbolic weight (integratev stubbed), and of the real ConeCyl._calc_NL_matrices / calc_fint; the tangent is compared entry by entry with the exact five-point stencil of the internal force (a cubic polynomial in the amplitudes) with z3 qfnra-nlsat; exact-rational replay and float replay of the same identity on the compiled kernels',
    'Bounded symbolic verification at integrand level (hence for every grid and both rules): tangent k0L+k0L^T+kLL+kG = Jacobian of the non-linear internal force per entry, symmetry, fint(0)=0 and kT(0)=k0 for the perfect shell, arbitrary initial-imperfection slopes at the point, partitioned kTuu = d calc_fint/d(free amplitudes) through the real ConeCyl methods for every subset of prescribed amplitudes; chunking of integratev over 1..8 threads by bounded execution (enumeration, stated).',
    'Series orders (2,2,1) and (3,2,2) (the non-linear series start at i=0, order 1 is vacuous); Donnell CLPT bc1-4 hold; every Sanders CLPT and first-order-shear model violates the identity (recorded findings with signatures, reproduced on the compiled kernels); resolution of the grids, OpenMP scheduling, iso_ and bcn non-linear modules outside.',
    'DESIGN.md section 9.2 / 4 C17')
NA = {
    'C15': 'eigenvalue monotonicity/convergence for pencils of size 48..768 is not a bounded first-order query any installed solver can decide; the algebraic ingredients are decided elsewhere: exact Hessians under C02-C04, exact tables under C10, nestedness of the trial spaces (matrices of orders (m,n) are principal sub-matrices of those of (m+1,n) and (m,n+1)) under C14 relation (i); monotone convergence then follows from the interlacing theorem, which no check here proves (DESIGN.md section 5)',
}
man = {
    'version': 1,
    'setup_cmd': './bootstrap.sh',
    'hooks': {'guard': 'COMPMECH_VERIF', 'enable': 'no hooks are needed: checks read /repo sources and import the package unmodified',
              'baseline_off_cmd': 'cd /repo && /venv/bin/python -m pytest -ra -q -p no:cacheprovider --timeout=900 --continue-on-collection-errors',
              'source_commits': [], 'add_only': True},
    'engines': [
        {'name': 'cysym', 'path': 'vf/cysym.py', 'kind_free_text': 'de-Cythoniser + AST instrumentation: executes .pyx kernels from source on exact symbolic scalars (vf/sym.py) with C semantics explicit', 'serves_properties': []},
        {'name': 'ctab', 'path': 'vf/ctab.py', 'kind_free_text': 'reader of the generated C tables as exact polynomials', 'serves_properties': ['C10']},
        {'name': 'solve', 'path': 'vf/solve.py', 'kind_free_text': 'z3 (qfnra-nlsat / LRA / LIA) obligation batches, cvc5 second opinion', 'serves_properties': []},
    ],
    'checks': [], 'notes': 'Solver-based checking (symbolic execution of compmech sources + z3). Exit codes: 0 ok, 1 VIOLATION, 2 harness error. See DESIGN.md.',
    'not_applicable': [],
}
for p in props:
    pid = p['id']
    if pid in CHECKS:
        cat, tech, text, note, ref = CHECKS[pid]
        man['checks'].append({
            'property_id': pid, 'quick_cmd': './check %s --tier quick' % pid, 'thorough_cmd': './check %s --tier thorough' % pid,
            'evidence_file': 'evidence/%s.json' % pid, 'replay_cmd_template': './check %s --replay {path}' % pid,
            'engine': 'vf/props/%s.py' % pid.lower(),
            'level_claimed': {'category': cat, 'text': text, 'design_ref': ref}, 'level_note': note, 'technique': tech})
        for e in man['engines']:
            if pid not in e['serves_properties'] and e['name'] == 'solve':
                e['serves_properties'].append(pid)
    else:
        man['not_applicable'].append({'property_id': pid, 'reason': NA.get(pid, 'check not built yet (framework under construction; planned in DESIGN.md section 4)')})
json.dump(man, open(os.path.join(V, 'MANIFEST.json'), 'w'), indent=1)
print('claimed:', [c['property_id'] for c in man['checks']])
