"""E5 oracle: Hessian of the interface mismatch (penalty) energy between two panels' Ritz series.

energy = sum_terms k/2 * int_interface ( sum_parts coef * d^dx d^dy comp(panel) )^2
interface kinds: 'x-line' (constant y on each panel, integrate along x over p1's length a1),
                 'y-line' (constant x on each panel, integrate along y over p1's width b1),
                 'surface' (common rectangle a1 x b1).
Both series live on the same normalised coordinate along the interface."""
from ..sym import Sym


def jumps(kind, kt, kr, dsb=None):
    """[(k, [(panel, comp, dx, dy, coef), ...]), ...]"""
    one = Sym.lift(1)
    if kind == 'SSycte':
        return 'x-line', [(kt, [(1, 'u', 0, 0, one), (2, 'u', 0, 0, -one)]), (kt, [(1, 'v', 0, 0, one), (2, 'v', 0, 0, -one)]),
                          (kt, [(1, 'w', 0, 0, one), (2, 'w', 0, 0, -one)]), (kr, [(1, 'w', 0, 1, one), (2, 'w', 0, 1, -one)])]
    if kind == 'SSxcte':
        return 'y-line', [(kt, [(1, 'u', 0, 0, one), (2, 'u', 0, 0, -one)]), (kt, [(1, 'v', 0, 0, one), (2, 'v', 0, 0, -one)]),
                          (kt, [(1, 'w', 0, 0, one), (2, 'w', 0, 0, -one)]), (kr, [(1, 'w', 1, 0, one), (2, 'w', 1, 0, -one)])]
    if kind == 'BFycte':
        # base (1) to perpendicular flange (2) along x: u1=u2, v1=w2, w1=-v2, rotation about x continuous
        return 'x-line', [(kt, [(1, 'u', 0, 0, one), (2, 'u', 0, 0, -one)]), (kt, [(1, 'v', 0, 0, one), (2, 'w', 0, 0, -one)]),
                          (kt, [(1, 'w', 0, 0, one), (2, 'v', 0, 0, one)]), (kr, [(1, 'w', 0, 1, one), (2, 'w', 0, 1, -one)])]
    if kind == 'BFxcte':
        return 'y-line', [(kt, [(1, 'u', 0, 0, one), (2, 'w', 0, 0, -one)]), (kt, [(1, 'v', 0, 0, one), (2, 'v', 0, 0, -one)]),
                          (kt, [(1, 'w', 0, 0, one), (2, 'u', 0, 0, one)]), (kr, [(1, 'w', 1, 0, one), (2, 'w', 1, 0, -one)])]
    if kind == 'SB':
        # face to face with mid-surface distance dsb: displacement of panel 1's face: u1 + dsb*w1,x ; v1 + dsb*w1,y
        return 'surface', [(kt, [(1, 'u', 0, 0, one), (1, 'w', 1, 0, dsb), (2, 'u', 0, 0, -one)]),
                           (kt, [(1, 'v', 0, 0, one), (1, 'w', 0, 1, dsb), (2, 'v', 0, 0, -one)]),
                           (kt, [(1, 'w', 0, 0, one), (2, 'w', 0, 0, -one)])]
    raise ValueError(kind)


def hessian(atoms, kind, terms, S, fixed, a1, b1):
    """S = {1: Series, 2: Series}; fixed = {1: normalised constant coordinate of panel 1 (eta or xi), 2: ...}
    -> {((pa, dofA), (pb, dofB)): Sym} for all ordered pairs"""
    two = Sym.lift(2)
    out = {}
    for k, parts in terms:
        for (pa, ca, dxa, dya, coa) in parts:
            Sa = S[pa]
            for (pb, cb, dxb, dyb, cob) in parts:
                Sb = S[pb]
                sc = k * coa * cob * (two / Sa.a) ** dxa * (two / Sa.b) ** dya * (two / Sb.a) ** dxb * (two / Sb.b) ** dyb
                for (ia, ja, qa) in Sa.dofs():
                    if qa != ca:
                        continue
                    for (ib, jb, qb) in Sb.dofs():
                        if qb != cb:
                            continue
                        if kind == 'x-line':
                            v = (a1 / 2) * atoms.I(dxa, ia, Sa.flags[ca]['x'], dxb, ib, Sb.flags[cb]['x']) \
                                * atoms.Fv(dya, ja, fixed[pa], Sa.flags[ca]['y']) * atoms.Fv(dyb, jb, fixed[pb], Sb.flags[cb]['y'])
                        elif kind == 'y-line':
                            v = (b1 / 2) * atoms.I(dya, ja, Sa.flags[ca]['y'], dyb, jb, Sb.flags[cb]['y']) \
                                * atoms.Fv(dxa, ia, fixed[pa], Sa.flags[ca]['x']) * atoms.Fv(dxb, ib, fixed[pb], Sb.flags[cb]['x'])
                        else:
                            v = (a1 * b1 / 4) * atoms.I(dxa, ia, Sa.flags[ca]['x'], dxb, ib, Sb.flags[cb]['x']) \
                                * atoms.I(dya, ja, Sa.flags[ca]['y'], dyb, jb, Sb.flags[cb]['y'])
                        key = ((pa, Sa.dof(ia, ja, qa)), (pb, Sb.dof(ib, jb, qb)))
                        out[key] = out[key] + sc * v if key in out else sc * v
    return out
