"""C19 -- Piston-theory aerodynamic matrices represent the stated pressure law.

Real Panel.calc_kA / calc_cA (E4, incl. make_skew_symmetric / finalize_symmetric_matrix) over de-Cythonised
fkAx, fkAy, fcA (plate, w-only plate, cylindrical panel).  The hypothesis of the statement -- w restrained on the
upstream and downstream edges -- is imposed by setting the two translation flags of w on the flow edges to 0; the
integral tables are interpreted exactly (atom mode 'exact'), so integration by parts is available to the solver as
arithmetic.  Oracle: kA[A,B] = beta int w_A dw_B/dflow - gamma int w_A w_B  (gamma for curved panels only),
cA[A,B] = -aeromu int w_A w_B times the imaginary unit."""
import json
import numpy as np
import z3
from fractions import Fraction
from ..harness import Run, pmap
from .. import kprop
from ..sym import Sym, CSym
from ..panelsym import PanelCtx, positivity, series_of
from ..oracles import energy as E

MODELS = {'plate': 'compmech/panel/models/plate_clt_donnell_bardell.pyx',
          'plate_w': 'compmech/panel/models/plate_clt_donnell_bardell_w.pyx',
          'cpanel': 'compmech/panel/models/cpanel_clt_donnell_bardell.pyx'}


def bilinear(ctx, p, model, flow, beta, gamma):
    """{(row, col): beta int w_A dw_B/dflow - gamma int w_A w_B}, all rows/cols (not only the upper triangle)"""
    S = series_of(p, model)
    d = (1, 0) if flow == 'x' else (0, 1)
    ops = {'W': {'w': [(Sym.lift(1), 0, 0)]}, 'DW': {'w': [(Sym.lift(1), d[0], d[1])]}}
    W = {('W', 'DW'): Sym.lift(beta)}
    if gamma is not None:
        W[('W', 'W')] = -Sym.lift(gamma)
    return E.hessian(ctx.atoms, ops, W, S, only_upper=False)


class OrderPolicy:
    """comparisons met in calc_kA's Mach route: decided from the stated assumptions (Mach > 1, r > 0), recorded"""

    def __init__(self, facts):
        self.facts = facts
        self.log = []

    def __call__(self, kind, lhs, rhs):
        from ..sym import identity_terms
        L, R = identity_terms(lhs, rhs)
        rel = {'eq': L == R, 'ne': L != R, 'lt': L < R, 'le': L <= R, 'gt': L > R, 'ge': L >= R}[kind]
        for val, c in ((True, rel), (False, z3.Not(rel))):
            s = z3.Solver()
            s.set('timeout', 10000)
            for f in self.facts:
                s.add(f)
            s.add(z3.Not(c))
            if s.check() == z3.unsat:
                self.log.append('%s decided %s from assumptions' % (kind, val))
                return val
        if kind == 'ne':
            return True
        if kind == 'eq':
            return False
        from ..sym import SymBranch
        raise SymBranch('cannot decide %s from the stated assumptions' % kind)


def build(cfg, values=None):
    model, m, n, variant, flow = cfg['model'], cfg['m'], cfg['n'], cfg['variant'], cfg['flow']
    ctx = PanelCtx(atom_mode='exact', values=values, seed=cfg.get('seed', 0))
    obs = []
    facts = []
    with ctx.shadow():
        p = ctx.new_panel(model, m, n)
        num = 1 if model == 'plate_w' else 3
        p._rebuild()
        p.flow = flow
        # w restrained on the upstream / downstream edges
        if flow == 'x':
            p.w1tx = 0
            p.w2tx = 0
        else:
            p.w1ty = 0
            p.w2ty = 0
        if variant in ('kA', 'kA-gamma-only'):
            p.beta = ctx.V('beta') if variant == 'kA' else 0
            if model == 'cpanel' and flow == 'x':
                p.gamma = ctx.V('gamma')
            K = p.calc_kA(silent=True).todict()
            g = p.gamma if (model == 'cpanel' and flow == 'x') else None
            H = bilinear(ctx, p, model, flow, p.beta, g)
            for k in sorted(set(H) | set(K)):
                r, c = k
                pos = 'upper' if r < c else ('diag' if r == c else 'lower')
                fam = 'kA-%s' % pos
                obs.append(('%s[%d,%d]' % (fam, r, c), K.get(k, 0), H.get(k, 0)))
                if (k[0] % num != num - 1) or (k[1] % num != num - 1):
                    obs.append(('kA-w-only[%d,%d]' % k, K.get(k, 0), 0))
        elif variant == 'cA':
            am = ctx.V('aeromu')
            p.size = p.get_size()
            if cfg.get('after_edge_redefinition'):
                # the damping matrix was already asked for with OTHER w edge conditions (and another coefficient) on the same object
                now = {nm: getattr(p, nm) for nm in ('w1tx', 'w2rx', 'w2ty', 'w1ry')}
                for nm in now:
                    setattr(p, nm, ctx.V(nm + '_before'))
                p.calc_cA(am, silent=True)
                for nm, v_ in now.items():
                    setattr(p, nm, v_)
            p.calc_cA(am, silent=True)
            C = p.cA.todict()
            S = series_of(p, model)
            ops = {'W': {'w': [(Sym.lift(1), 0, 0)]}}
            H = E.hessian(ctx.atoms, ops, {('W', 'W'): -am}, S, only_upper=False)
            for k in sorted(set(H) | set(C)):
                v = C.get(k, 0)
                re, im = (v.re, v.im) if isinstance(v, CSym) else (v, 0)
                obs.append(('cA-imag[%d,%d]' % k, im, H.get(k, 0)))
                obs.append(('cA-real[%d,%d]' % k, re, 0))
        elif variant == 'mach':
            from ..sym import Sym as _S
            M, rho, V_, ainf = ctx.V('Mach'), ctx.V('rho_air'), ctx.V('V'), ctx.V('speed_sound')
            q = ctx.V('sqrt_M2m1')
            if values is not None:
                # consistent concrete point: q rational, Mach^2 = 1 + q^2 needs a rational Mach: use a Pythagorean triple
                M, q = _S(Fraction(5, 3)), _S(Fraction(4, 3))
            p.Mach, p.rho_air, p.V, p.speed_sound = M, rho, V_, ainf
            p.beta = None
            hook_saved = _S.SQRT_HOOK
            roots = []

            def hook(x):
                roots.append(x)
                return q
            _S.SQRT_HOOK = hook
            pol_saved = _S.POLICY
            if values is None:
                facts = [M.n > 1, q.n > 0, q.n * q.n == M.n * M.n - 1, rho.n > 0, V_.n > 0, ainf.n > 0]
                if isinstance(p.r, _S) and not p.r.is_numeric():
                    facts.append(p.r.n > 0)
                _S.POLICY = OrderPolicy(facts)
            try:
                if cfg.get('history'):
                    # an earlier evaluation of the same panel object at another flight condition (speed sweep): the result must
                    # follow the CURRENT Mach number, density and speed
                    M0, rho0, V0, q0 = ctx.V('Mach_before'), ctx.V('rho_before'), ctx.V('V_before'), ctx.V('sqrt_before')
                    if values is not None:
                        M0, q0 = _S(Fraction(13, 5)), _S(Fraction(12, 5))
                    p.Mach, p.rho_air, p.V = M0, rho0, V0
                    _S.SQRT_HOOK = lambda x: q0
                    if values is None:
                        _S.POLICY = OrderPolicy(facts + [M0.n > 1, q0.n > 0, q0.n * q0.n == M0.n * M0.n - 1, rho0.n > 0, V0.n > 0])
                    p.calc_kA(silent=True)
                    p.Mach, p.rho_air, p.V = M, rho, V_
                    _S.SQRT_HOOK = hook
                K = p.calc_kA(silent=True).todict()
            finally:
                _S.SQRT_HOOK = hook_saved
                _S.POLICY = pol_saved
            for x in roots:
                obs.append(('sqrt-argument', x, M * M - 1))
            beta_e = rho * V_ * V_ / q
            gamma_e = beta_e / (2 * p.r * q) if (model == 'cpanel') else None
            # compare against the explicit-coefficient route of the same method (upper triangle: the skew completion is the other group)
            p2 = ctx.new_panel(model, m, n, prefix='')
            p2._rebuild()
            p2.flow = flow
            for nm in ('w1tx', 'w2tx', 'w1ty', 'w2ty'):
                setattr(p2, nm, getattr(p, nm))
            p2.beta = beta_e
            p2.gamma = gamma_e if (gamma_e is not None and flow == 'x') else None
            K2 = p2.calc_kA(silent=True).todict()
            for k in sorted(set(K) | set(K2)):
                obs.append(('kA-mach-route[%d,%d]' % k, K.get(k, 0), K2.get(k, 0)))
        elif variant in ('bay-kA', 'bay-cA'):
            # a stiffened-panel bay whose (single) skin panel covers the whole domain: its aerodynamic matrices are those of the
            # equivalent stand-alone Panel with the same coefficients
            from . import c13
            # the edge flags are defined on the BAY before its skin is added (add_panel hands them to the skin panel): the reference
            # panel carries the same flags
            bcfg = {'m': m, 'n': n, 'stiffeners': [], 'cuts': 0,
                    'flags': {c_ + e + d_: getattr(p, c_ + e + d_) for c_ in 'uvw' for e in ('1t', '1r', '2t', '2r') for d_ in 'xy'}}
            bay, comps = c13.make_bay(ctx, bcfg)
            bay.flow = flow
            p.a, p.b = bay.a, bay.b
            if model == 'cpanel':
                bay.r = p.r
            beta_, gamma_, mu_ = ctx.V('beta'), (ctx.V('gamma') if (model == 'cpanel' and flow == 'x') else None), ctx.V('aeromu')
            bay.beta, bay.gamma, bay.aeromu = beta_, gamma_, mu_
            p.beta, p.gamma = beta_, gamma_
            if cfg.get('mach_route'):
                # coefficients from Mach number, density, speed and speed of sound on the BAY; the panel gets the resulting values
                from ..sym import Sym as _S
                M_, rho_, V_, ainf_, q_ = ctx.V('Mach'), ctx.V('rho_air'), ctx.V('V'), ctx.V('speed_sound'), ctx.V('sqrt_M2m1')
                if values is not None:
                    M_, q_ = _S(Fraction(5, 3)), _S(Fraction(4, 3))
                if cfg.get('after_explicit_definition'):
                    # the bay was first evaluated with explicitly given coefficients, then re-defined through Mach number etc.
                    (bay.calc_kA if variant == 'bay-kA' else bay.calc_cA)(silent=True)
                bay.beta = bay.gamma = bay.aeromu = None
                bay.Mach, bay.rho_air, bay.V, bay.speed_sound = M_, rho_, V_, ainf_
                beta_ = rho_ * V_ * V_ / q_
                mu_ = beta_ / (M_ * ainf_) * (M_ * M_ - 2) / (M_ * M_ - 1)
                p.beta, p.gamma = beta_, None
                hook_saved, pol_saved = _S.SQRT_HOOK, _S.POLICY
                _S.SQRT_HOOK = lambda x: q_
                if values is None:
                    _S.POLICY = OrderPolicy([M_.n > 1, q_.n > 0, q_.n * q_.n == M_.n * M_.n - 1, rho_.n > 0, V_.n > 0, ainf_.n > 0])
            if variant == 'bay-kA':
                K1 = bay.calc_kA(silent=True).todict()
                K2 = p.calc_kA(silent=True).todict()
                for k in sorted(set(K1) | set(K2)):
                    obs.append(('bay-kA-vs-panel[%d,%d]' % k, K1.get(k, 0), K2.get(k, 0)))
            else:
                if cfg.get('after_skin_redefinition'):
                    # the bay was already asked for its damping matrix with OTHER w edge conditions of the skin
                    names = ('w1rx', 'w2rx', 'w1ty')
                    now = {nm: getattr(bay.panels[0], nm) for nm in names}
                    for sk in bay.panels:
                        for nm in names:
                            setattr(sk, nm, ctx.V(nm + '_before'))
                    bay.calc_cA(silent=True)
                    for sk in bay.panels:
                        for nm in names:
                            setattr(sk, nm, now[nm])
                bay.calc_cA(silent=True)
                p.calc_cA(mu_, silent=True)
                K1, K2 = bay.cA.todict(), p.cA.todict()
                for k in sorted(set(K1) | set(K2)):
                    a_, b_ = K1.get(k, 0), K2.get(k, 0)
                    ar, ai = (a_.re, a_.im) if isinstance(a_, CSym) else (a_, 0)
                    br, bi = (b_.re, b_.im) if isinstance(b_, CSym) else (b_, 0)
                    obs.append(('bay-cA-vs-panel-imag[%d,%d]' % k, ai, bi))
                    obs.append(('bay-cA-vs-panel-real[%d,%d]' % k, ar, br))
            if cfg.get('mach_route'):
                _S.SQRT_HOOK, _S.POLICY = hook_saved, pol_saved
        elif variant == 'cA-default':
            # calc_cA() without an argument (as Panel.freq calls it) uses the panel's own coefficient: the aeromu attribute on the
            # explicit route
            mu_ = ctx.V('aeromu')
            p.beta, p.gamma, p.aeromu = ctx.V('beta'), None, mu_
            p.calc_cA(silent=True)
            K1 = p.cA.todict()
            p.calc_cA(mu_, silent=True)
            K2 = p.cA.todict()
            for k in sorted(set(K1) | set(K2)):
                a_, b_ = K1.get(k, 0), K2.get(k, 0)
                ar, ai = (a_.re, a_.im) if isinstance(a_, CSym) else (a_, 0)
                br, bi = (b_.re, b_.im) if isinstance(b_, CSym) else (b_, 0)
                obs.append(('cA-default-vs-explicit-imag[%d,%d]' % k, ai, bi))
                obs.append(('cA-default-vs-explicit-real[%d,%d]' % k, ar, br))
        elif variant == 'exchange':
            # flow along y on (a,b,flags) == flow along x on the axis-exchanged panel
            p.beta = ctx.V('beta')
            p.flow = 'y'
            p.w1ty = 0
            p.w2ty = 0
            K1 = p.calc_kA(silent=True).todict()
            p2 = ctx.new_panel(model, n, m, prefix='')
            p2._rebuild()
            p2.a, p2.b = p.b, p.a
            for c_ in 'uvw':
                for e in ('1t', '1r', '2t', '2r'):
                    setattr(p2, c_ + e + 'x', getattr(p, c_ + e + 'y'))
                    setattr(p2, c_ + e + 'y', getattr(p, c_ + e + 'x'))
            p2.flow = 'x'
            p2.beta = p.beta
            p2.gamma = None
            K2 = p2.calc_kA(silent=True).todict()

            def swap(idx):
                comp = idx % num
                ij = idx // num
                j, i = divmod(ij, m)        # panel 1: dof = num*(j*m + i)
                return num * (i * n + j) + comp   # panel 2 has m2 = n, n2 = m: dof = num*(j2*m2 + i2) with i2 = j, j2 = i
            for (r, c), v in sorted(K1.items()):
                obs.append(('kA-axis-exchange[%d,%d]' % (r, c), v, K2.get((swap(r), swap(c)), 0)))
            if len(K1) != len(K2):
                obs.append(('kA-axis-exchange-count', Sym.lift(len(K1)), Sym.lift(len(K2))))
        else:
            raise ValueError(variant)
    assumptions = (positivity(ctx, p, model) + list(facts)) if values is None else []
    info = {'stats': {k: v.stats.as_dict() for k, v in ctx.kernels.mods.items()}, 'values': {k: str(v) for k, v in ctx.used_values.items()}}
    return obs, assumptions, info


def real_exception(cfg):
    """the same call on the compiled build with floats: does it raise?"""
    from compmech.panel import Panel
    from compmech.stiffpanelbay import StiffPanelBay
    lp = (142.5e9, 8.7e9, 0.28, 5.1e9, 5.1e9, 5.1e9)
    try:
        if cfg['variant'] == 'cA-default':
            p = Panel(a=1., b=0.5, stack=[0, 90, 0], plyt=1e-3, laminaprop=lp, m=4, n=4, mu=1600.)
            if cfg['model'] == 'cpanel':
                p.model, p.r = 'cpanel_clt_donnell_bardell', 3.
            p.beta, p.aeromu = 1e4, 0.1
            p.calc_cA(silent=True)
        elif cfg['variant'] in ('bay-kA', 'bay-cA'):
            bay = StiffPanelBay()
            bay.a, bay.b, bay.m, bay.n, bay.stack, bay.plyt, bay.laminaprop, bay.mu = 1., 0.5, 4, 4, [0, 90, 0], 1e-3, lp, 1600.
            if cfg['model'] == 'cpanel':
                bay.model, bay.r = 'cpanel_clt_donnell_bardell', 3.
            bay.add_panel(0, 0.5)
            bay.flow = cfg['flow']
            if cfg.get('mach_route'):
                if cfg.get('after_explicit_definition'):
                    bay.beta, bay.aeromu = 1e4, 0.1
                    (bay.calc_kA if cfg['variant'] == 'bay-kA' else bay.calc_cA)(silent=True)
                    bay.beta = bay.aeromu = None
                bay.Mach, bay.rho_air, bay.V, bay.speed_sound = 2., 1.2, 600., 340.
            else:
                bay.beta, bay.aeromu = 1e4, 0.1
            (bay.calc_kA if cfg['variant'] == 'bay-kA' else bay.calc_cA)(silent=True)
        else:
            return None
    except Exception as e:
        return '%s: %s' % (type(e).__name__, e)
    return None


def configs(tier, seed):
    out = []
    quick = tier == 'quick'
    pairs = [(2, 2), (3, 2), (5, 1), (1, 4)] if quick else [(2, 2), (3, 2), (2, 3), (4, 3), (5, 5), (8, 6), (6, 9), (12, 2)]
    for model in MODELS:
        for flow in ('x', 'y'):
            for (m, n) in pairs:
                out.append({'model': model, 'm': m, 'n': n, 'variant': 'kA', 'flow': flow, 'group': 'kA-flow-%s:%s' % (flow, model)})
            out.append({'model': model, 'm': 4 if flow == 'x' else 1, 'n': 1 if flow == 'x' else 4, 'variant': 'mach', 'flow': flow, 'group': 'mach-route-flow-%s:%s' % (flow, model)})
            out.append({'model': model, 'm': 4 if flow == 'x' else 1, 'n': 1 if flow == 'x' else 4, 'variant': 'mach', 'flow': flow, 'history': True, 'group': 'mach-route-second-flight-condition-flow-%s:%s' % (flow, model)})
        out.append({'model': model, 'm': 3, 'n': 2, 'variant': 'cA', 'flow': 'x', 'group': 'cA:%s' % model})
        out.append({'model': model, 'm': 2, 'n': 3, 'variant': 'cA', 'flow': 'y', 'group': 'cA:%s' % model})
        out.append({'model': model, 'm': 2, 'n': 2, 'variant': 'cA', 'flow': 'x', 'after_edge_redefinition': True, 'group': 'cA-after-edge-redefinition:%s' % model})
        if model != 'cpanel':
            out.append({'model': model, 'm': 3, 'n': 2, 'variant': 'exchange', 'flow': 'y', 'group': 'axis-exchange:%s' % model})
    out.append({'model': 'cpanel', 'm': 2, 'n': 2, 'variant': 'kA-gamma-only', 'flow': 'x', 'group': 'kA-gamma-only:cpanel'})
    for model in ('plate',):
        out.append({'model': model, 'm': 4, 'n': 1, 'variant': 'bay-kA', 'flow': 'x', 'group': 'bay-kA-explicit-coefficients:%s' % model})
        out.append({'model': model, 'm': 3, 'n': 1, 'variant': 'bay-cA', 'flow': 'x', 'group': 'bay-cA:%s' % model})
        out.append({'model': model, 'm': 3, 'n': 1, 'variant': 'bay-cA', 'flow': 'x', 'after_skin_redefinition': True, 'group': 'bay-cA-after-skin-redefinition:%s' % model})
        out.append({'model': model, 'm': 1, 'n': 4, 'variant': 'bay-kA', 'flow': 'y', 'group': 'bay-kA-explicit-coefficients-flow-y:%s' % model})
        out.append({'model': model, 'm': 4, 'n': 1, 'variant': 'bay-kA', 'flow': 'x', 'mach_route': True, 'group': 'bay-kA-mach-route:%s' % model})
        out.append({'model': model, 'm': 3, 'n': 1, 'variant': 'bay-cA', 'flow': 'x', 'mach_route': True, 'group': 'bay-cA-mach-route:%s' % model})
        out.append({'model': model, 'm': 4, 'n': 1, 'variant': 'bay-kA', 'flow': 'x', 'mach_route': True, 'after_explicit_definition': True, 'group': 'bay-kA-mach-route-after-explicit-coefficients:%s' % model})
        out.append({'model': model, 'm': 3, 'n': 1, 'variant': 'bay-cA', 'flow': 'x', 'mach_route': True, 'after_explicit_definition': True, 'group': 'bay-cA-mach-route-after-explicit-coefficients:%s' % model})
        out.append({'model': model, 'm': 3, 'n': 1, 'variant': 'cA-default', 'flow': 'x', 'group': 'cA-default-coefficient:%s' % model})
    out[0]['canary'] = True
    out[-2]['canary'] = True
    return out


def main():
    run = Run('C19', 'other', explanation=(
        'Bounded symbolic verification: Panel.calc_kA / calc_cA (real Python incl. make_skew_symmetric) over de-Cythonised '
        'fkAx/fkAy/fcA with exactly interpreted integral tables; w restrained on the flow edges; every entry of the full matrix '
        '(both triangles) is proved equal to beta*int(w_A dw_B/dflow) - gamma*int(w_A w_B), cA to -aeromu*int(w_A w_B)*i, only '
        'w-w positions, Mach/density/speed route equal to the explicit-coefficient route (sqrt(M^2-1) as an atom q with q^2 = M^2-1), '
        'flow along y equal to flow along x on the axis-exchanged panel.'))
    for rel in MODELS.values():
        for fn in ('fkAx', 'fkAy', 'fcA'):
            run.encoded(rel, fn)
    run.encoded('compmech/panel/_panel.py', 'Panel.calc_kA, Panel.calc_cA')
    run.encoded('compmech/sparse.py', 'make_skew_symmetric, finalize_symmetric_matrix')
    cf = configs(run.tier, run.seed)
    run.bounds = {'series_orders_(m,n)': sorted({(c['m'], c['n']) for c in cf}), 'configurations': len(cf)}
    run.assume('w = 0 on the upstream and downstream edges (flags w1t*, w2t* of the flow direction set to 0), all other flags symbolic',
               'integral tables = exact Bardell integrals (C10), interpreted exactly here', 'Mach > 1, q = sqrt(Mach^2-1) > 0, r > 0')
    run.outside = ['curved / stiffened bays beyond the flat-skin bay variants', 'conical panels (calc_kA raises NotImplementedError)', 'orders above the bound']
    res = pmap(kprop.job, [(__name__, c) for c in cf])
    res = kprop.explore_loci(__name__, res, run)      # second pass: the equality loci the executed code branched on
    kprop.handle(run, res, build, 'aerodynamic matrix entries differ from the piston-theory bilinear form')
    return run.finish()


def replay(path):
    d = json.load(open(path))
    cfg = d['replay']['cfg']
    bad, info = kprop.concrete_replay(build, cfg, d['replay'].get('inputs', {}))
    print('replay %s: %d differing entries' % (cfg, len(bad)))
    for b in bad[:10]:
        print('  %s impl=%r oracle=%r' % b)
    return 1 if bad else 0
