"""C10 -- Bardell functions, integral tables, quadrature tables are exact.

Engine E2 (C tables read as exact polynomials from /repo/compmech/lib/src) + E5 (exact oracle) + z3 (LRA).
Per table entry the claim  |impl - exact| <= TOL * sum|exact coefficients|  on the whole parameter box is put
to the solver with each monomial abstracted by a fresh real in [-1,1] (sound over-approximation -> LRA)."""
import os, sys, time, tempfile, shutil, ctypes, itertools
from fractions import Fraction
import z3
from ..harness import Run, REPO, pmap
from ..ctab import CTables, CParseError, build_shared
from ..poly import Poly
from ..oracles import bardell as B
from ..solve import model_to_dict

SRC = os.path.join(REPO, 'compmech', 'lib', 'src')
TOL = Fraction(1, 10 ** 12)
FLAGS4 = ('xi1t', 'xi1r', 'xi2t', 'xi2r')

FULL = [('integral_ff', 0, 0), ('integral_ffxi', 0, 1), ('integral_ffxixi', 0, 2),
        ('integral_fxifxi', 1, 1), ('integral_fxifxixi', 1, 2), ('integral_fxixifxixi', 2, 2)]
SUB = [(n + '_12', a, b) for n, a, b in FULL]
MAPPED = [('integral_ff_c0c1', 0, 0), ('integral_ffxi_c0c1', 0, 1), ('integral_fxif_c0c1', 1, 0),
          ('integral_fxifxi_c0c1', 1, 1), ('integral_fxixifxixi_c0c1', 2, 2)]
FILES = {'integral_ff': 'bardell.c', 'integral_ffxi': 'bardell.c', 'integral_ffxixi': 'bardell.c',
         'integral_fxifxi': 'bardell.c', 'integral_fxifxixi': 'bardell.c', 'integral_fxixifxixi': 'bardell.c'}
for n, _, _ in SUB:
    FILES[n] = 'bardell_' + n + '.c'
for n, _, _ in MAPPED:
    FILES[n] = 'bardell_' + n + '.c'


def exact_entry(name, i, j, d1, d2):
    if name.endswith('_12'):
        return B.integral(i, j, d1, d2, 'xi1', 'xi2')
    if name.endswith('_c0c1'):
        return B.integral_c0c1(i, j, d1, d2)
    return B.integral(i, j, d1, d2)


def box_query(diff, tol):
    """LRA obligation: exists monomial values in [-1,1] with |sum d_k m_k| > tol ?  -> (verdict, model, ms)"""
    t0 = time.time()
    s = z3.Solver()
    s.set('timeout', 30000)
    terms = []
    for k, (mono, c) in enumerate(diff.t.items()):
        if mono == ():
            terms.append(z3.Q(c.numerator, c.denominator))
            continue
        v = z3.Real('m%d' % k)
        s.add(v >= -1, v <= 1)
        terms.append(z3.Q(c.numerator, c.denominator) * v)
    tot = z3.Sum(terms) if terms else z3.RealVal(0)
    tq = z3.Q(tol.numerator, tol.denominator)
    s.add(z3.Or(tot > tq, tot < -tq))
    r = s.check()
    ms = (time.time() - t0) * 1000
    if r == z3.unsat:
        return 'unsat', None, ms
    if r == z3.sat:
        return 'sat', None, ms
    return 'unknown', None, ms


def refine(diff, tol, rng_seed=0):
    """look for a REAL point of the box where |diff| > tol (the abstraction said sat)"""
    import random
    rnd = random.Random(rng_seed)
    vs = sorted(diff.vars())
    flagvars = [v for v in vs if v[0] in 'xy' and v[1] in '12' or v in FLAGS4]
    cand = []
    grid = [Fraction(k, 10) for k in range(-10, 11)]
    for trial in range(800):
        env = {}
        for v in vs:
            if v in flagvars:
                # first all edge flags 1 (the usual case); then independent 0/1 flags and generic values in the box
                env[v] = Fraction(1) if trial < 400 else (Fraction(rnd.randint(0, 1)) if trial < 650 else rnd.choice(grid))
            else:
                env[v] = rnd.choice(grid)
        if 'xi1' in env and 'xi2' in env and env['xi1'] > env['xi2']:
            env['xi1'], env['xi2'] = env['xi2'], env['xi1']
        if 'c0' in env and 'c1' in env:
            if abs(env['c0']) + abs(env['c1']) > 1:
                env['c1'] = (1 - abs(env['c0'])) * (1 if env['c1'] >= 0 else -1)
        cand.append(env)
    best = None
    for env in cand:
        val = diff.eval(env)
        if best is None or abs(val) > abs(best[1]):
            best = (env, val)
    if best and abs(best[1]) > tol:
        return best
    # exact query over the real variables themselves (no abstraction): nlsat on the polynomial difference inside the box
    try:
        zs = {v: z3.Real(v) for v in vs}
        s = z3.Tactic('qfnra-nlsat').solver()
        s.set('timeout', 20000)
        for v in vs:
            s.add(zs[v] >= -1, zs[v] <= 1)
        if 'xi1' in zs and 'xi2' in zs:
            s.add(zs['xi1'] <= zs['xi2'])
        if 'c0' in zs and 'c1' in zs:
            for sg0 in (1, -1):
                for sg1 in (1, -1):
                    s.add(sg0 * zs['c0'] + sg1 * zs['c1'] <= 1)
        tot = z3.RealVal(0)
        for mono, c in diff.t.items():
            term = z3.Q(c.numerator, c.denominator)
            for v, e in mono:
                for _ in range(e):
                    term = term * zs[v]
            tot = tot + term
        tq = z3.Q(tol.numerator, tol.denominator)
        s.add(z3.Or(tot > tq, tot < -tq))
        if s.check() == z3.sat:
            m = s.model()
            env = {}
            for v in vs:
                val = m.eval(zs[v], model_completion=True)
                if z3.is_rational_value(val):
                    env[v] = Fraction(val.numerator_as_long(), val.denominator_as_long())
                else:
                    env[v] = Fraction(val.approx(20).as_fraction()) if hasattr(val, 'approx') else Fraction(0)
            val = diff.eval(env)
            if abs(val) > tol:
                return env, val
    except Exception:
        pass
    return None


def job_family(args):
    """one job = one (table function, row i): all j"""
    name, d1, d2, i = args
    T = CTables(SRC).load(FILES[name])
    out = {'name': name, 'i': i, 'ob': 0, 'unsat': 0, 'sat': [], 'unknown': [], 'ms': 0.0, 'worst': 0.0, 'samples': [], 'errors': []}
    for j in range(30):
        try:
            impl = T.entry(name, i, j)
        except CParseError as e:
            out['errors'].append('%s(%d,%d): %s' % (name, i, j, e))
            continue
        ex = exact_entry(name, i, j, d1, d2)
        out['ob'] += 1
        if impl is None:
            out['sat'].append({'j': j, 'why': 'no return value for this index pair', 'point': None})
            continue
        diff = impl - ex
        scale = ex.abs_coef_sum()
        tol = TOL * scale
        if not diff.is_zero() and scale:
            out['worst'] = max(out['worst'], float(diff.abs_coef_sum() / scale))
        v, _, ms = box_query(diff, tol)
        out['ms'] += ms
        if v == 'unsat':
            out['unsat'] += 1
        elif v == 'sat':
            pt = refine(diff, tol, i * 31 + j)
            if pt is None:
                out['unknown'].append({'j': j, 'why': 'abstraction sat, no real point found'})
            else:
                env, val = pt
                out['sat'].append({'j': j, 'why': 'differs from exact integral', 'point': {k: str(x) for k, x in env.items()},
                                   'impl_minus_exact': float(val), 'tol': float(tol), 'exact': float(ex.eval(env))})
        else:
            out['unknown'].append({'j': j, 'why': 'solver unknown'})
        # early returns on a region of the floating-point arguments (`if (xi1 <= -1. && xi2 >= 1.) return ...;`): inside the domain the
        # region is the point where the comparisons hold with equality; the value returned there must be the exact integral too
        try:
            edges = T.edge_values()
        except CParseError as e:
            out['errors'].append('%s(%d,%d): %s' % (name, i, j, e))
            edges = []
        for region, pe in edges:
            out['ob'] += 1
            if pe is None:
                out['sat'].append({'j': j, 'why': 'no return value on the region %s' % region, 'point': None})
                continue
            ex_pt, ok = ex, True
            for v_, (op_, lit_) in region.items():
                # inside the domain [-1, 1] the region must be a single boundary point: x <= -1, x >= 1 or x == +-1
                if v_ not in ('xi1', 'xi2') or (op_, lit_) not in (('<=', -1), ('==', -1), ('>=', 1), ('==', 1)):
                    ok = False
                ex_pt = ex_pt.subs(v_, Poly.const(lit_)) if v_ in ex_pt.vars() else ex_pt
                pe = pe.subs(v_, Poly.const(lit_)) if v_ in pe.vars() else pe
            if not ok:
                out['errors'].append('%s(%d,%d): early return on a region not understood: %s' % (name, i, j, region))
                continue
            dg = pe - ex_pt
            tol_g = TOL * (ex_pt.abs_coef_sum() or scale or 1)
            vg, _, msg_ = box_query(dg, tol_g)
            out['ms'] += msg_
            if vg == 'unsat':
                out['unsat'] += 1
            elif vg == 'sat':
                pt = refine(dg, tol_g, i * 31 + j + 7)
                if pt is None:
                    out['unknown'].append({'j': j, 'why': 'early-return region: abstraction sat, no real point found'})
                else:
                    env, val = pt
                    env = dict(env, **{v_: lit_ for v_, (op_, lit_) in region.items()})
                    out['sat'].append({'j': j, 'why': 'value returned early on %s differs from the exact integral' % ' && '.join('%s %s %s' % (v_, o_, l_) for v_, (o_, l_) in sorted(region.items())),
                                       'point': {k: str(x) for k, x in env.items()}, 'impl_minus_exact': float(val), 'tol': float(tol_g), 'exact': float(ex.eval(env))})
            else:
                out['unknown'].append({'j': j, 'why': 'early-return region: solver unknown'})
        if j == (i * 7) % 30:
            out['samples'].append({'entry': '%s(%d,%d)' % (name, i, j), 'monomials_in_difference': len(diff.t),
                                   'sum_abs_exact_coef': float(scale), 'sum_abs_diff_coef': float(diff.abs_coef_sum()), 'verdict': v})
    return out


def job_functions(_):
    """calc_vec_f*/calc_f* vs exact functions and derivatives, all 30 indices"""
    out = {'ob': 0, 'unsat': 0, 'sat': [], 'unknown': [], 'ms': 0.0, 'samples': [], 'errors': []}
    try:
        T = CTables(SRC).load('bardell_functions.c')
    except CParseError as e:
        out['errors'].append('bardell_functions.c: %s' % e)
        return out
    for d, (vec, sca, arr) in enumerate([('calc_vec_f', 'calc_f', 'f'), ('calc_vec_fxi', 'calc_fxi', 'fxi'), ('calc_vec_fxixi', 'calc_fxixi', 'fxixi')]):
        try:
            V = T.vector(vec)
        except CParseError as e:
            out['errors'].append('%s: %s' % (vec, e))
            V = {}
        keys = sorted(V.keys())
        if keys != [(arr, k) for k in range(30)]:
            out['sat'].append({'what': '%s assigns %d slots (names %s), expected %s[0..29]' % (vec, len(keys), sorted({a for a, _ in keys}), arr), 'point': None})
        for i in range(30):
            ex = B.f(i, 'xi', FLAGS4, d)
            tol = TOL * ex.abs_coef_sum()
            for which, impl in (('vec', V.get((arr, i))), ('scalar', None)):
                if which == 'scalar':
                    try:
                        impl = T.entry(sca, i)
                    except CParseError as e:
                        out['errors'].append('%s(%d): %s' % (sca, i, e))
                        continue
                out['ob'] += 1
                if impl is None:
                    out['sat'].append({'what': '%s %s index %d has no value' % (which, sca, i), 'point': None})
                    continue
                diff = impl - ex
                v, _, ms = box_query(diff, tol)
                out['ms'] += ms
                if v == 'unsat':
                    out['unsat'] += 1
                elif v == 'sat':
                    pt = refine(diff, tol, i)
                    if pt is None:
                        out['unknown'].append({'what': '%s %d' % (sca, i)})
                    else:
                        out['sat'].append({'what': '%s %s(%d) differs from Bardell polynomial derivative %d' % (which, sca, i, d),
                                           'fn': sca if which == 'scalar' else vec, 'i': i,
                                           'point': {k: str(x) for k, x in pt[0].items()}, 'impl_minus_exact': float(pt[1]), 'tol': float(tol)})
                else:
                    out['unknown'].append({'what': '%s %d unknown' % (sca, i)})
        out['samples'].append({'entry': '%s / %s, 30 indices' % (vec, sca), 'derivative': d})
    # partition of unity used by C04: f_0 + f_2 == 1 for unit flags  (exact oracle fact + table fact within tol)
    return out


def job_gauss(n):
    T = CTables(SRC).load('legendre_gauss_quadrature.c')
    out = {'n': n, 'ob': 0, 'unsat': 0, 'sat': [], 'unknown': [], 'ms': 0.0, 'samples': [], 'errors': []}
    try:
        V = T.vector('leggauss_quad', n)
    except CParseError as e:
        out['errors'].append('leggauss_quad(%d): %s' % (n, e))
        return out
    out['ob'] += 1
    if V is None:
        out['sat'].append({'what': 'leggauss_quad has no case %d' % n})
        return out
    pts = [V.get(('points', k)) for k in range(n)]
    wts = [V.get(('weights', k)) for k in range(n)]
    if any(p is None for p in pts) or any(w is None for w in wts) or len(V) != 2 * n:
        out['sat'].append({'what': 'leggauss_quad(%d) does not assign exactly points[0..%d], weights[0..%d]' % (n, n - 1, n - 1)})
        return out
    x = [p.t.get((), Fraction(0)) for p in pts]
    w = [p.t.get((), Fraction(0)) for p in wts]
    # moment errors e_k = sum w_i x_i^k - int_-1^1 xi^k
    t0 = time.time()
    s = z3.Solver()
    s.set('timeout', 120000)
    terms = []
    errs = []
    pw = [Fraction(1)] * n
    for k in range(2 * n):
        mk = sum(wi * p for wi, p in zip(w, pw))
        ex = Fraction(2, k + 1) if k % 2 == 0 else Fraction(0)
        e = mk - ex
        errs.append(e)
        a = z3.Real('a%d' % k)
        s.add(a >= -1, a <= 1)
        terms.append(z3.Q(e.numerator, e.denominator) * a)
        pw = [p * xi for p, xi in zip(pw, x)]
    tot = z3.Sum(terms)
    tq = z3.Q(TOL.numerator, TOL.denominator)
    s.add(z3.Or(tot > tq, tot < -tq))
    # interior nodes / positive weights / ascending order are part of the same obligation
    r = s.check()
    out['ms'] += (time.time() - t0) * 1000
    struct_ok = all(-1 < xi < 1 for xi in x) and all(wi > 0 for wi in w) and all(x[k] < x[k + 1] for k in range(n - 1))
    if r == z3.unsat and struct_ok:
        out['unsat'] += 1
    elif r == z3.sat or not struct_ok:
        kbad = max(range(2 * n), key=lambda k: abs(errs[k]))
        out['sat'].append({'what': 'Gauss-Legendre n=%d: monomial xi^%d integrated with error %.3e (tol 1e-12)%s' % (
            n, kbad, float(errs[kbad]), '' if struct_ok else '; node/weight structure wrong'), 'n': n, 'k': kbad, 'err': float(errs[kbad])})
    else:
        out['unknown'].append({'what': 'gauss n=%d solver unknown' % n})
    out['samples'].append({'entry': 'leggauss_quad n=%d' % n, 'free_coefficients': 2 * n, 'sum_abs_moment_error': float(sum(abs(e) for e in errs))})
    return out


def job_grid(arg):
    """E1: trapz2d_points / simps2d_points of integrate.pyx executed from source on symbolic domain limits.
    For each monomial x^p y^q the rule must be exact: sum_k alpha_k x_k^p y_k^q == int int x^p y^q  (p,q <= 1 trapezoid,
    <= 3 Simpson), beta_k == 1, and the number of points is what the function documents."""
    kind, nx, ny = arg
    from ..sym import Sym, reset
    from .. import cysym
    from ..harness import decide_job
    reset()
    import os
    M = cysym.Module(os.path.join(REPO, 'compmech/integrate/integrate.pyx'))
    xmin, xmax, ymin, ymax = [Sym.var(n) for n in ('xmin', 'xmax', 'ymin', 'ymax')]
    fn = M.ns['trapz2d_points' if kind == 'trapz' else 'simps2d_points']
    xs, ys, al, be = fn(xmin, xmax, nx, ymin, ymax, ny)
    obs = []
    deg = 1 if kind == 'trapz' else 3
    if kind == 'trapz':
        npts = nx * ny
    else:
        ex, ey = nx + (nx % 2), ny + (ny % 2)
        npts = (ex + 1) * (ey + 1)
    obs.append(('%s(%d,%d)-npoints' % (kind, nx, ny), Sym.lift(len(xs)), Sym.lift(npts)))
    for k in range(len(be)):
        if not (isinstance(be[k], (int, float)) and be[k] == 1) and not (isinstance(be[k], Sym) and be[k].is_numeric() and be[k].n == 1):
            obs.append(('%s(%d,%d)-beta[%d]' % (kind, nx, ny, k), be[k], 1))
    one = Sym.lift(1)

    def mom(lo, hi, p):
        return (hi ** (p + 1) - lo ** (p + 1)) / (p + 1)
    for p in range(deg + 1):
        for q in range(deg + 1):
            tot = Sym.lift(0)
            for k in range(len(xs)):
                tot = tot + al[k] * (Sym.lift(xs[k]) ** p) * (Sym.lift(ys[k]) ** q)
            obs.append(('%s(%d,%d)-x^%dy^%d' % (kind, nx, ny, p, q), tot, mom(xmin, xmax, p) * mom(ymin, ymax, q)))
    res = decide_job('quadrature-grids:%s' % kind, obs, [], timeout_ms=120000)
    res['stats'] = M.stats.as_dict()
    res['arg'] = arg
    return res


def replay_grid(kind, nx, ny):
    """concrete replay through the compiled extension when it is current"""
    from ..panelsym import so_is_current
    if not so_is_current('compmech/integrate/integrate.pyx'):
        return None
    import compmech.integrate.integrate as I
    fn = I.trapz2d_points if kind == 'trapz' else I.simps2d_points
    xs, ys, al, be = [__import__('numpy').asarray(v) for v in fn(0.5, 2.0, nx, -1.0, 3.0, ny)]
    deg = 1 if kind == 'trapz' else 3
    worst = 0.0
    for p in range(deg + 1):
        for q in range(deg + 1):
            got = float((al * xs ** p * ys ** q).sum())
            ex = (2.0 ** (p + 1) - 0.5 ** (p + 1)) / (p + 1) * (3.0 ** (q + 1) - (-1.0) ** (q + 1)) / (q + 1)
            worst = max(worst, abs(got - ex) / max(1.0, abs(ex)))
    return worst


def float_twin_functions():
    """the gcc-built function tables evaluated through ctypes at a few points INCLUDING the interval ends, against the exact
    polynomials (sampling, stated as such: it sees branches on the floating-point argument that the table reader does not interpret)"""
    tmp = tempfile.mkdtemp(prefix='c10f_')
    bad = []
    try:
        import subprocess
        so = os.path.join(tmp, 'libbardell_functions_verif.so')        # the function file alone (the integral tables take minutes to compile)
        subprocess.check_call(['gcc', '-O1', '-shared', '-fPIC', '-I', os.path.join(os.path.dirname(SRC), '..', 'include'), '-o', so, os.path.join(SRC, 'bardell_functions.c'), '-lm'])
        lib = ctypes.CDLL(so)
        pts = [Fraction(-1), Fraction(-3, 5), Fraction(0), Fraction(1, 4), Fraction(1)]
        for d, (vec, sca) in enumerate((('calc_vec_f', 'calc_f'), ('calc_vec_fxi', 'calc_fxi'), ('calc_vec_fxixi', 'calc_fxixi'))):
            fv, fs = getattr(lib, vec), getattr(lib, sca)
            fs.restype = ctypes.c_double
            for xi in pts:
                buf = (ctypes.c_double * 30)()
                fv(buf, ctypes.c_double(float(xi)), *[ctypes.c_double(1.)] * 4)
                for i in range(30):
                    pol = B.f(i, 'xi', FLAGS4, d)
                    ex = float(pol.eval({'xi': xi, **{k: Fraction(1) for k in FLAGS4}}))
                    tol = max(1e-12, 1e-11 * float(pol.abs_coef_sum()))        # double evaluation of a polynomial with large alternating coefficients
                    sc = fs(ctypes.c_int(i), ctypes.c_double(float(xi)), *[ctypes.c_double(1.)] * 4)
                    for which, got in ((vec, buf[i]), (sca, sc)):
                        if abs(got - ex) > tol:
                            bad.append({'function': which, 'index': i, 'xi': str(xi), 'got': got, 'exact': ex})
    finally:
        shutil.rmtree(tmp, ignore_errors=True)
    return bad


def replay_table(lib, name, i, j, point):
    """concrete replay through the gcc-built table"""
    fn = getattr(lib, name)
    fn.restype = ctypes.c_double
    fl = [float(Fraction(point.get(k, '1'))) for k in ('x1t', 'x1r', 'x2t', 'x2r', 'y1t', 'y1r', 'y2t', 'y2r')]
    if name.endswith('_12'):
        args = [ctypes.c_double(float(Fraction(point['xi1']))), ctypes.c_double(float(Fraction(point['xi2']))), ctypes.c_int(i), ctypes.c_int(j)]
    elif name.endswith('_c0c1'):
        args = [ctypes.c_double(float(Fraction(point['c0']))), ctypes.c_double(float(Fraction(point['c1']))), ctypes.c_int(i), ctypes.c_int(j)]
    else:
        args = [ctypes.c_int(i), ctypes.c_int(j)]
    args += [ctypes.c_double(v) for v in fl]
    return fn(*args)


def main():
    run = Run('C10', 'other', explanation=(
        'Bounded symbolic verification of the generated C tables read from source: every entry (index domain 0..29 '
        'exhaustive) of every integral family, of the function/derivative tables and every Gauss-Legendre order 2..64 is '
        'compared with an exact rational oracle; the solver (z3, LRA) decides for all parameter values in the box that the '
        'deviation stays below 1e-12 * sum|exact coefficients| (monomials abstracted by reals in [-1,1]).  A sat answer is '
        'refined to a real point and replayed through the gcc-built table via ctypes before it is reported.'))
    quick = run.tier == 'quick'
    run.bounds = {'indices': '0..29 x 0..29 exhaustive', 'flags': 'real in [-1,1]', 'xi,xi1,xi2': '[-1,1]',
                  'c0,c1': '|c0|+|c1|<=1', 'gauss_orders': '2..64', 'tolerance': '1e-12 * sum|exact coef|',
                  'families': 'all 17 complete in both tiers (the quick tier differs in the trapezoid / Simpson grids only)'}
    run.assume('real arithmetic; IEEE evaluation error of the polynomials is outside the claim',
               'decimal literals are read as the doubles the compiler stores',
               'flags, xi in [-1,1] (monomial abstraction is sound on that box)')
    jobs = []
    for name, d1, d2 in FULL:
        for i in range(30):
            jobs.append((name, d1, d2, i))
    for name, d1, d2 in SUB + MAPPED:
        for i in range(30):
            jobs.append((name, d1, d2, i))
    for f in sorted(set(FILES.values())) + ['bardell_functions.c', 'legendre_gauss_quadrature.c']:
        run.encoded('compmech/lib/src/' + f, '*')
    t0 = time.time()
    # heavy rows first
    jobs.sort(key=lambda a: (-(a[0].endswith('_c0c1')), -a[3]))
    res = pmap(job_family, jobs)
    fres = job_functions(None)
    gres = pmap(job_gauss, list(range(2, 65)))
    maxg = 8 if quick else 24
    grids = [(k, nx, ny) for k in ('trapz', 'simps') for nx in range(2, maxg + 1) for ny in range(2, maxg + 1)
             if (not quick and (nx <= 9 or ny <= 4 or nx == ny or (nx + ny + run.seed) % 5 == 0)) or (quick and (nx <= 5 or ny <= 3 or nx == ny))]
    qres = pmap(job_grid, grids)
    run.encoded('compmech/integrate/integrate.pyx', 'trapz_quad, trapz2d_points, simps2d_points')
    run.bounds['trapezoid_simpson_grids'] = 'nx, ny in 2..%d (%d grids, incl. odd counts which Simpson rounds up); symbolic xmin,xmax,ymin,ymax; monomials up to bilinear / bicubic' % (maxg, len(grids))
    for r in qres:
        sats = run.absorb_job(r)
        if sats:
            kind, nx, ny = r['arg']
            worst = replay_grid(kind, nx, ny)
            rep = {'grid': r['arg'], 'failed': [s_['name'] for s_ in sats][:8], 'compiled_replay_max_rel_error': worst,
                   'note': 'compiled extension not current: source-level finding only' if worst is None else ''}
            if worst is not None and worst < 1e-9:
                run.harness_error('grid violation %s did not replay on the compiled extension' % (r['arg'],))
                continue
            run.violation('%s2d_points/%s' % (kind, sats[0]['name'].split('-', 1)[1].split('[')[0]),
                          '%s2d_points(nx=%d, ny=%d): %s fails (e.g. weights do not integrate x^p y^q exactly)' % (kind, nx, ny, sats[0]['name']), rep)
    lib = None
    tmp = None
    viol = []
    for r in res:
        g = run.groups.setdefault(r['name'], {'obligations': 0, 'discharged': 0, 'sat': 0, 'unknown': 0, 'worst_rel_dev': 0.0})
        g['obligations'] += r['ob']
        g['discharged'] += r['unsat']
        g['sat'] += len(r['sat'])
        g['unknown'] += len(r['unknown'])
        g['worst_rel_dev'] = max(g['worst_rel_dev'], r['worst'])
        run.obligations += r['ob']
        run.discharged += r['unsat']
        run.solver_s += r['ms'] / 1000
        run.queries += r['ob']
        for e in r['errors']:
            run.harness_error(e)
        for u in r['unknown']:
            run.inconclusive.append({'name': '%s(%d,%d)' % (r['name'], r['i'], u['j']), 'info': u['why']})
        for s in r['samples'][:1]:
            run.sample(s, cap=10)
        for s in r['sat']:
            viol.append((r['name'], r['i'], s))
    for r, label in [(fres, 'functions')] + [(g, 'gauss') for g in gres]:
        g = run.groups.setdefault(label, {'obligations': 0, 'discharged': 0, 'sat': 0, 'unknown': 0})
        g['obligations'] += r['ob']
        g['discharged'] += r['unsat']
        g['sat'] += len(r['sat'])
        g['unknown'] += len(r['unknown'])
        run.obligations += r['ob']
        run.discharged += r['unsat']
        run.solver_s += r['ms'] / 1000
        run.queries += r['ob']
        for e in r['errors']:
            run.harness_error(e)
        for u in r['unknown']:
            run.inconclusive.append({'name': u['what'], 'info': ''})
        for s in r['samples'][:1]:
            run.sample(s, cap=14)
        for s in r['sat']:
            viol.append((label, None, s))
    try:
        twin = float_twin_functions()
    except Exception as e:
        twin = []
        run.harness_error('float twin of the function tables could not be built: %s' % e)
    run.extra['float_twin_of_the_function_tables'] = {'points': ['-1', '-3/5', '0', '1/4', '1'], 'mismatches': len(twin)}
    if twin:
        run.obligations += 1
        b0 = twin[0]
        run.violation('functions/float-twin/%s' % b0['function'], '%s: %d values of the gcc-built function tables differ from the exact polynomials, e.g. index %d at xi=%s: %.6g, exact %.6g (float twin: one evaluation per point, no solver verdict)' % (
            b0['function'], len(twin), b0['index'], b0['xi'], b0['got'], b0['exact']), {'mismatches': twin[:20]})
    # replay violations through the real (gcc-built) tables
    if viol:
        tmp = tempfile.mkdtemp(prefix='c10_')
        try:
            lib = ctypes.CDLL(build_shared(SRC, tmp))
        except Exception as e:
            run.harness_error('cannot build tables for replay: %s' % e)
    for name, i, s in viol:
        if name in ('functions', 'gauss') or s.get('point') is None:
            key = '%s:%s' % (name, s.get('what', s.get('why', '')))[:120]
            rep = dict(s)
            if name == 'gauss' and lib is not None and 'n' in s:
                n = s['n']
                P = (ctypes.c_double * n)()
                W = (ctypes.c_double * n)()
                lib.leggauss_quad(ctypes.c_int(n), P, W)
                got = sum(W[k] * P[k] ** s['k'] for k in range(n))
                ex = 2.0 / (s['k'] + 1) if s['k'] % 2 == 0 else 0.0
                rep['replayed'] = {'sum_w_x^k': got, 'exact': ex}
                if abs(got - ex) <= 1e-12:
                    run.harness_error('gauss violation did not replay: %s' % key)
                    continue
            if name == 'functions' and lib is not None and s.get('point') and 'fn' in s and s['fn'].startswith('calc_f'):
                fn = getattr(lib, s['fn'])
                fn.restype = ctypes.c_double
                pt = s['point']
                got = fn(ctypes.c_int(s['i']), ctypes.c_double(float(Fraction(pt.get('xi', '0')))), *[ctypes.c_double(float(Fraction(pt.get(k, '1')))) for k in FLAGS4])
                rep['replayed_value'] = got
            run.violation(key, s.get('what', s.get('why', '')), rep)
            continue
        j = s['j']
        key = '%s(%d,%d)' % (name, i, j)
        rep = dict(s)
        if lib is not None:
            got = replay_table(lib, name, i, j, s['point'])
            rep['replayed_table_value'] = got
            rep['exact_value'] = s['exact']
            if abs(got - s['exact']) <= s['tol']:
                run.harness_error('violation %s did not replay on the compiled table (got %r exact %r)' % (key, got, s['exact']))
                continue
        run.violation(key, '%s: table value differs from the exact integral by %.3e (tol %.1e) at %s' % (key, s['impl_minus_exact'], s['tol'], s['point']), rep)
    if tmp:
        shutil.rmtree(tmp, ignore_errors=True)
    # canary: a perturbed exact value must be caught
    T = CTables(SRC).load('bardell.c')
    impl = T.entry('integral_ff', 5, 7)
    ex = B.integral(5, 7, 0, 0)
    v, _, _ = box_query(impl - ex.scale(Fraction(1000001, 1000000)), TOL * ex.abs_coef_sum())
    run.canary(v == 'sat', 'integral_ff(5,7) against exact*1.000001')
    impl = T.entry('integral_ffxi', 0, 1)
    ex = B.integral(0, 1, 0, 1)
    v, _, _ = box_query(impl + ex, TOL * ex.abs_coef_sum())
    run.canary(v == 'sat', 'integral_ffxi(0,1) with sign flipped')
    run.extra['exhaustive'] = not quick
    run.outside = ['trapezoid/Simpson grids above the bound (the functions are loops over nx, ny: same code)', 'floating point evaluation error']
    return run.finish()


def replay(path):
    import json
    d = json.load(open(path))
    print(json.dumps(d, indent=1)[:2000])
    return 0
