"""E3: path-forking symbolic execution of real Python control flow by re-execution under decision prefixes.

Symbolic reals `V` wrap z3 terms; a comparison yields `B`, whose __bool__ asks the solver which outcomes are feasible
under the current path condition: both -> take True now, remember False; DFS over decision prefixes.  Formatting is
inert so that logging neither forks nor concretises.  Paths are independent given their prefix, so a frontier of
prefixes can be explored by separate processes."""
import time
from fractions import Fraction
import z3


class Abort(BaseException):
    """infeasible path / budget exhausted (BaseException: must not be swallowed by `except Exception` in the code under test)"""


class PathViolation(BaseException):
    def __init__(self, what, data=None):
        BaseException.__init__(self, what)
        self.what, self.data = what, data


class Ctx:
    cur = None

    def __init__(self, prefix=(), timeout_ms=10000, max_decisions=400):
        self.solver = z3.Solver()
        self.solver.set('timeout', timeout_ms)
        self.prefix = list(prefix)
        self.trace = []          # [(bool, done)]
        self.queries = 0
        self.unknowns = 0
        self.max_decisions = max_decisions
        self.fresh_count = 0

    def assume(self, cond):
        self.solver.add(cond)

    def fresh(self, name):
        self.fresh_count += 1
        return V(z3.Real('%s_%d' % (name, self.fresh_count)))

    def decide(self, cond):
        i = len(self.trace)
        if i >= self.max_decisions:
            raise Abort('decision budget')
        if i < len(self.prefix):
            b, done = self.prefix[i]
            self.solver.add(cond if b else z3.Not(cond))
            self.trace.append((b, done))
            return b
        self.queries += 2
        self.solver.push()
        self.solver.add(cond)
        rt = self.solver.check()
        self.solver.pop()
        self.solver.push()
        self.solver.add(z3.Not(cond))
        rf = self.solver.check()
        self.solver.pop()
        if rt == z3.unknown or rf == z3.unknown:
            self.unknowns += 1
        ft, ff = rt != z3.unsat, rf != z3.unsat
        if ft and ff:
            self.trace.append((True, False))
            self.solver.add(cond)
            return True
        if ft:
            self.trace.append((True, True))
            self.solver.add(cond)
            return True
        if ff:
            self.trace.append((False, True))
            self.solver.add(z3.Not(cond))
            return False
        raise Abort('infeasible')

    def implied(self, cond):
        """is cond implied by the path condition?"""
        self.queries += 1
        self.solver.push()
        self.solver.add(z3.Not(cond))
        r = self.solver.check()
        self.solver.pop()
        if r == z3.unknown:
            # no answer is not a verdict: the path is abandoned as inconclusive, never reported as a violation
            self.unknowns += 1
            raise Abort('solver gave no answer to an implication query')
        return r == z3.unsat

    def model(self):
        if self.solver.check() == z3.sat:
            return self.solver.model()
        return None


class B:
    __slots__ = ('t',)

    def __init__(self, t):
        self.t = t

    def __bool__(self):
        return Ctx.cur.decide(self.t)

    def __and__(self, o):
        return B(z3.And(self.t, o.t)) if isinstance(o, B) else (self if o else False)

    def __or__(self, o):
        return B(z3.Or(self.t, o.t)) if isinstance(o, B) else (True if o else self)


def lift(x):
    if isinstance(x, V):
        return x.t
    if isinstance(x, bool):
        raise TypeError('bool in symbolic arithmetic')
    if isinstance(x, int):
        return z3.RealVal(x)
    if isinstance(x, float):
        f = Fraction(repr(x))
        return z3.Q(f.numerator, f.denominator)
    if isinstance(x, Fraction):
        return z3.Q(x.numerator, x.denominator)
    try:
        import numpy as np
        if isinstance(x, np.floating):
            f = Fraction(repr(float(x)))
            return z3.Q(f.numerator, f.denominator)
        if isinstance(x, np.integer):
            return z3.RealVal(int(x))
    except ImportError:
        pass
    return None


class V:
    """symbolic real with inert formatting"""
    __slots__ = ('t',)

    def __init__(self, t):
        self.t = t

    def __format__(self, spec): return '<sym>'
    def __str__(self): return '<sym>'
    __repr__ = __str__

    def _bin(self, o, f, rev=False):
        if isinstance(o, Opaque):
            return Opaque(f(o.term, self.t) if rev else f(self.t, o.term))
        lo = lift(o)
        if lo is None:
            return NotImplemented
        return V(f(lo, self.t) if rev else f(self.t, lo))

    def __add__(self, o): return self._bin(o, lambda a, b: a + b)
    def __radd__(self, o): return self._bin(o, lambda a, b: a + b, True)
    def __sub__(self, o): return self._bin(o, lambda a, b: a - b)
    def __rsub__(self, o): return self._bin(o, lambda a, b: a - b, True)
    def __mul__(self, o): return self._bin(o, lambda a, b: a * b)
    def __rmul__(self, o): return self._bin(o, lambda a, b: a * b, True)
    def __truediv__(self, o): return self._bin(o, lambda a, b: a / b)
    def __rtruediv__(self, o): return self._bin(o, lambda a, b: a / b, True)
    def __neg__(self): return V(-self.t)
    def __pos__(self): return self
    def __abs__(self): return V(z3.If(self.t >= 0, self.t, -self.t))

    def _cmp(self, o, f):
        if isinstance(o, Opaque):
            o = o.materialise()
        lo = lift(o)
        if lo is None:
            return NotImplemented
        return B(f(self.t, lo))

    def __lt__(self, o): return self._cmp(o, lambda a, b: a < b)
    def __le__(self, o): return self._cmp(o, lambda a, b: a <= b)
    def __gt__(self, o): return self._cmp(o, lambda a, b: a > b)
    def __ge__(self, o): return self._cmp(o, lambda a, b: a >= b)
    def __eq__(self, o): return self._cmp(o, lambda a, b: a == b)
    def __ne__(self, o): return self._cmp(o, lambda a, b: a != b)
    __hash__ = None

    def __float__(self):
        raise TypeError('float() of a symbolic value')


class Opaque:
    """a value the property does not depend on (line-search interpolation): arithmetic keeps the exact z3 term for later
    replay but the path solver only ever sees a fresh unconstrained real, created when the value is first compared"""
    __slots__ = ('term', 'v')

    def __init__(self, term):
        self.term = term
        self.v = None

    def __format__(self, spec): return '<opaque>'
    def __str__(self): return '<opaque>'

    def _t(self, o):
        if isinstance(o, Opaque):
            return o.term
        return lift(o)

    def _bin(self, o, f, rev=False):
        t = self._t(o)
        if t is None:
            return NotImplemented
        return Opaque(f(t, self.term) if rev else f(self.term, t))

    def __add__(self, o): return self._bin(o, lambda a, b: a + b)
    def __radd__(self, o): return self._bin(o, lambda a, b: a + b, True)
    def __sub__(self, o): return self._bin(o, lambda a, b: a - b)
    def __rsub__(self, o): return self._bin(o, lambda a, b: a - b, True)
    def __mul__(self, o): return self._bin(o, lambda a, b: a * b)
    def __rmul__(self, o): return self._bin(o, lambda a, b: a * b, True)
    def __truediv__(self, o): return self._bin(o, lambda a, b: a / b)
    def __rtruediv__(self, o): return self._bin(o, lambda a, b: a / b, True)
    def __neg__(self): return Opaque(-self.term)

    def materialise(self):
        if self.v is None:
            ctx = Ctx.cur
            self.v = ctx.fresh('opq')
            if not hasattr(ctx, 'opaque_defs'):
                ctx.opaque_defs = []
            ctx.opaque_defs.append((self.v.t, self.term))
        return self.v

    def __abs__(self): return abs(self.materialise())
    def __lt__(self, o): return self.materialise() < (o.materialise() if isinstance(o, Opaque) else o)
    def __le__(self, o): return self.materialise() <= (o.materialise() if isinstance(o, Opaque) else o)
    def __gt__(self, o): return self.materialise() > (o.materialise() if isinstance(o, Opaque) else o)
    def __ge__(self, o): return self.materialise() >= (o.materialise() if isinstance(o, Opaque) else o)
    __hash__ = None


def next_prefix(trace):
    tr = list(trace)
    while tr and tr[-1][1]:
        tr.pop()
    if not tr:
        return None
    b, _ = tr[-1]
    return tr[:-1] + [(not b, True)]


def explore(fn, root=(), max_paths=10 ** 6, timeout_ms=10000, time_budget_s=None, max_decisions=400, model_hook=None):
    """run fn(ctx) once per feasible path under the subtree rooted at decision prefix `root`.
    fn returns a result (any) or raises PathViolation.  -> dict with paths, results, violations, queries, seconds"""
    root = list(root)
    prefix = list(root)
    out = {'paths': 0, 'aborted': 0, 'results': [], 'violations': [], 'queries': 0, 'unknowns': 0, 'seconds': 0.0, 'complete': True}
    t0 = time.time()
    while True:
        ctx = Ctx(prefix, timeout_ms, max_decisions)
        Ctx.cur = ctx
        try:
            r = fn(ctx)
            out['results'].append(r)
        except Abort as e:
            out['aborted'] += 1
            if str(e) == 'decision budget':
                out['complete'] = False
        except PathViolation as v:
            m = ctx.model()
            md = None if m is None else {d.name(): str(m[d]) for d in m.decls()}
            if model_hook is not None and md is not None:
                md = model_hook(md, ctx)
            out['violations'].append({'what': v.what, 'data': v.data, 'trace': [b for b, _ in ctx.trace], 'model': md})
        out['paths'] += 1
        out['queries'] += ctx.queries
        out['unknowns'] += ctx.unknowns
        nxt = next_prefix(ctx.trace)     # root entries are marked done, so the search never leaves the subtree
        if nxt is None:
            break
        if out['paths'] >= max_paths or (time_budget_s and time.time() - t0 > time_budget_s):
            out['complete'] = False
            break
        prefix = nxt
    out['seconds'] = time.time() - t0
    Ctx.cur = None
    return out


def frontier(fn, depth, timeout_ms=10000, max_decisions=400):
    """enumerate the distinct decision prefixes of length <= depth (subtree roots) for parallel exploration"""
    roots = []
    prefix = []
    while True:
        ctx = Ctx(prefix, timeout_ms, max_decisions=depth)
        Ctx.cur = ctx
        try:
            fn(ctx)
        except (Abort, PathViolation):
            pass
        tr = ctx.trace[:depth]
        roots.append([(b, True) for b, _ in tr])
        nxt = next_prefix(tr)
        if nxt is None:
            break
        prefix = nxt
    Ctx.cur = None
    # de-duplicate
    seen, out = set(), []
    for r in roots:
        k = tuple(b for b, _ in r)
        if k not in seen:
            seen.add(k)
            out.append(r)
    return out
