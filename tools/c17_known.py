#!/usr/bin/env python3
"""maintenance helper (never run by a check): turn the VIOLATION lines of C17 logs into KNOWN_FINDINGS entries after triage.
usage: tools/c17_known.py <log> [<log> ...]"""
import json, re, sys
p = '/verif/KNOWN_FINDINGS.json'
d = json.load(open(p))
found = {}
for log in sys.argv[1:]:
    for line in open(log):
        m = re.match(r'VIOLATION property=C17 replay=\S+\s+# (\S+?): .*\[signature (\w+)\]', line)
        if m:
            found.setdefault(m.group(1), set()).add(m.group(2))
WHAT = {
    'clpt_sanders': 'the Sanders non-linear tangent k0L + k0L^T + kLL + kG is not the Jacobian of calc_fint_0L_L0_LL: entries coupling the rigid-body/tilt amplitudes c[1], c[2] (and, for bc3/bc4, further rows) deviate; reproduced on the compiled kernels (relative deviation ~1e-1)',
    'fsdt_donnell': 'the first-order-shear non-linear tangent k0L + k0L^T + kLL + kG is not the Jacobian of calc_fint_0L_L0_LL (rows/columns of the rotation amplitudes and others, > 100 entries for (m1,m2,n2)=(2,2,1)); reproduced on the compiled kernels (relative deviation ~1)',
}
keep = [f for f in d['findings'] if f['property'] != 'C17']
for key in sorted(found):
    fam = 'clpt_sanders' if 'clpt_sanders' in key else 'fsdt_donnell'
    model = key.split(':')[1]
    keep.append({'property': 'C17', 'key': key, 'signature': sorted(found[key]), 'what': '%s_nonlinear.pyx: %s' % (model, WHAT[fam]),
                 'why_not_fixed': 'the tangent terms are machine-generated Cython (several thousand lines per model); a repair means re-deriving the Sanders / first-order-shear tangent symbolically and regenerating the C sources, and no Cython is available in the sandbox to rebuild the extension -- not a small and safe patch'})
d['findings'] = keep
json.dump(d, open(p, 'w'), indent=1)
print('C17 findings:', len(found))
