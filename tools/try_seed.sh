#!/bin/bash
# usage: tools/try_seed.sh <seed-name> <Cxx> [tier] : apply the seeded patch to /repo, run the check, undo (the evidence file of the
# clean tree is put back afterwards: evidence must describe the unchanged tree)
N=$1; P=$2; T=${3:-quick}
if [ -n "$(git -C /repo status --porcelain)" ]; then echo "REFUSING: /repo has uncommitted changes (try_seed undoes with git checkout)"; exit 3; fi
cp /verif/evidence/$P.json /tmp/evidence_$P.$$.json 2>/dev/null
cd /repo && git apply $(ls /verif/seeded/$N/patch_rebased*.diff 2>/dev/null || echo /verif/seeded/$N/patch.diff) || { echo "PATCH FAILED"; exit 3; }
cd /verif && timeout 1500 ./check $P --tier $T 2>&1 | grep -E "^VIOLATION|^HARNESS|tier=" | cut -c1-300 | head -8
echo "exit=${PIPESTATUS[0]}"
git -C /repo checkout -- . ; git -C /repo status --short | head -3
[ -f /tmp/evidence_$P.$$.json ] && mv /tmp/evidence_$P.$$.json /verif/evidence/$P.json
