import sys, os, importlib, argparse, traceback


def main():
    ap = argparse.ArgumentParser()
    ap.add_argument('pid')
    ap.add_argument('--tier', default=None)
    ap.add_argument('--replay', default=None)
    a = ap.parse_args()
    if a.tier:
        os.environ['VERIF_TIER'] = a.tier
    pid = a.pid.upper()
    try:
        mod = importlib.import_module('vf.props.%s' % pid.lower())
    except ImportError:
        traceback.print_exc()
        print('HARNESS-ERROR no check module for %s' % pid)
        return 2
    try:
        if a.replay:
            return mod.replay(a.replay)
        return mod.main()
    except SystemExit:
        raise
    except BaseException:
        traceback.print_exc()
        print('HARNESS-ERROR %s crashed' % pid)
        return 2


if __name__ == '__main__':
    sys.exit(main())
