import sys, time
import os; sys.path.insert(0, os.path.dirname(os.path.abspath(__file__)))
from pyxsym import *
from sym import Sym, eq_terms
import z3

model = sys.argv[1] if len(sys.argv) > 1 else 'plate'
src = open('/repo/compmech/panel/models/%s_clt_donnell_bardell.pyx' % model).read()
env = {}
UFC = {}
SYMMETRIC = {'integral_ff', 'integral_fxifxi', 'integral_fxixifxixi'}
def key_of(t): return z3.simplify(t.n).sexpr() if isinstance(t, Sym) else repr(t)
def mkuf(n):
    def f(i, j, *fl):
        A = (i,) + tuple(key_of(t) for t in fl[:4]); Bk = (j,) + tuple(key_of(t) for t in fl[4:])
        if n in SYMMETRIC and Bk < A: A, Bk = Bk, A
        key = (n, A, Bk)
        if key not in UFC: UFC[key] = Sym.var('%s_%d' % (n, len(UFC)))
        return UFC[key]
    return f
for n in ('integral_ff', 'integral_ffxi', 'integral_ffxixi', 'integral_fxifxi', 'integral_fxifxixi', 'integral_fxixifxixi'):
    env[n] = mkuf(n)
env.update(np=NP(), coo_matrix=coo_matrix, DOUBLE='f8', INT='i8', num=3)
for fn in ('fk0', 'fkG0', 'fkM'):
    name, code = translit(extract_func(src, fn))
    exec(compile(code, fn, 'exec'), env)

class Panel: pass
class Lam: pass
def mkpanel(m, n):
    p = Panel()
    p.a = Sym.var('a'); p.b = Sym.var('b'); p.m = m; p.n = n; p.r = Sym.var('r'); p.mu = Sym.var('mu')
    p.plyts = [Sym.var('h')]
    for u in 'uvw':
        for e in '12':
            for t in 'tr':
                for d in 'xy':
                    setattr(p, u+e+t+d, Sym.var(u+e+t+d))
    p.lam = Lam(); F = Arr((6, 6))
    blk = {}
    for nm in 'ABD':
        for i in range(3):
            for j in range(i, 3):
                blk[(nm, i, j)] = blk[(nm, j, i)] = Sym.var('%s%d%d' % (nm, i, j))
    for i in range(3):
        for j in range(3):
            F[i, j] = blk[('A', i, j)]; F[i, 3+j] = blk[('B', i, j)]; F[3+i, j] = blk[('B', i, j)]; F[3+i, 3+j] = blk[('D', i, j)]
    p.lam.ABD = F
    return p

def upper(res, size):
    M = {}
    for v, r, c in zip(res.v.data, res.r.data, res.c.data):
        if isinstance(v, int) and v == 0: continue
        if c >= r: M[(r, c)] = M.get((r, c), 0) + v
    return M

# ---- oracle
NAME = {(0,0): 'integral_ff', (0,1): 'integral_ffxi', (0,2): 'integral_ffxixi', (1,1): 'integral_fxifxi', (1,2): 'integral_fxifxixi', (2,2): 'integral_fxixifxixi'}
def I1(p, da, db, ia, ib, fa, fb, axis):
    """integral over [-1,1] of d^da f_ia * d^db f_ib with field flags fa, fb ('u','v','w') along axis"""
    A = [getattr(p, fa + e + axis) for e in ('1t', '1r', '2t', '2r')]
    Bf = [getattr(p, fb + e + axis) for e in ('1t', '1r', '2t', '2r')]
    if da <= db: return env[NAME[(da, db)]](ia, ib, *A, *Bf)
    return env[NAME[(db, da)]](ib, ia, *Bf, *A)

def strain_ops(p, model):
    """for each dof component comp in u,v,w: list of (strain_index, coef, dx_order, dy_order)"""
    a, b = p.a, p.b
    ops = {
        'u': [(0, 2/a, 1, 0), (2, 2/b, 0, 1)],
        'v': [(1, 2/b, 0, 1), (2, 2/a, 1, 0)],
        'w': [(3, -4/(a*a), 2, 0), (4, -4/(b*b), 0, 2), (5, -8/(a*b), 1, 1)],
    }
    if model == 'cpanel':
        ops['w'].append((1, 1/p.r, 0, 0))
    return ops

def oracle_k0(p, m, n, model):
    ops = strain_ops(p, model)
    F = p.lam.ABD
    M = {}
    comps = 'uvw'
    jac = p.a*p.b/4
    for j in range(n):
        for i in range(m):
            for ca, A in enumerate(comps):
                row = 3*(j*m+i) + ca
                for l in range(n):
                    for k in range(m):
                        for cb, Bc in enumerate(comps):
                            col = 3*(l*m+k) + cb
                            if col < row: continue
                            tot = 0
                            for (sa, coa, dxa, dya) in ops[A]:
                                for (sb, cob, dxb, dyb) in ops[Bc]:
                                    tot = tot + F[sa, sb]*coa*cob*jac*I1(p, dxa, dxb, i, k, A, Bc, 'x')*I1(p, dya, dyb, j, l, A, Bc, 'y')
                            M[(row, col)] = tot
    return M

def check(Mimpl, Morc, pre, label):
    keys = sorted(set(Mimpl) | set(Morc))
    bad = []; t0 = time.time()
    for kk in keys:
        l, r = eq_terms(Mimpl.get(kk, 0), Morc.get(kk, 0))
        s = z3.Tactic('qfnra-nlsat').solver(); s.set('timeout', 60000)
        s.add(*pre); s.add(l != r)
        res = s.check()
        if res != z3.unsat: bad.append((kk, str(res)))
    print(label, 'entries', len(keys), 'non-unsat', len(bad), bad[:8], '%.1fs' % (time.time()-t0))

if __name__ == '__main__':
    m = n = int(sys.argv[2]) if len(sys.argv) > 2 else 2
    p = mkpanel(m, n)
    size = 3*m*n
    t0 = time.time()
    k0 = upper(env['fk0'](p, size, 0, 0), size)
    print('exec fk0 %.1fs' % (time.time()-t0))
    orc = oracle_k0(p, m, n, model)
    pre = [p.a.n > 0, p.b.n > 0]
    check(k0, orc, pre, 'k0')

def oracle_kG0(p, m, n, Nxx, Nyy, Nxy):
    M = {}
    jac = p.a*p.b/4
    for j in range(n):
        for i in range(m):
            row = 3*(j*m+i)+2
            for l in range(n):
                for k in range(m):
                    col = 3*(l*m+k)+2
                    if col < row: continue
                    xx = (2/p.a)*(2/p.a)*I1(p,1,1,i,k,'w','w','x')*I1(p,0,0,j,l,'w','w','y')
                    yy = (2/p.b)*(2/p.b)*I1(p,0,0,i,k,'w','w','x')*I1(p,1,1,j,l,'w','w','y')
                    xy = (2/p.a)*(2/p.b)*(I1(p,1,0,i,k,'w','w','x')*I1(p,0,1,j,l,'w','w','y') + I1(p,0,1,i,k,'w','w','x')*I1(p,1,0,j,l,'w','w','y'))
                    M[(row,col)] = jac*(Nxx*xx + Nyy*yy + Nxy*xy)
    return M

def oracle_kM(p, m, n, d, sign=-1):
    mu = p.mu; h = p.plyts[0]
    jac = p.a*p.b/4
    # velocity field components: (comp, coef, dx, dy, zpower) for u_total = u - z w,x ; v_total = v - z w,y ; w
    fields = {'U': {'u': [(1, 0, 0, 0)], 'w': [(-2/p.a, 1, 0, 1)]},
              'V': {'v': [(1, 0, 0, 0)], 'w': [(-2/p.b, 0, 1, 1)]},
              'W': {'w': [(1, 0, 0, 0)]}}
    zint = {0: h, 1: d*h, 2: h*(d*d + h*h/12)}
    M = {}
    comps = 'uvw'
    for j in range(n):
        for i in range(m):
            for ca, A in enumerate(comps):
                row = 3*(j*m+i)+ca
                for l in range(n):
                    for k in range(m):
                        for cb, Bc in enumerate(comps):
                            col = 3*(l*m+k)+cb
                            if col < row: continue
                            tot = 0
                            for fld in fields.values():
                                for (coa, dxa, dya, za) in fld.get(A, []):
                                    for (cob, dxb, dyb, zb) in fld.get(Bc, []):
                                        tot = tot + mu*zint[za+zb]*coa*cob*jac*I1(p,dxa,dxb,i,k,A,Bc,'x')*I1(p,dya,dyb,j,l,A,Bc,'y')
                            M[(row,col)] = tot
    return M

if __name__ == '__main__':
    Nxx, Nyy, Nxy = Sym.var('Nxx'), Sym.var('Nyy'), Sym.var('Nxy')
    kG = upper(env['fkG0'](Nxx, Nyy, Nxy, p, size, 0, 0), size)
    check(kG, oracle_kG0(p, m, n, Nxx, Nyy, Nxy), pre, 'kG0')
    d = Sym.var('d')
    kM = upper(env['fkM'](d, p, size, 0, 0), size)
    check(kM, oracle_kM(p, m, n, d), pre, 'kM (z from laminate convention)')
    check(kM, oracle_kM(p, m, n, -d), pre, 'kM (d -> -d)')
