"""sin / cos / tan as seen by the symbolic runs of the shell (ConeCyl) code.

An angle argument is a Sym; the module constant pi of the kernels is replaced by the real symbol `pi`.
 * argument identically 0                      -> exact (0 / 1)
 * argument = pi * q with q a multiple of 1/2  -> exact value (decided by the solver: arg == pi*q for the candidate q
                                                  obtained from a numeric probe)
 * anything else                               -> a pair of atoms (S_k, C_k) per canonical argument class, parity used:
                                                  sin(-x) = -sin(x), cos(-x) = cos(x); the relation S^2 + C^2 = 1 is
                                                  available as an assumption (`circle_constraints`)."""
from fractions import Fraction
import z3
from .sym import Sym, identity_terms


class Trig:
    def __init__(self, V=Sym.var, pi=None):
        self.V = V
        self.pi = pi if pi is not None else Sym.var('pi')
        self.classes = []       # (representative Sym, S atom, C atom)
        self.queries = 0
        self.cache = {}

    def _same(self, a, b):
        L, R = identity_terms(a, b)
        if isinstance(L, (int, float)) or isinstance(R, (int, float)):
            return L == R
        s = z3.Tactic('qfnra-nlsat').solver()
        s.set('timeout', 20000)
        s.add(L != R)
        self.queries += 1
        return s.check() == z3.unsat

    def _pi_multiple(self, x):
        """q (Fraction, multiple of 1/2) with x == pi*q provably, else None"""
        x = Sym.lift(x)
        if x.is_numeric():
            if x.n == 0:
                return Fraction(0)
            if self.pi.is_numeric():
                q = x.n / self.pi.n          # exact replay: pi is a fixed rational stand-in
                return q if (2 * q).denominator == 1 else None
            return None
        for q2 in range(-16, 17):
            q = Fraction(q2, 2)
            if self._same(x, self.pi * q):
                return q
        return None

    def _lookup(self, x):
        x = Sym.lift(x)
        if x.is_zero():
            return ("exact", Sym(Fraction(0)), Sym(Fraction(1)))
        key = None
        if not x.is_numeric():
            key = (x.n.get_id() if not isinstance(x.n, Fraction) else x.n, tuple(sorted(x.d.items())))
            if key in self.cache:
                return self.cache[key][0]
        q = self._pi_multiple(x) if (x.is_numeric() or self.pi.is_numeric() or self._mentions_pi(x)) else None
        if q is not None:
            k = int(q * 2) % 4
            res = ("exact", Sym(Fraction([0, 1, 0, -1][k])), Sym(Fraction([1, 0, -1, 0][k])))
        else:
            res = None
            for rep, S, C in self.classes:
                if self._same(x, rep):
                    res = ('atom', S, C)
                    break
                if self._same(x, -rep):
                    res = ('atom', -S, C)
                    break
            if res is None:
                k = len(self.classes)
                S, C = self.V('S%d' % k), self.V('C%d' % k)
                self.classes.append((x, S, C))
                res = ('atom', S, C)
        if key is not None:
            self.cache[key] = (res, x)      # x is kept alive: z3 re-uses the ids of collected terms
        return res

    def _mentions_pi(self, x):
        if isinstance(x.n, Fraction):
            return False
        name = self.pi.n.decl().name() if not isinstance(self.pi.n, Fraction) else None
        seen = set()
        stack = [x.n]
        while stack:
            t = stack.pop()
            if t.get_id() in seen:
                continue
            seen.add(t.get_id())
            if z3.is_const(t) and t.decl().name() == name:
                return True
            stack.extend(t.children())
        return False

    def sin(self, x):
        if isinstance(x, (int, float)) and x == 0:
            return Sym(Fraction(0))
        return self._lookup(x)[1]

    def cos(self, x):
        if isinstance(x, (int, float)) and x == 0:
            return Sym(Fraction(1))
        return self._lookup(x)[2]

    def tan(self, x):
        r = self._lookup(x)
        return r[1] / r[2]

    def circle_constraints(self):
        out = []
        for rep, S, C in self.classes:
            if not S.is_numeric():
                out.append(S.n * S.n + C.n * C.n == 1)
        return out
