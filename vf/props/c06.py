"""C06 -- Frequency solver wrapper: true eigenpairs of (K, M), bookkeeping, ordering after sort.

Same technique as C05 for compmech.analysis.freq and Panel.freq: the real code runs over symbolic K, M with concrete null
patterns under a forking comparison policy (the wrapper's own sort / filter / null detection decide on symbolic values),
ARPACK/LAPACK are contract stubs.  The stubs return omega^2 (resp. -1/omega^2) built from fresh omega symbols so that the
square roots taken by the wrapper are exact (sqrt hook returns the registered root)."""
import json, os, traceback
import numpy as np
import z3
from fractions import Fraction
from ..harness import Run, pmap, decide_job
from ..sym import Sym, reset, identity_terms
from ..shadow import Shadow, GenericPolicy
from ..eigstubs import EigWorld, sym_matrix, dense_of, fork_policy, sym_to_z3
from .. import forksym as FS


class FreqWorld(EigWorld):
    """eigs returns mu = w^2, eig(a=-M, b=K) returns nu = -1/w^2 ; w fresh, w > 0 (K, M positive definite on the active set)"""

    def __init__(self, V, ctx=None):
        EigWorld.__init__(self, V)
        self.ws = []
        self.ctx = ctx
        self.squares = {}
        self.singular_given = False

    def _fresh(self, kind, A, M, ncols, herm=True):
        n = A.shape[0]
        call = len(self.calls) - 1
        mus = np.zeros(ncols, dtype=object)
        Vm = np.zeros((n, ncols), dtype=object)
        if kind == 'eigs':
            # precondition of the contract below (w > 0): the stiffness handed to the solver has no structurally null column; with one,
            # ARPACK (sigma = -1, 'LM') returns the zero-frequency modes of the stiffnessless amplitudes first
            def _nullentry(x):
                return (isinstance(x, (int, float)) and x == 0) or (isinstance(x, Sym) and x.is_zero())
            for j in range(n):
                if all(_nullentry(A[r, j]) for r in range(n)):
                    self.singular_given = True
        for i in range(ncols):
            w = self.V('w%d_%d' % (call, i))
            self.ws.append((call, i, w))
            w2 = w * w
            if not w2.is_numeric():
                self.squares[w2.n.get_id()] = w
            else:
                self.squares[('q', w2.n)] = w
            mus[i] = w2 if kind in ('eigs',) else Sym.lift(-1) / w2
            if self.ctx is not None:
                self.ctx.assume(w.n > 0)
            for r in range(n):
                Vm[r, i] = self.V('v%d_%d_%d' % (call, r, i))
            for r in range(n):
                lhs = sum((A[r, j] * Vm[j, i] for j in range(n)), Sym.lift(0))
                rhs = mus[i] * sum((M[r, j] * Vm[j, i] for j in range(n)), Sym.lift(0))
                L, R = identity_terms(lhs, rhs)
                if not (isinstance(L, (int, float)) or isinstance(R, (int, float))):
                    self.contracts_by.setdefault((call, i), []).append(L == R)
            self.pairs.append((call, i, w, [Vm[r, i] for r in range(n)]))
        return mus, Vm

    def sqrt_hook(self, x):
        x = Sym.lift(x)
        if x.is_numeric():
            k = ('q', x.n)
            if k in self.squares:
                return self.squares[k]
            import math
            r = Fraction(math.isqrt(x.n.numerator), 1) / Fraction(math.isqrt(x.n.denominator), 1) if x.n >= 0 else None
            if r is not None and r * r == x.n:
                return Sym(r)
            raise TypeError('sqrt of a non-square rational in the exact replay')
        if not x.d and x.n.get_id() in self.squares:
            return self.squares[x.n.get_id()]
        raise TypeError('sqrt of an expression that is not a solver eigenvalue: the wrapper took the root of something else')


def run_freq(cfg, values=None, ctx=None):
    import random
    rnd = random.Random(cfg.get('seed', 0))

    def V(name):
        if values is None:
            return Sym.var(name)
        return Sym(Fraction(values[name]) if name in values else Fraction(rnd.randint(1, 30), rnd.randint(3, 11)))
    n, active, num, path, target = cfg['n'], cfg['active'], cfg['num'], cfg['path'], cfg['target']
    sort, reduced = cfg.get('sort', True), cfg.get('reduced', False)
    W = FreqWorld(V, ctx)
    K = sym_matrix('K', n, active, V, symmetric=not cfg.get('unsymmetric_K'))
    # amplitudes with mass but without stiffness ('active_M' beyond 'active'): their mass is not coupled to the other amplitudes, such
    # that the pairs of the stiff block are eigenpairs of the full pair as well
    active_M = cfg.get('active_M', active)
    extra_M = [r for r in active_M if r not in active]
    M = sym_matrix('M', n, active_M, V, skip=[(r, q) for r in extra_M for q in active_M if q != r])
    if ctx is not None:
        # generic matrices: every entry on the active set is non-zero (a structurally null column is what 'null' means)
        for Mx in (K, M):
            for v in Mx.data:
                ctx.assume(v.n != 0)
    stubs = {'eigs': W.eigs, 'eig': W.eig}
    saved = Sym.SQRT_HOOK
    Sym.SQRT_HOOK = W.sqrt_hook
    saved_rint = Sym.RINT_HOOK
    if ctx is not None and cfg.get('rounding'):
        from ..eigstubs import sym_to_z3 as _tz
        rc = [0]

        seen_r = []

        def rint_hook(y):
            # rounding to the nearest integer, in linear real arithmetic: a fresh real k with |y - k| <= 1/2 that is MONOTONE with
            # respect to every other rounded value (y1 <= y2 -> k1 <= k2); ties k1 == k2 with y1 != y2 stay possible
            if y.is_numeric():
                return Sym(Fraction(round(y.n)))
            rc[0] += 1
            k = z3.Real('rint!%d' % rc[0])
            yz = _tz(y)
            ctx.assume(z3.And(2 * yz - 1 <= 2 * k, 2 * k <= 2 * yz + 1))
            for (y0, k0) in seen_r:
                ctx.assume(z3.And(z3.Implies(y0 <= yz, k0 <= k), z3.Implies(yz <= y0, k <= k0)))
            seen_r.append((yz, k))
            return Sym(k)
        Sym.RINT_HOOK = rint_hook
    obs = []
    try:
        with Shadow(None, stubs=stubs, policy=(fork_policy if ctx is not None else GenericPolicy())):
            if target == 'analysis.freq':
                from compmech.analysis import freq
                eigvals, eigvecs = freq(K, M, sparse_solver=(path == 'sparse'), silent=True, sort=sort, reduced_dof=reduced, num_eigvalues=num)
            else:
                from compmech.panel import Panel
                p = Panel(a=1., b=1., stack=[0], plyt=1., laminaprop=(1., 1., 0.3), m=1, n=1, mu=1.)
                p.num_eigvalues = num

                def calc_k0(*a, **k):
                    p.k0 = K
                    return K

                def calc_kM(*a, **k):
                    p.kM = M
                    return M
                p.calc_k0, p.calc_kM = calc_k0, calc_kM
                if cfg.get('history'):
                    # a first analysis on the same object with OTHER matrices (the definition changed in between)
                    K_first, M_first = K, M
                    p.freq(atype=4, sparse_solver=(path == 'sparse'), silent=True, sort=sort, reduced_dof=reduced)
                    K = sym_matrix('K2', n, active, V)
                    M = sym_matrix('M2', n, active, V)
                    if ctx is not None:
                        for Mx in (K, M):
                            for v_ in Mx.data:
                                ctx.assume(v_.n != 0)
                p.freq(atype=4, sparse_solver=(path == 'sparse'), silent=True, sort=sort, reduced_dof=reduced)
                eigvals, eigvecs = p.eigvals, p.eigvecs
    finally:
        Sym.SQRT_HOOK = saved
        Sym.RINT_HOOK = saved_rint
    Kd, Md = dense_of(K), dense_of(M)
    eigvals = np.asarray(eigvals, dtype=object)
    eigvecs = np.asarray(eigvecs, dtype=object)
    if eigvecs.ndim != 2 or eigvecs.shape[0] != n:
        obs.append(('eigvecs-rows', Sym.lift(eigvecs.shape[0] if eigvecs.ndim else -1), Sym.lift(n)))
        return obs, {}, {'calls': len(W.calls)}
    ncols = eigvecs.shape[1]
    if path == 'sparse':
        last = W.calls[-1]
        for key, want in (('which', 'LM'), ('sigma', -1.)):
            if last.get(key) != want:
                obs.append(('solver-argument-%s' % key, Sym.lift(1), Sym.lift(0)))
    if W.singular_given:
        obs.append(('stiffness-handed-to-the-solver-has-no-null-column', Sym.lift(1), Sym.lift(0)))
    mus = [pr for pr in W.pairs if pr[0] == len(W.calls) - 1]
    npairs = min(ncols, len(eigvals))
    if len(eigvals) != ncols and (sort or path == 'sparse'):
        obs.append(('values-and-vectors-same-count', Sym.lift(len(eigvals)), Sym.lift(ncols)))
    colmap = {}
    assumptions = {}
    for i in range(npairs):
        j = None
        for cand in mus:
            if any(eigvecs[r, i] is x for x in cand[3] for r in range(n)):
                j, w = cand[1], cand[2]
                break
        if j is None:
            nz = [r for r in range(n) if not (isinstance(eigvecs[r, i], (int, float)) and eigvecs[r, i] == 0) and not (isinstance(eigvecs[r, i], Sym) and eigvecs[r, i].is_zero())]
            if nz:
                obs.append(('column-is-a-solver-vector[%d]' % i, Sym.lift(1), Sym.lift(0)))
            else:
                obs.append(('padding-column-has-zero-frequency[%d]' % i, eigvals[i], 0)) if False else None
            continue
        colmap[i] = j
        assumptions[i] = W.contracts_by.get((len(W.calls) - 1, j), []) if values is None else []
        om = eigvals[i]
        obs.append(('pairing[%d]' % i, om, w))
        v = [eigvecs[r, i] for r in range(n)]
        # reduced_dof: of the ACTIVE amplitudes (null rows/columns are removed first) every first of three (u) is condensed out
        take = [active[q] for q in range(len(active)) if q % 3 != 0] if reduced else None
        for r in range(n):
            Kv = sum((Kd[r, q] * v[q] for q in range(n)), Sym.lift(0))
            Mv = sum((Md[r, q] * v[q] for q in range(n)), Sym.lift(0))
            if reduced:
                # reduced_dof condenses the u amplitudes out: the pair solves the (v, w) block exactly ...
                if r in take:
                    Kc = sum((Kd[r, q] * v[q] for q in take), Sym.lift(0))
                    Mc = sum((Md[r, q] * v[q] for q in take), Sym.lift(0))
                    obs.append(('residual-condensed[%d,%d]' % (i, r), Kc, om * om * Mc))
                else:
                    obs.append(('condensed-amplitude-zero[%d,%d]' % (i, r), v[r], 0))
                # ... and the full problem only when the u coupling vanishes (recorded finding)
                obs.append(('residual-full-with-reduced_dof[%d,%d]' % (i, r), Kv, om * om * Mv))
                continue
            obs.append(('residual[%d,%d]' % (i, r), Kv, om * om * Mv))
            if r not in active:
                obs.append(('zero-on-null-amplitude[%d,%d]' % (i, r), v[r], 0))
    if ctx is not None and sort and npairs >= 1:
        om = [sym_to_z3(eigvals[i]) for i in range(npairs)]
        for i in range(npairs):
            if not ctx.implied(om[i] > 0):
                raise FS.PathViolation('a returned frequency is not positive after sort/filter', {'i': i})
            if i and not ctx.implied(om[i - 1] <= om[i]):
                raise FS.PathViolation('frequencies are not ascending after sort', {'i': i})
    info = {'ncols': ncols, 'neigvals': len(eigvals), 'calls': len(W.calls)}
    return obs, assumptions, info


def job(cfg):
    reset()
    out = {'group': cfg['group'], 'n': 0, 'unsat': 0, 'sat': [], 'unknown': [], 'solver_s': 0.0, 'queries': 0, 'samples': [], 'extra': {}, 'cfg': cfg}
    holder = {'paths': []}

    def one(ctx):
        holder['paths'].append(run_freq(cfg, ctx=ctx))
        return True
    try:
        ex = FS.explore(one, timeout_ms=20000, max_paths=1500, max_decisions=400)
    except Exception as e:
        out['raised'] = '%s: %s' % (type(e).__name__, str(e)[:200])
        out['trace'] = traceback.format_exc()[-700:]
        return out
    out['paths'] = ex['paths']
    if ex['violations']:
        out['path_violation'] = ex['violations'][0]['what']
        out['model'] = ex['violations'][0]['model']
        out['n'] = 1
        return out
    res = None
    for (obs, assumptions, info) in holder['paths']:
        bycol = {}
        for o in obs:
            if o is None:
                continue
            col = int(o[0].split('[')[1].split(',')[0].rstrip(']')) if '[' in o[0] else -1
            bycol.setdefault(col, []).append(o)
        for col, oo in sorted(bycol.items()):
            rr = decide_job(cfg['group'], oo, assumptions.get(col, []), timeout_ms=120000)
            if res is None:
                res = rr
            else:
                for k in ('n', 'unsat', 'solver_s', 'queries'):
                    res[k] += rr[k]
                res['sat'] += rr['sat']
                res['unknown'] += rr['unknown']
    if res is None:
        res = decide_job(cfg['group'], [], [])
    res['cfg'] = cfg
    res['paths'] = ex['paths']
    res['n'] += ex['paths']
    res['unsat'] += ex['paths']
    if not ex['complete']:
        res['unknown'].append({'name': 'path exploration incomplete', 'info': '%d paths' % ex['paths']})
    return res


def real_replay(cfg, special=None):
    import scipy.sparse as sp
    rng = np.random.RandomState(2)
    n, active, num, path, target = cfg['n'], cfg['active'], cfg['num'], cfg['path'], cfg['target']
    u = len(active)
    A = rng.rand(u, u)
    Kr = A.dot(A.T) + u * np.eye(u)
    B = rng.rand(u, u)
    Mr = B.dot(B.T) + np.eye(u)
    if special == 'zero-column-sum' and u >= 3:
        Mr = np.eye(u) * 3.0
        Mr[0, 1] = Mr[1, 0] = -1.5
        Mr[0, 2] = Mr[2, 0] = -1.5       # column 0 sums to zero, M stays positive definite
    if special == 'tiny-mass':
        Dg = np.ones(u)
        Dg[0] = 1e-10
        Mr = Dg[:, None] * Mr * Dg[None, :]     # one amplitude with a tiny (not zero) mass: M stays positive definite
    if special == 'tiny-stiffness':
        Kr = Kr * 1e-10
    K = np.zeros((n, n))
    M = np.zeros((n, n))
    K[np.ix_(active, active)] = Kr
    M[np.ix_(active, active)] = Mr
    for r in cfg.get('active_M', active):
        if r not in active:
            M[r, r] = 1.5 + 0.25 * r        # mass without stiffness, not coupled to the other amplitudes
    import warnings
    try:
        with warnings.catch_warnings():
            warnings.simplefilter('ignore')
            if target == 'analysis.freq':
                from compmech.analysis import freq
                vals, vecs = freq(sp.csr_matrix(K), sp.csr_matrix(M), sparse_solver=(path == 'sparse'), silent=True, sort=cfg.get('sort', True),
                                  reduced_dof=cfg.get('reduced', False), num_eigvalues=num)
            else:
                from compmech.panel import Panel
                p = Panel(a=1., b=1., stack=[0], plyt=1., laminaprop=(1., 1., 0.3), m=1, n=1, mu=1.)
                p.num_eigvalues = num
                cur = {'K': K, 'M': M}
                p.calc_k0 = lambda *a, **k: setattr(p, 'k0', sp.csr_matrix(cur['K']))
                p.calc_kM = lambda *a, **k: setattr(p, 'kM', sp.csr_matrix(cur['M']))
                if cfg.get('history'):
                    cur['K'], cur['M'] = 3.0 * K + np.diag(np.diag(K)), 0.5 * M
                    p.freq(atype=4, sparse_solver=(path == 'sparse'), silent=True, sort=cfg.get('sort', True), reduced_dof=cfg.get('reduced', False))
                    cur['K'], cur['M'] = K, M
                p.freq(atype=4, sparse_solver=(path == 'sparse'), silent=True, sort=cfg.get('sort', True), reduced_dof=cfg.get('reduced', False))
                vals, vecs = p.eigvals, p.eigvecs
    except Exception as e:
        return {'raised': '%s: %s' % (type(e).__name__, str(e)[:160])}
    vals = np.asarray(vals)
    vecs = np.asarray(vecs)
    worst = 0.0
    for i in range(min(len(vals), vecs.shape[1])):
        v = vecs[:, i]
        if np.abs(v).max() == 0:
            continue
        r = K.dot(v) - vals[i] ** 2 * M.dot(v)
        worst = max(worst, float(np.abs(r).max() / (np.abs(K.dot(v)).max() + 1e-300)))
    out = {'raised': None, 'worst_rel_residual': worst, 'freqs': [complex(x).real for x in vals[:5]]}
    if 'active_M' in cfg:
        npair = min(len(vals), vecs.shape[1])
        scale = max([abs(complex(x)) for x in vals[:npair]] + [1e-300])
        out['nonpositive_frequency'] = bool(any(not (complex(vals[i]).real > 1e-9 * scale) for i in range(npair) if np.abs(vecs[:, i]).max() > 0))
        null = [r for r in range(n) if r not in active]
        out['mode_nonzero_on_stiffnessless_amplitude'] = bool(npair and null and float(np.abs(vecs[null, :npair]).max()) > 1e-9 * float(np.abs(vecs[:, :npair]).max() + 1e-300))
    return out


def _real_bad(real):
    return bool(real.get('raised') or real.get('worst_rel_residual', 0) > 1e-6 or real.get('nonpositive_frequency') or real.get('mode_nonzero_on_stiffnessless_amplitude'))


def real_order_replay(cfg):
    """real function (dense path: LAPACK returns the eigenvalues of a diagonal pair in diagonal order) with frequencies 0.3147, 0.3104, 0.9:
    are the returned frequencies ascending?"""
    import scipy.sparse as sp
    n, target = max(cfg['n'], 6), cfg['target']
    om = np.array([0.3147, 0.3104, 0.9] + [2. + k for k in range(n - 3)])
    K = np.diag(om ** 2)
    M = np.eye(n)
    import warnings
    try:
        with warnings.catch_warnings():
            warnings.simplefilter('ignore')
            if target == 'analysis.freq':
                from compmech.analysis import freq
                vals, vecs = freq(sp.csr_matrix(K), sp.csr_matrix(M), sparse_solver=False, silent=True, sort=True, num_eigvalues=n)
            else:
                from compmech.panel import Panel
                p = Panel(a=1., b=1., stack=[0], plyt=1., laminaprop=(1., 1., 0.3), m=1, n=1, mu=1.)
                p.num_eigvalues = n
                p.calc_k0 = lambda *a, **k: setattr(p, 'k0', sp.csr_matrix(K))
                p.calc_kM = lambda *a, **k: setattr(p, 'kM', sp.csr_matrix(M))
                p.freq(atype=4, sparse_solver=False, silent=True, sort=True)
                vals = p.eigvals
    except Exception as e:
        return {'error': '%s: %s' % (type(e).__name__, e)}
    vals = np.asarray(vals).real
    return {'frequencies': [round(float(x), 4) for x in vals[:4]], 'not_ascending': bool((np.diff(vals) < 0).any())}


def configs(tier, seed):
    out = []
    quick = tier == 'quick'
    import random
    rnd = random.Random(seed)
    for target in ('analysis.freq', 'Panel.freq'):
        for n in ([6] if quick else [6, 7, 9]):
            actives = [list(range(n)), sorted(rnd.sample(range(n), n - 2))]
            for active in actives:
                u = len(active)
                for path in ('sparse', 'dense'):
                    nums = sorted({2, u, 25}) if quick else sorted({1, 2, u - 2, u - 1, u, 25})
                    for num in nums:
                        if path == 'dense' and num != nums[0]:
                            continue        # num_eigvalues is not used by the dense path
                        for sort in (True, False):
                            if path == 'dense' and sort and u > 4:
                                continue    # full LAPACK spectrum: the sort forks on u! orderings; covered with u <= 4 below
                            if path == 'sparse' and sort and min(num, n - 2) > 3:
                                continue    # k! orderings: sorted runs are bounded to k <= 3 returned values
                            out.append({'target': target, 'n': n, 'active': active, 'num': num, 'path': path, 'sort': sort,
                                        'group': '%s:%s' % (target, path), 'variant': '%s/num=%d/n=%d/u=%d/sort=%d' % (path, num, n, u, sort)})
            out.append({'target': target, 'n': 6, 'active': [0, 2, 5], 'num': 2, 'path': 'dense', 'sort': True,
                        'group': '%s:dense-sorted' % target, 'variant': 'dense/num=2/n=6/u=3/sort=1'})
            # sparse path with a stiffness that is not symmetric (stiffness + aerodynamic matrix below the flutter point): the pairs
            # must be right eigenpairs of the matrices given, with or without null amplitudes
            for active in (list(range(5)), [0, 2, 3, 5]):
                out.append({'target': target, 'n': 6 if len(active) == 4 else 5, 'active': active, 'num': 2, 'path': 'sparse', 'sort': False, 'unsymmetric_K': True,
                            'group': '%s:sparse-unsymmetric-stiffness' % target, 'variant': 'sparse/unsymmetric-K/u=%d' % len(active)})
            # sparse path, an amplitude WITH mass but WITHOUT stiffness (null in K only): it must be removed with the stiffnessless ones; the
            # solver must never be handed a stiffness with a null column (zero frequencies would come back first)
            for sort in (False, True):
                out.append({'target': target, 'n': 6, 'active': [0, 1, 3, 4], 'active_M': [0, 1, 2, 3, 4], 'num': 2, 'path': 'sparse', 'sort': sort,
                            'group': '%s:sparse-mass-without-stiffness' % target, 'variant': 'sparse/mass-without-stiffness/n=6/u=4/sort=%d' % sort})
            # the sort keys are ROUNDED values: two returned frequencies, the rounding modelled (fresh integer within 1/2)
            out.append({'target': target, 'n': 5, 'active': [1, 3], 'num': 2, 'path': 'dense', 'sort': True, 'rounding': True,
                        'group': '%s:dense-sorted-rounded-keys' % target, 'variant': 'dense/num=2/n=5/u=2/sort=1/rounded-keys'})
            if target == 'Panel.freq':
                for path in ('sparse', 'dense'):
                    out.append({'target': target, 'n': 6, 'active': [0, 1, 3, 4], 'num': 2, 'path': path, 'sort': False, 'history': True,
                                'group': '%s:second-analysis-after-redefinition' % target, 'variant': '%s/history/n=6/u=4' % path})
            out.append({'target': target, 'n': 6, 'active': list(range(6)), 'num': 2, 'path': 'dense', 'sort': False, 'reduced': True,
                        'group': '%s:dense-reduced_dof' % target, 'variant': 'dense/reduced_dof/n=6/u=6'})
            # reduced_dof with a null term (three null amplitudes) in the middle: the modes must land on the original numbering
            out.append({'target': target, 'n': 9, 'active': [0, 1, 2, 6, 7, 8], 'num': 2, 'path': 'dense', 'sort': False, 'reduced': True,
                        'group': '%s:dense-reduced_dof' % target, 'variant': 'dense/reduced_dof/n=9/u=6/null-term-in-the-middle'})
    return out


def main():
    run = Run('C06', 'other', explanation=(
        'Bounded symbolic verification of the frequency-solver wrappers (analysis.freq and the duplicate Panel.freq, aerodynamic terms '
        'off): the real code runs over symbolic K, M with concrete null patterns under a forking comparison policy (its own null '
        'detection, sort and > 1e-6 filter decide on symbolic values); ARPACK/LAPACK are contract stubs; z3 proves K v = omega^2 M v '
        'on the full size, zeros on removed amplitudes, value/vector pairing, positivity and ascending order after sort on every path; '
        'exceptions for admissible inputs and path violations are replayed on the real function.'))
    run.encoded('compmech/analysis/freq.py', 'freq')
    run.encoded('compmech/panel/_panel.py', 'Panel.freq')
    run.encoded('compmech/sparse.py', 'remove_null_cols')
    cf = configs(run.tier, run.seed)
    run.bounds = {'sizes_n': sorted({c['n'] for c in cf}), 'num_eigvalues': sorted({c['num'] for c in cf}), 'paths': ['sparse', 'dense', 'dense+reduced_dof'],
                  'sort': [True, False], 'configurations': len(cf)}
    run.assume('matrix entries on the active set are non-zero reals (sums of entries may vanish)', 'ARPACK/LAPACK contract: K_p v = mu M_p v (eigs) resp. -M_p v = nu K_p v (eig) on the matrices passed; mu = w^2, nu = -1/w^2 with w > 0 (positive definite pair)',
               'rounding inside the sort key is modelled (fresh integer within 1/2 of the argument) in the rounded-keys configurations (two returned values), the identity elsewhere', 'reduced_dof presupposes three amplitudes per term, all active')
    run.stubs = ['scipy.sparse.linalg.eigs', 'scipy.linalg.eig', 'sqrt of a solver eigenvalue -> its registered root', 'msg']
    run.outside = ['ARPACK numerics/ordering before sort', 'complex eigenvalues (aerodynamic matrices)', 'sizes above 9', 'agreement of sparse and dense numerical results', 'dense path with an amplitude that has mass but no stiffness (the dense route detects null amplitudes from M alone; K is then singular and outside the statement: K positive definite on the active amplitudes)', 'mass without stiffness coupled to the other amplitudes (the stiff block is then not an invariant subspace of the pair)']
    res = pmap(job, cf)
    for r in res:
        cfg = r['cfg']
        if r.get('raised'):
            run.obligations += 1
            real = real_replay(cfg)
            rep = {'cfg': cfg, 'symbolic_run_raised': r['raised'], 'real_function': real, 'trace': r.get('trace')}
            if real.get('raised'):
                run.violation('%s/raises/%s' % (cfg['group'], r['raised'].split(':')[0]), '%s raises for %s: %s' % (cfg['target'], cfg['variant'], real['raised']), rep)
            else:
                run.harness_error('exception in the symbolic run did not reproduce on the real function: %s %s' % (cfg['variant'], r['raised']))
            continue
        if r.get('path_violation') and 'ascending' in r['path_violation']:
            run.obligations += 1
            real = real_order_replay(cfg)
            if real.get('not_ascending'):
                run.violation('%s/%s' % (cfg['group'], r['path_violation'][:50]), '%s %s: %s; real function with two frequencies closer than the rounding of the sort key: %s' % (
                    cfg['target'], cfg['variant'], r['path_violation'], real), {'cfg': cfg, 'model': r.get('model'), 'real_function': real})
            else:
                run.harness_error('ordering violation did not replay on the real function: %s %s' % (cfg['variant'], real))
            continue
        if r.get('path_violation'):
            run.obligations += 1
            run.violation('%s/%s' % (cfg['group'], r['path_violation'][:50]), '%s %s: %s' % (cfg['target'], cfg['variant'], r['path_violation']), {'cfg': cfg, 'model': r.get('model')})
            continue
        sats = run.absorb_job(r)
        if sats:
            fam = sorted({s['name'].split('[')[0] for s in sats})
            special = 'zero-column-sum' if (cfg['path'] == 'dense' and not cfg.get('reduced') and not cfg.get('history')) else None
            # concrete matrices for the replay: generic, then the special shapes a symbolic path may stand for
            for special in [special, 'tiny-mass', 'tiny-stiffness']:
                real = real_replay(cfg, special)
                if _real_bad(real):
                    break
            rep = {'cfg': cfg, 'failed': [s['name'] for s in sats][:12], 'model': sats[0]['model'], 'real_function': real}
            if _real_bad(real):
                run.violation('%s/%s' % (cfg['group'], '+'.join(fam)), '%s %s: %s fail; real function%s: %s' % (
                    cfg['target'], cfg['variant'], fam, {'zero-column-sum': ' with a positive definite M one of whose columns sums to zero', 'tiny-mass': ' with one amplitude of tiny, non-zero mass (row and column scaled by 1e-10)', 'tiny-stiffness': ' with the stiffness matrix scaled by 1e-10'}.get(special, ''), real), rep)
            else:
                run.harness_error('sat obligations %s of %s did not replay on the real function (%s)' % (fam, cfg['variant'], real))
    # canary
    reset()
    try:
        c = dict(cf[0])
        obs, assumptions, info = None, None, None

        def one(ctx):
            nonlocal obs, assumptions, info
            obs, assumptions, info = run_freq(c, ctx=ctx)
            return True
        FS.explore(one, max_paths=1)
        name, lhs, rhs = [o for o in obs if o and o[0].startswith('residual')][0]
        cres = decide_job('canary', [(name, lhs, Sym.lift(rhs) * 2 + Sym.var('eps'))], assumptions.get(0, []))
        run.canary(len(cres['sat']) == 1, 'perturbed residual')
    except Exception as e:
        run.harness_error('canary crashed: %s' % e)
    # call sites inside the package that switch the condensation on unconditionally (reduced_dof=True is the recorded finding:
    # the returned pairs solve the (v, w) block only).  Read from the source (ast), replayed by the mechanism's float twin.
    import ast
    from ..harness import REPO
    for root, _, files in os.walk(os.path.join(REPO, 'compmech')):
        if os.sep + 'tests' in root:
            continue
        for fn in sorted(files):
            if not fn.endswith('.py'):
                continue
            path = os.path.join(root, fn)
            try:
                tree = ast.parse(open(path).read())
            except SyntaxError:
                continue
            for node in ast.walk(tree):
                if isinstance(node, ast.Call) and getattr(node.func, 'attr', getattr(node.func, 'id', None)) == 'freq':
                    for kw in node.keywords:
                        if kw.arg == 'reduced_dof' and isinstance(kw.value, ast.Constant) and kw.value.value is True:
                            rel = os.path.relpath(path, REPO)
                            real = real_replay({'target': 'analysis.freq', 'n': 6, 'active': list(range(6)), 'num': 2, 'path': 'dense', 'sort': False, 'reduced': True})
                            run.obligations += 1
                            run.violation('call-site/%s' % rel, '%s line %d calls freq(..., reduced_dof=True) unconditionally: on the dense path the returned pairs are not eigenpairs of (K, M) (float twin of the mechanism: %s)' % (
                                rel, node.lineno, real), {'file': rel, 'line': node.lineno, 'real_function': real})
    # float twins on the real solver route (one run per wrapper configuration, sampling -- stated as such)
    twins = []
    for cfg in cf:
        if cfg.get('rounding') or cfg.get('history') or cfg.get('reduced') or cfg.get('unsymmetric_K'):
            continue
        real = real_replay(cfg)
        twins.append(real.get('worst_rel_residual'))
        if real.get('raised') or (real.get('worst_rel_residual') or 0) > 1e-8:
            if not any(v['key'].startswith('%s' % cfg['group']) for v in run.violations):
                run.obligations += 1
                run.violation('%s/%s/float-twin' % (cfg['group'], cfg['variant']), '%s %s: the float twin of the configuration fails on the real function although the symbolic run passed: %s' % (
                    cfg['target'], cfg['variant'], real), {'cfg': cfg, 'real_function': real, 'decided_by': 'one float run on the real route (no solver verdict for this branch)'})
    run.extra['float_twins'] = {'runs': len(twins), 'worst_relative_residual': max([t for t in twins if t is not None] or [0])}
    # mass-scaling twin through Panel.freq on the compiled build (sampling, stated as such): the panel's own matrices, mass density
    # scaled by s down to the magnitudes of a mm / tonne / s unit system: frequencies scale by 1/sqrt(s), sparse and dense agree
    try:
        ms = panel_mass_scaling_twin()
    except Exception as e:
        ms = [{'what': 'error', 'error': '%s: %s' % (type(e).__name__, e)}]
    run.extra['panel_mass_scaling_twin'] = {'mismatches': len(ms)}
    if ms:
        run.obligations += 1
        run.violation('panel-mass-scaling-twin/%s' % ms[0].get('what', 'error'), 'Panel.freq: frequencies do not scale by 1/sqrt(s) with the mass / paths disagree: %s' % (ms[:3],),
                      {'mismatches': ms[:10], 'decided_by': 'float runs on the compiled build (no solver verdict for this branch)'})
    return run.finish()


def panel_mass_scaling_twin():
    from compmech.panel import Panel
    lp = (142.5e9, 8.7e9, 0.28, 5.1e9, 5.1e9, 5.1e9)
    bad = []
    ref = None
    for s_ in (1., 1e-6, 1e-12, 1e-15):
        for sparse in (True, False):
            p = Panel(a=2., b=0.5, stack=[0, 90, 90, 0], plyt=1e-3 * 0.125, laminaprop=lp, m=8, n=8, mu=1.3e3 * s_)
            p.model = 'plate_clt_donnell_bardell'
            p.freq(sparse_solver=sparse, silent=True)
            w = np.asarray(p.eigvals[:4])
            if np.iscomplexobj(w) and np.abs(w.imag).max() > 1e-9 * np.abs(w.real).max():
                bad.append({'what': 's=%g/sparse=%s/complex' % (s_, sparse), 'eigvals': [complex(x) for x in w]})
                continue
            w = np.sort(np.asarray(w.real, dtype=float)) * np.sqrt(s_)
            if ref is None:
                ref = w
            elif w.shape != ref.shape or not np.allclose(w, ref, rtol=1e-6):
                bad.append({'what': 's=%g/sparse=%s' % (s_, sparse), 'scaled_frequencies': [float(x) for x in w], 'reference': [float(x) for x in ref]})
    return bad


def replay(path):
    d = json.load(open(path))
    cfg = d['replay']['cfg']
    print('real function:', real_replay(cfg))
    return 0
