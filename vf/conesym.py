"""Symbolic complete shells: the REAL compmech.conecyl.ConeCyl object over symbolic attributes (E4) with the shell kernels
(clpt/fsdt commons and linear modules) de-Cythonised on demand (E1) and trigonometric values as atoms (vf/trig.py)."""
import importlib
import numpy as np
from fractions import Fraction
from .sym import Sym, SymBranch
from .shadow import Shadow, KernelSet, LazyNS, NpShadow, ShimCOO, ShimCSR, ShimCSC
from .trig import Trig

COMMONS = {'clpt_donnell_bc1': 'compmech/conecyl/clpt/clpt_commons_bc1.pyx', 'clpt_donnell_bc2': 'compmech/conecyl/clpt/clpt_commons_bc2.pyx',
           'clpt_donnell_bc3': 'compmech/conecyl/clpt/clpt_commons_bc3.pyx', 'clpt_donnell_bc4': 'compmech/conecyl/clpt/clpt_commons_bc4.pyx'}
for _bc in ('bc1', 'bc2', 'bc3', 'bc4'):
    COMMONS['clpt_sanders_' + _bc] = 'compmech/conecyl/clpt/clpt_commons_%s.pyx' % _bc
    COMMONS['fsdt_donnell_' + _bc] = 'compmech/conecyl/fsdt/fsdt_commons_%s.pyx' % _bc
LINEAR = {k: 'compmech/conecyl/%s/%s_linear.pyx' % (k.split('_')[0], k) for k in COMMONS}


class ConePolicy:
    """generic symbolic attributes: a symbol is non-zero / truthy; ordering only against the numeric guards of _rebuild"""

    def __init__(self):
        self.log = []

    def __call__(self, kind, lhs, rhs):
        if kind == 'ne':
            return True
        if kind == 'eq':
            return False
        raise SymBranch('ordering comparison %s on symbolic shell attributes' % kind)


def pin_linear(cc, k0):
    """give a ConeCyl object placeholder linear matrices that count as belonging to its CURRENT definition (since fix fb734ae the
    object drops stored matrices whose definition key differs; the routines that compute them are another property's subject)"""
    cc.k0 = k0
    if hasattr(cc, '_linear_definition'):
        cc._linear_key = cc._linear_definition()


class ConeCtx:
    def __init__(self, values=None, seed=0):
        import random
        self.values = values
        self.used_values = {}
        self._rnd = random.Random(seed)
        self.trig = Trig(self.V, pi=self.V('pi') if values is None else Sym(Fraction(355, 113)))
        env = {'sin': self.trig.sin, 'cos': self.trig.cos, 'pi': self.trig.pi, 'cfw0x': lambda *a: 0, 'cfw0t': lambda *a: 0}
        self.kernels = KernelSet(None, extra_env=env)
        self.policy = ConePolicy()

    def V(self, name):
        name = Sym.resolve(name)
        if isinstance(name, tuple):
            return Sym.lin_value(name, self.V)   # pinned to a linear combination of other inputs on the locus under exploration
        if isinstance(name, Fraction):
            return Sym(name)          # pinned on the equality locus under exploration
        if self.values is None:
            return Sym.var(name)
        if name in self.used_values:
            return Sym(self.used_values[name])
        if name in self.values:
            v = Fraction(self.values[name])
        elif name[0] in 'SC' and name[1:].isdigit():
            # trig atoms of one argument class: a rational point of the unit circle
            k = int(name[1:])
            t = Fraction(self._rnd.randint(1, 9), self._rnd.randint(10, 19)) if ('T%d' % k) not in self.used_values else self.used_values['T%d' % k]
            self.used_values['T%d' % k] = t
            v = (2 * t / (1 + t * t)) if name[0] == 'S' else ((1 - t * t) / (1 + t * t))
        else:
            v = Fraction(self._rnd.randint(1, 40), self._rnd.randint(7, 23))
        self.used_values[name] = v
        return Sym(v)

    def deg2rad(self, x):
        if isinstance(x, Sym):
            return x * self.trig.pi / 180
        if isinstance(x, (int, float)) and x == 0:
            return 0.
        return Sym.lift(x) * self.trig.pi / 180

    def get_model(self, name):
        import compmech.conecyl.modelDB as mdb
        e = dict(mdb.db[name])
        if name in COMMONS:
            e['commons'] = LazyNS(self.kernels, COMMONS[name])
            e['linear'] = LazyNS(self.kernels, LINEAR[name])
        return e

    def shadow(self, extra_stubs=None):
        stubs = {'compmech.conecyl.conecyl.sin': self.trig.sin, 'compmech.conecyl.conecyl.cos': self.trig.cos,
                 'compmech.conecyl.conecyl.tan': self.trig.tan, 'compmech.conecyl.conecyl.deg2rad': self.deg2rad,
                 'compmech.conecyl.conecyl.pi': self.trig.pi, 'compmech.conecyl.conecyl.get_model': self.get_model,
                 'compmech.conecyl.conecyl.np': NpShadow(), 'compmech.conecyl.conecyl.DOUBLE': object,
                 'compmech.conecyl.conecyl.coo_matrix': ShimCOO, 'compmech.conecyl.conecyl.csr_matrix': ShimCSR,
                 'compmech.conecyl.conecyl.csc_matrix': ShimCSC,
                 'compmech.conecyl.conecyl.msg': (lambda *a, **k: None), 'compmech.conecyl.conecyl.warn': (lambda *a, **k: None)}
        if extra_stubs:
            stubs.update(extra_stubs)
        return Shadow(None, stubs=stubs, policy=self.policy)

    def new_cone(self, model='clpt_donnell_bc1', m1=1, m2=1, n2=1):
        from compmech.conecyl import ConeCyl
        cc = ConeCyl()
        cc.model = model
        cc.m1, cc.m2, cc.n2 = m1, m2, n2
        cc.nx, cc.nt = 4 * m2, 4 * n2
        cc.stack = [0]
        cc.plyt = self.V('plyt')
        cc.laminaprop = (1., 1., 0.3)
        return cc
