#!/usr/bin/env python3
"""tools/regress_seeds.py <nworkers>  -- every seeded change in /verif/seeded applied in turn to a scratch worktree of /repo (never to /repo
itself) and run against the quick tier of its property's check, in a scratch copy of /verif; a seed its own check does not report is
tried against the other checks.  Writes /verif/seeded/REGRESSION.json: which check reports which seed on the current tree."""
import os, sys, json, subprocess, glob, shutil, time
from concurrent.futures import ThreadPoolExecutor
N = int(sys.argv[1]) if len(sys.argv) > 1 else 3
ROOT = '/tmp/regr'
FALLBACK = ['C20', 'C14', 'C16', 'C07', 'C06', 'C01', 'C02', 'C12', 'C13', 'C17', 'C18', 'C04', 'C05', 'C08', 'C19', 'C03', 'C11']


# checks other than the seed's own that report it (DESIGN 9.5), tried right after the own check
HINTS = {'C04-b': ['C13'], 'C07-c': ['C13'], 'C02-d': ['C14'], 'C09-g': ['C07'], 'C18-g': ['C07'], 'C05-g': ['C20'], 'C05-h': ['C16'], 'C08-h': ['C20'], 'C14-g': ['C01'],
         'C18-h': ['C16'], 'C04-g': ['C06', 'C20'], 'C03-h': ['C02'], 'C09-h': ['C07'], 'C14-h': ['C01'], 'C20-i': ['C19'], 'C04-h': ['C13'], 'C05-i': ['C02'], 'C02-i': ['C10'], 'C13-j': ['C12'], 'C07-i': ['C11'], 'C14-i': ['C01']}


def sh(cmd, **kw):
    return subprocess.run(cmd, shell=True, capture_output=True, text=True, **kw)


def setup(k):
    repo, ver = '%s/repo_%d' % (ROOT, k), '%s/verif_%d' % (ROOT, k)
    sh('git -C /repo worktree remove --force %s; rm -rf %s %s' % (repo, repo, ver))
    sh('/verif/tools/mkwt.sh %s' % repo)
    os.makedirs(ver)
    sh("rsync -a --exclude .git --exclude seeded --exclude replays --exclude .venv /verif/ %s/" % ver)
    os.symlink('/verif/.venv', ver + '/.venv')
    return repo, ver


def run_check(repo, ver, pid):
    env = dict(os.environ, COMPMECH_REPO=repo, PYTHONPATH=repo, VERIF_NPROC='5', VERIF_SEED='1')
    r = subprocess.run('cd %s && timeout 1500 ./check %s --tier quick' % (ver, pid), shell=True, capture_output=True, text=True, env=env)
    lines = [l for l in r.stdout.splitlines() if l.startswith('VIOLATION')]
    return r.returncode, (lines[0][:260] if lines else '')


def worker(k, seeds):
    repo, ver = setup(k)
    out = {}
    for seed in seeds:
        d = '/verif/seeded/' + seed
        patches = sorted(glob.glob(d + '/patch_rebased*.diff')) or [d + '/patch.diff']
        sh('git -C %s checkout -- .' % repo)
        a = sh('git -C %s apply %s' % (repo, patches[-1]))
        if a.returncode != 0:
            out[seed] = {'status': 'patch does not apply on the current tree', 'detail': a.stderr[:200]}
            continue
        try:
            prop = json.load(open(d + '/meta.json')).get('property', seed.split('-')[0])
        except Exception:
            prop = seed.split('-')[0]
        prop = prop if prop.startswith('C') and len(prop) == 3 else seed.split('-')[0]
        tried = []
        hint = HINTS.get(seed, [])
        for pid in [prop] + hint + [p for p in FALLBACK if p != prop and p not in hint]:
            t0 = time.time()
            code, line = run_check(repo, ver, pid)
            tried.append({'check': pid, 'exit': code, 'seconds': round(time.time() - t0)})
            if code == 1 and line:
                out[seed] = {'status': 'reported', 'by': pid, 'own_check': pid == prop, 'line': line, 'tried': tried}
                break
            if len(tried) >= int(os.environ.get('MAXTRY', 6)):
                break
        else:
            pass
        if seed not in out:
            out[seed] = {'status': 'NOT REPORTED', 'tried': tried}
        json.dump(out, open('%s/part_%d.json' % (ROOT, k), 'w'), indent=1)
    sh('git -C %s checkout -- .' % repo)
    sh('git -C /repo worktree remove --force %s; rm -rf %s %s' % (repo, repo, ver))
    return out


def main():
    os.makedirs(ROOT, exist_ok=True)
    seeds = sorted(s for s in os.listdir('/verif/seeded') if os.path.isdir('/verif/seeded/' + s))
    only = os.environ.get('ONLY')
    if only:
        seeds = [s for s in seeds if s in only.split(',')]
    parts = [seeds[i::N] for i in range(N)]
    with ThreadPoolExecutor(N) as ex:
        res = list(ex.map(lambda a: worker(*a), enumerate(parts)))
    allr = {}
    for r in res:
        allr.update(r)
    head = subprocess.run('git -C /repo log --format=%h -1', shell=True, capture_output=True, text=True).stdout.strip()
    if only and os.path.exists('/verif/seeded/REGRESSION.json'):
        prev = json.load(open('/verif/seeded/REGRESSION.json'))['results']
        prev.update(allr)
        allr = prev
    json.dump({'repo_head': head, 'seeds': len(allr), 'reported': sum(1 for v in allr.values() if v['status'] == 'reported'),
               'reported_by_own_check': sum(1 for v in allr.values() if v.get('own_check')), 'results': dict(sorted(allr.items()))},
              open('/verif/seeded/REGRESSION.json', 'w'), indent=1)
    print('done', len(allr))


main()
