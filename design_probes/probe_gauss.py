import re, time, sys
from fractions import Fraction as Fr
import z3
src = open('/repo/compmech/lib/src/legendre_gauss_quadrature.c').read()
tabs = {}
cur = None
for line in src.split('\n'):
    m = re.match(r'\s*case (\d+):', line)
    if m: cur = int(m.group(1)); tabs[cur] = ({}, {}); continue
    m = re.match(r'\s*(points|weights)\[(\d+)\] = ([^;]+);', line)
    if m and cur:
        tabs[cur][0 if m.group(1) == 'points' else 1][int(m.group(2))] = Fr(float(m.group(3)))
print('orders', min(tabs), max(tabs), len(tabs))
tot = 0
for n in (2, 8, 32, 64):
    pts, wts = tabs[n]
    assert len(pts) == n and len(wts) == n
    t0 = time.time()
    errs = []
    pw = [Fr(1)]*n
    for k in range(2*n):
        val = sum(wts[i]*pw[i] for i in range(n))
        ex = Fr(2, k+1) if k % 2 == 0 else Fr(0)
        errs.append(val - ex)
        pw = [pw[i]*pts[i] for i in range(n)]
    t1 = time.time()
    s = z3.Solver()
    a = [z3.Real('a%d' % k) for k in range(2*n)]
    for x in a: s.add(x >= -1, x <= 1)
    e = z3.Sum([a[k]*z3.Q(errs[k].numerator, errs[k].denominator) for k in range(2*n)])
    tol = z3.Q(1, 10**12)
    s.add(z3.Or(e > tol, e < -tol))
    r = s.check()
    print(n, 'sum|err|=%.3g' % float(sum(abs(x) for x in errs)), 'exact arith %.2fs' % (t1-t0), 'z3', r, '%.2fs' % (time.time()-t1))
